"""C17 — grid decorators return containers mirroring the input grid, entry k for point k.

The decorators `aa.grid_dec.to_array / to_grid / to_vector_yx / project_grid / transform /
relocate_to_radial_minimum` are applied to methods of mock profile classes defined here (the pattern of
autoarray/structures/mock/mock_decorators.py).  The method bodies record the grid they receive and
evaluate a harness-chosen function of the coordinates (non-symmetric polynomials, optionally made
position-dependent: entry k scaled by k+1, or prefix sums), so a permutation, a dropped mask or a grid
that is not the documented one changes the observation.
"""
from __future__ import annotations

import math
from fractions import Fraction

import numpy as np

import gen
from common import PropertyCheck, Skip, load_autoarray, mask_json, q, qlist

TWO20 = Fraction(1, 2 ** 20)

_MOCKS = None


def _np(grid):
    return np.array(grid.array if hasattr(grid, "array") else grid, dtype="float64")


def _slim_np(grid):
    """coordinates of a grid-like in slim order, float64: (N,2) for 2-D grids, (N,) for a Grid1D.  A
    profile function given a native-stored structure evaluates on its slim view."""
    if isinstance(grid, np.ndarray) or not hasattr(grid, "slim"):
        return np.array(grid, dtype="float64")
    sl = grid.slim
    return np.array(sl.array if hasattr(sl, "array") else sl, dtype="float64")


def _conv(vals, dtype):
    """container / dtype variants of one and the same list of real numbers"""
    f = [[float(Fraction(v)) for v in p] if isinstance(p, (list, tuple)) else float(Fraction(p)) for p in vals]
    if dtype == "int64":
        return np.array(f).astype("int64")
    if dtype == "int_list":
        return [[int(v) for v in p] if isinstance(p, list) else int(p) for p in f]
    if dtype == "float32":
        return np.array(f, dtype="float32")
    if dtype == "tuple":
        # the documented form `[(y0,x0), (y1,x1)]`: a LIST of tuples (an outer tuple is not an accepted input:
        # the constructors' signature is Union[np.ndarray, List])
        return [tuple(p) if isinstance(p, list) else p for p in f]
    if dtype == "ndarray":
        return np.array(f, dtype="float64")
    return f


def _phi(c, y, x):
    c = list(c) + [0.0] * (6 - len(c))
    return c[0] + c[1] * y + c[2] * x + c[3] * (y * y) + c[4] * (y * x) + c[5] * (x * x)


def _apply_mode(mode, vals):
    if mode == "index":
        return [v * (k + 1) for k, v in enumerate(vals)]
    if mode == "prefix":
        out, acc = [], 0
        for v in vals:
            acc = acc + v
            out.append(acc)
        return out
    return list(vals)


def _eval_func(fn, pts, conv=float, pair=False):
    """the user function on a list of (y,x): python numbers of type `conv` (float or Fraction)"""
    cy = [conv(Fraction(c)) for c in fn["cy"]]
    ys = _apply_mode(fn["mode"], [_phi(cy, p[0], p[1]) for p in pts])
    if not pair:
        return ys
    cx = [conv(Fraction(c)) for c in fn["cx"]]
    xs = _apply_mode(fn["mode"], [_phi(cx, p[0], p[1]) for p in pts])
    return [[a, b] for a, b in zip(ys, xs)]


def _mocks(aa):
    """mock profile classes; built once autoarray is importable"""
    global _MOCKS
    if _MOCKS is not None:
        return _MOCKS
    dec = aa.grid_dec

    class Base:
        def __init__(self, funcs=None, is_list=False, pair=False, centre=None, angle=None):
            self.funcs = funcs or []
            self.is_list = is_list
            self.pair = pair
            self.seen = []
            if centre is not None:
                self.centre = centre
            if angle is not None:
                self.angle = angle

        def _evaluate(self, grid):
            g = _slim_np(grid)
            self.seen.append((type(grid).__name__, g.copy()))
            pts = [(float(a), float(b)) for a, b in g.reshape(-1, 2)]

            def one(fn):
                v = _eval_func(fn, pts, float, self.pair)
                return np.array(v, dtype="float64").reshape((-1, 2) if self.pair else (-1,))

            if self.is_list:
                return [one(fn) for fn in self.funcs]
            return one(self.funcs[0])

    class MockDispatch(Base):
        @dec.to_array
        def array_from(self, grid, *args, **kwargs):
            return self._evaluate(grid)

        @dec.to_grid
        def grid_from(self, grid, *args, **kwargs):
            return self._evaluate(grid)

        @dec.to_vector_yx
        def vector_from(self, grid, *args, **kwargs):
            return self._evaluate(grid)

        @dec.project_grid
        def projected_from(self, grid, *args, **kwargs):
            return self._evaluate(grid)

    class MockNoAttrs(Base):
        """a profile without `centre` / `angle` attributes"""

        @dec.project_grid
        def projected_from(self, grid, *args, **kwargs):
            return self._evaluate(grid)

    class MockGridRadialMinimum(Base):
        """the class name selects the `radial_minimum` entry of grids.yaml"""

        def radial_grid_from(self, grid, **kwargs):
            g = _np(grid)
            return np.sqrt(np.add(np.square(g[:, 0]), np.square(g[:, 1])))

        def transformed_to_reference_frame_grid_from(self, grid, **kwargs):
            self.n_transforms = getattr(self, "n_transforms", 0) + 1
            shifted = np.subtract(_np(grid), np.array(self.centre))
            if hasattr(grid, "with_new_array"):
                return grid.with_new_array(shifted)
            return shifted

        @dec.transform
        @dec.relocate_to_radial_minimum
        def relocated_from(self, grid, *args, **kwargs):
            g = _np(grid)
            self.seen.append((type(grid).__name__, g.copy()))
            return g

        # nesting of `transform`: each level forwards its keyword arguments to the next
        @dec.transform
        def level3(self, grid, *args, **kwargs):
            self.seen.append((type(grid).__name__, _np(grid).copy()))
            self.flag = kwargs.get("is_transformed")
            return grid

        @dec.transform
        def level2(self, grid, *args, **kwargs):
            return self.level3(grid, **kwargs)

        @dec.transform
        def level1(self, grid, *args, **kwargs):
            return self.level2(grid, **kwargs)

    _MOCKS = {"dispatch": MockDispatch, "noattrs": MockNoAttrs, "radial": MockGridRadialMinimum}
    return _MOCKS


def _centres_2d(mj, scales, origin):
    """pixel centres of the unmasked pixels, slim order (independent statement of C02.a)"""
    h, w = mj["h"], mj["w"]
    sy, sx = scales
    oy, ox = origin
    out = []
    for i in range(h):
        for j in range(w):
            if mj["bits"][i * w + j] == "0":
                out.append((oy + (Fraction(h - 1, 2) - i) * sy, ox + (j - Fraction(w - 1, 2)) * sx))
    return out


def _centres_1d(bits, scale, origin):
    n = len(bits)
    return [origin + (k - Fraction(n - 1, 2)) * scale for k in range(n) if bits[k] == "0"]


def _funcs(rng, n, pair):
    out = []
    for _ in range(n):
        deg2 = rng.random() < 0.5
        def coeffs():
            c = [gen.dyadic(rng, -3, 3, 1) for _ in range(3)]
            c += [gen.dyadic(rng, -2, 2, 1) for _ in range(3)] if deg2 else [Fraction(0)] * 3
            if c[1] == c[2]:
                c[2] += 1  # never symmetric in (y, x)
            if c[1] == 0:
                c[1] = Fraction(1, 2)
            return qlist(c)
        fn = {"mode": rng.choice(["poly", "poly", "index", "prefix"]), "cy": coeffs()}
        if pair:
            fn["cx"] = coeffs()
        out.append(fn)
    return out


def _container_obs(c):
    """canonical observation of one returned container"""
    name = type(c).__name__
    if name in ("Array2D", "Grid2D", "VectorYX2D"):
        kind = {"Array2D": "array", "Grid2D": "grid", "VectorYX2D": "vector"}[name]
        m = np.asarray(c.mask)
        pair = kind != "array"
        sl = np.asarray(c.slim.array, dtype="float64")
        na = np.asarray(c.native.array, dtype="float64")
        o = {"type": "uniform", "kind": kind,
             "mask": {"h": int(m.shape[0]), "w": int(m.shape[1]),
                      "bits": "".join("1" if v else "0" for v in m.ravel())},
             "slim": [qlist(p) for p in sl.reshape(-1, 2)] if pair else qlist(sl.ravel()),
             "native": [qlist(p) for p in na.reshape(-1, 2)] if pair else qlist(na.ravel()),
             "_cls": name, "_scales": qlist(c.mask.pixel_scales), "_origin": qlist(c.mask.origin)}
        if name == "VectorYX2D":
            o["_grid"] = [qlist(p) for p in _slim_np(c.grid).reshape(-1, 2)]
        return o
    if name in ("ArrayIrregular", "Grid2DIrregular", "VectorYX2DIrregular"):
        kind = {"ArrayIrregular": "array", "Grid2DIrregular": "grid", "VectorYX2DIrregular": "vector"}[name]
        v = _np(c)
        o = {"type": "irregular", "kind": kind,
             "values": qlist(v.ravel()) if kind == "array" else [qlist(p) for p in v.reshape(-1, 2)],
             "_cls": name}
        if name == "VectorYX2DIrregular":
            o["_grid"] = [qlist(p) for p in _slim_np(c.grid).reshape(-1, 2)]
        return o
    if name == "Array1D":
        m = np.asarray(c.mask)
        return {"type": "oned", "bits": "".join("1" if v else "0" for v in m.ravel()),
                "slim": qlist(np.asarray(c.slim.array, dtype="float64").ravel()),
                "native": qlist(np.asarray(c.native.array, dtype="float64").ravel()),
                "_cls": name, "_scales": qlist(c.mask.pixel_scales), "_origin": qlist(c.mask.origin)}
    return {"type": name}


def _strip(o):
    if isinstance(o, dict):
        return {k: _strip(v) for k, v in o.items() if not k.startswith("_")}
    if isinstance(o, list):
        return [_strip(v) for v in o]
    return o


class C17(PropertyCheck):
    pid = "C17"
    title = "grid decorators"
    rtol = Fraction(1, 10 ** 9)
    atol = Fraction(1, 10 ** 9)
    nontrivial_rule = (
        "dispatch cases: the grid has >= 2 coordinates and (for uniform grids) the mask has masked and "
        "unmasked pixels; relocation cases: at least one coordinate strictly inside and one outside the "
        "radial minimum; distinct = distinct case"
    )
    exhaustive_note = {
        "quick": "dispatch: every mask of every shape with H*W <= 6 through one of the three decorators "
                 "(rotating); every 1-D mask of length <= 4; decorator x grid-type x list/non-list fully crossed",
        "thorough": "dispatch: every mask of every shape with H*W <= 8 (and a seed-dependent third of those with "
                    "H*W = 9); every 1-D mask of length <= 6",
    }
    trusted_extra = [
        "numpy sqrt / arctan2 / sin / cos / radians (parameters `Trig` of the model; theorems carry their "
        "hypotheses, discharged for Real.sqrt / Real.sin / Real.cos)",
        "the profile object's own `radial_grid_from` and `transformed_to_reference_frame_grid_from` (user code: "
        "the theorems assume the reported radius is sqrt(y^2+x^2) in the profile frame)",
        "IEEE rounding of the projection / relocation arithmetic (compared at 1e-9)",
    ]
    modelled_functions = [
        "autoarray/structures/decorators/abstract.py:AbstractMaker.evaluate_func",
        "autoarray/structures/decorators/abstract.py:AbstractMaker.result",
        "autoarray/structures/decorators/to_array.py:ArrayMaker.via_grid_2d",
        "autoarray/structures/decorators/to_array.py:ArrayMaker.via_grid_2d_irr",
        "autoarray/structures/decorators/to_array.py:ArrayMaker.via_grid_1d",
        "autoarray/structures/decorators/to_array.py:to_array",
        "autoarray/structures/decorators/to_grid.py:GridMaker.via_grid_2d",
        "autoarray/structures/decorators/to_grid.py:GridMaker.via_grid_2d_irr",
        "autoarray/structures/decorators/to_grid.py:GridMaker.via_grid_1d",
        "autoarray/structures/decorators/to_grid.py:to_grid",
        "autoarray/structures/decorators/to_vector_yx.py:VectorYXMaker.via_grid_2d",
        "autoarray/structures/decorators/to_vector_yx.py:VectorYXMaker.via_grid_2d_irr",
        "autoarray/structures/decorators/to_vector_yx.py:to_vector_yx",
        "autoarray/structures/decorators/project_grid.py:project_grid",
        "autoarray/structures/decorators/relocate_radial.py:relocate_to_radial_minimum",
        "autoarray/structures/decorators/transform.py:transform",
        "autoarray/structures/grids/uniform_1d.py:Grid1D.grid_2d_radial_projected_from",
        "autoarray/structures/grids/uniform_2d.py:Grid2D.grid_2d_radial_projected_from",
        "autoarray/structures/grids/grid_2d_util.py:grid_scaled_2d_slim_radial_projected_from",
        "autoarray/geometry/geometry_util.py:transform_grid_2d_to_reference_frame",
        "autoarray/geometry/geometry_util.py:transform_grid_2d_from_reference_frame",
        "autoarray/mask/derive/mask_1d.py:DeriveMask1D.to_mask_2d",
    ]
    assumptions = [
        "the user function returns one value (or (y,x) pair) per coordinate it receives (otherwise the "
        "container constructors raise, which the model reports as constructor_raised)",
        "a profile function handed a native-stored Grid2D / Grid1D evaluates on its slim view (the mocks do); "
        "relocation cases use slim-stored uniform grids (the decorator multiplies grid by radii[:, None])",
    ]

    # ------------------------------------------------------------------ generation
    def _uniform_grid(self, rng, m):
        sy, sx = gen.scales_pair(rng)
        oy, ox = gen.origin_pair(rng)
        return {"type": "uniform", "mask": mask_json(m), "scales": [q(sy), q(sx)], "origin": [q(oy), q(ox)]}

    def _irregular_grid(self, rng, n=None):
        n = n if n is not None else rng.randint(1, 9)
        pts = [[q(gen.dyadic(rng, -6, 6, 2)), q(gen.dyadic(rng, -6, 6, 2))] for _ in range(n)]
        if n >= 3 and rng.random() < 0.3:
            pts[rng.randrange(n)] = pts[0]  # duplicate coordinate
        return {"type": "irregular", "pts": pts}

    def _oned_grid(self, rng, bits=None):
        if bits is None:
            n = rng.randint(1, 9)
            bits = "".join("1" if rng.random() < 0.35 else "0" for _ in range(n))
            if "0" not in bits:
                bits = "0" + bits[1:]
        return {"type": "oned", "bits": bits, "scale": q(rng.choice(gen.SCALES)),
                "origin": q(gen.dyadic(rng, -3, 3, 2))}

    def _vary(self, rng, g):
        """round-3 hardening: the same mathematical grid through other storage forms, constructors,
        dtypes and containers (the decorators must not care)"""
        g = dict(g)
        r = rng.random()
        if g["type"] == "uniform":
            bits = g["mask"]["bits"]
            h, w = g["mask"]["h"], g["mask"]["w"]
            if r < 0.3:
                g["store_native"] = True
            elif r < 0.45 and "1" not in bits:
                g["ctor"] = "uniform"
            elif r < 0.6 and "1" not in bits:
                g["ctor"] = "no_mask"
                g["dtype"] = rng.choice(["int64", "int_list", "float32", "float", "ndarray"])
                ints = g["dtype"] in ("int64", "int_list")
                g["coords"] = [[q(rng.randint(-9, 9) if ints else gen.dyadic(rng, -6, 6, 2)),
                                q(rng.randint(-9, 9) if ints else gen.dyadic(rng, -6, 6, 2))] for _ in range(h * w)]
                g["store_native"] = rng.random() < 0.3
            elif r < 0.7:
                g["ctor"] = "manual"  # Grid2D(values=<slim or native coordinates>, mask=mask, store_native=…)
                g["store_native"] = rng.random() < 0.5
                g["manual_native_input"] = rng.random() < 0.5
        elif g["type"] == "irregular":
            if r < 0.5:
                g["dtype"] = rng.choice(["int64", "int_list", "float32", "tuple", "ndarray", "wrapped"])
                if g["dtype"] in ("int64", "int_list"):
                    g["pts"] = [[q(rng.randint(-9, 9)), q(rng.randint(-9, 9))] for _ in g["pts"]]
        else:
            bits = g["bits"]
            n = len(bits)
            if r < 0.35:
                g["store_native"] = True
            elif r < 0.5:
                g["ctor"] = "manual"  # Grid1D(values=…, mask=mask, store_native=…)
                g["store_native"] = rng.random() < 0.6
                g["manual_native_input"] = rng.random() < 0.5
            elif r < 0.6 and "1" not in bits:
                g["ctor"] = rng.choice(["uniform", "uniform_from_zero"])
            elif r < 0.75 and "1" not in bits:
                g["ctor"] = "no_mask"
                g["dtype"] = rng.choice(["int64", "int_list", "float32", "float", "ndarray", "tuple"])
                ints = g["dtype"] in ("int64", "int_list")
                g["xs"] = [q(rng.randint(-9, 9) if ints else gen.dyadic(rng, -6, 6, 2)) for _ in range(n)]
        return g

    def _dispatch(self, rng, kind, grid, is_list, tag):
        pair = kind != "array"
        nf = rng.randint(0, 3) if is_list and rng.random() < 0.2 else (rng.randint(1, 3) if is_list else 1)
        return {"tag": tag, "case": "dispatch", "kind": kind, "grid": grid, "list": is_list,
                "funcs": _funcs(rng, nf, pair)}

    def generate(self, tier, rng):
        kinds = ["array", "grid", "vector"]
        cells = 6 if tier == "quick" else 9
        # 1. exhaustive masks, decorators rotating
        i = 0
        for (h, w) in gen.shapes_upto(cells):
            for m in gen.all_masks(h, w):
                if tier == "thorough" and h * w > 8 and (i + rng.randrange(3)) % 3:
                    i += 1
                    continue
                yield self._dispatch(rng, kinds[i % 3], self._uniform_grid(rng, m), (i // 3) % 4 == 3,
                                     "disp_uniform_exh")
                i += 1
        # 2. full cross decorator × grid type × list
        reps = 6 if tier == "quick" else 60
        for _ in range(reps):
            for kind in kinds:
                for is_list in (False, True):
                    h, w = rng.randint(1, 8), rng.randint(1, 8)
                    m, mk = gen.random_mask(rng, h, w)
                    yield self._dispatch(rng, kind, self._uniform_grid(rng, m), is_list, f"disp_uniform_{mk}")
                    yield self._dispatch(rng, kind, self._irregular_grid(rng), is_list, "disp_irregular")
                    yield self._dispatch(rng, kind, self._oned_grid(rng), is_list, "disp_oned")
                    # the same three through other storage forms / constructors / dtypes / containers
                    h, w = rng.randint(1, 6), rng.randint(1, 6)
                    m, mk = gen.random_mask(rng, h, w, kind=rng.choice([None, None, "all"]))
                    yield self._dispatch(rng, kind, self._vary(rng, self._uniform_grid(rng, m)), is_list,
                                         "disp_uniform_variant")
                    yield self._dispatch(rng, kind, self._vary(rng, self._irregular_grid(rng)), is_list,
                                         "disp_irregular_variant")
                    g1 = self._oned_grid(rng, None if rng.random() < 0.6 else "0" * rng.randint(1, 6))
                    yield self._dispatch(rng, kind, self._vary(rng, g1), is_list, "disp_oned_variant")
        # degenerate sizes: no unmasked pixel at all, empty / single coordinate sets, one-pixel 1-D grids;
        # masked 1-D grids in native storage (every mask of length <= 3)
        for kind in kinds:
            for (h, w) in ((1, 1), (1, 3), (2, 2)):
                g = self._uniform_grid(rng, gen.full(h, w, True))
                yield self._dispatch(rng, kind, g, False, "disp_uniform_all_masked")
                yield self._dispatch(rng, kind, {**g, "store_native": True}, True, "disp_uniform_all_masked")
            yield self._dispatch(rng, kind, self._irregular_grid(rng, 0), False, "disp_irregular_empty")
            yield self._dispatch(rng, kind, self._irregular_grid(rng, 0), True, "disp_irregular_empty")
            yield self._dispatch(rng, kind, self._vary(rng, self._irregular_grid(rng, 1)), False, "disp_irregular_single")
            if kind != "vector":
                for bits in ("1", "11", "0", "01", "10", "011", "101", "110", "010", "001", "100"):
                    for native in (False, True):
                        g = self._oned_grid(rng, bits)
                        g["store_native"] = native
                        yield self._dispatch(rng, kind, g, False, "disp_oned_small_native" if native else "disp_oned_small")
        n1 = 4 if tier == "quick" else 6
        for ln in range(1, n1 + 1):
            for b in range((1 << ln) - 1):
                bits = "".join("1" if (b >> k) & 1 else "0" for k in range(ln))
                yield self._dispatch(rng, "array", self._oned_grid(rng, bits), False, "disp_oned_exh")
        # 3. a function that returns the wrong number of entries: the constructor must refuse
        for _ in range(6 if tier == "quick" else 40):
            m, mk = gen.random_mask(rng, rng.randint(2, 5), rng.randint(2, 5))
            c = self._dispatch(rng, rng.choice(kinds), self._uniform_grid(rng, m), False, "disp_bad_length")
            c["drop_last"] = True
            yield c
        # 4. project_grid
        for _ in range(40 if tier == "quick" else 400):
            gt = rng.choice(["uniform", "uniform", "irregular", "oned"])
            if gt == "uniform":
                m, mk = gen.random_mask(rng, rng.randint(1, 7), rng.randint(1, 7))
                grid = self._uniform_grid(rng, m)
            elif gt == "irregular":
                grid = self._irregular_grid(rng)
            else:
                grid = self._oned_grid(rng)
            if rng.random() < 0.5:
                grid = self._vary(rng, grid)
                if grid.get("ctor") == "no_mask" and gt == "uniform":
                    grid.pop("ctor"), grid.pop("coords", None), grid.pop("dtype", None)
            attrs = rng.choice(["both", "both", "both", "none", "centre_only", "missing"])
            centre = [q(gen.dyadic(rng, -2, 2, 2)), q(gen.dyadic(rng, -2, 2, 2))]
            angle = q(rng.choice([0, 30, 45, 90, -60, 180, 200, 17, 123, 270, 359]) + (
                gen.dyadic(rng, 0, 1, 3) if rng.random() < 0.3 else 0))
            # "set but falsy": centre (0.0, 0.0) / a zero component, angle 0.0 (the +90 must still apply)
            r0 = rng.random()
            if r0 < 0.15:
                centre = ["0", "0"]
            elif r0 < 0.25:
                centre[rng.randrange(2)] = "0"
            if rng.random() < 0.2:
                angle = "0"
            pair = gt == "irregular" and rng.random() < 0.4
            yield {"tag": f"project_{gt}", "case": "project", "grid": grid, "attrs": attrs,
                   "centre": centre, "angle": angle, "func": _funcs(rng, 1, pair)[0]}
        # 5. radial minimum
        for _ in range(60 if tier == "quick" else 600):
            yield self._relocate_case(rng)
        # 6. transform nesting
        for depth in (1, 2, 3):
            for flag in (False, True, "explicit_false"):
                for _ in range(2 if tier == "quick" else 10):
                    yield {"tag": "transform", "case": "transform", "depth": depth, "flag": flag is True,
                           "explicit_false": flag == "explicit_false",
                           "centre": [q(gen.dyadic(rng, -3, 3, 2)), q(gen.dyadic(rng, -3, 3, 2))],
                           "pts": self._irregular_grid(rng)["pts"]}

    def _relocate_case(self, rng):
        rmin = rng.choice([Fraction(5, 2), Fraction(1), Fraction(1, 4), Fraction(5, 4), Fraction(1, 2 ** 20),
                           Fraction(10), Fraction(0), Fraction(2)])
        centre = (gen.dyadic(rng, -2, 2, 2), gen.dyadic(rng, -2, 2, 2))
        gt = rng.choice(["ndarray", "irregular", "irregular", "uniform"])
        if gt == "uniform":
            h, w = rng.randint(2, 6), rng.randint(2, 6)
            m, mk = gen.random_mask(rng, h, w)
            grid = self._uniform_grid(rng, m)
            cs = _centres_2d(grid["mask"], [Fraction(v) for v in grid["scales"]],
                             [Fraction(v) for v in grid["origin"]])
            # put the profile centre on a pixel centre (r = 0 occurs) or between pixels
            c0 = rng.choice(cs)
            centre = c0 if rng.random() < 0.6 else (c0[0] + Fraction(1, 8), c0[1] - Fraction(1, 4))
            rmin = rng.choice([Fraction(v) for v in grid["scales"]]) * rng.choice([Fraction(1, 2), 1, 2, Fraction(5, 2)])
            return {"tag": "relocate_uniform", "case": "relocate", "grid": grid, "rmin": q(rmin),
                    "centre": [q(centre[0]), q(centre[1])]}
        pts = []
        n = rng.randint(1, 9)
        for _ in range(n):
            r = rng.random()
            if r < 0.2:
                p = centre  # the centre itself
            elif r < 0.45:  # on a Pythagorean ray at radius rmin·t, t hugging 1
                a, b, c = rng.choice([(3, 4, 5), (5, 12, 13), (8, 15, 17), (0, 1, 1), (1, 0, 1)])
                t = rng.choice([1, 1 - TWO20, 1 + TWO20, Fraction(1, 2), Fraction(3, 4), 2, Fraction(1, 1024)])
                sa, sb = rng.choice([1, -1]), rng.choice([1, -1])
                if rng.random() < 0.5:
                    a, b = b, a
                p = (centre[0] + sa * rmin * t * Fraction(a, c), centre[1] + sb * rmin * t * Fraction(b, c))
                p = (Fraction(float(p[0])), Fraction(float(p[1])))
            elif r < 0.6:  # only one coordinate zero in the profile frame
                d = gen.dyadic(rng, -4, 4, 3) * rmin
                p = (centre[0], centre[1] + d) if rng.random() < 0.5 else (centre[0] + d, centre[1])
                p = (Fraction(float(p[0])), Fraction(float(p[1])))
            else:
                p = (centre[0] + gen.dyadic(rng, -4, 4, 3) * rmin, centre[1] + gen.dyadic(rng, -4, 4, 3) * rmin)
                p = (Fraction(float(p[0])), Fraction(float(p[1])))
            pts.append([q(p[0]), q(p[1])])
        grid = {"type": gt, "pts": pts}
        if rng.random() < 0.25:
            # integer-dtype coordinates (int64 ndarray / int lists), integer centre
            centre = (Fraction(rng.randint(-2, 2)), Fraction(rng.randint(-2, 2)))
            ipts = [[q(int(centre[0]) + rng.randint(-4, 4)), q(int(centre[1]) + rng.randint(-4, 4))] for _ in pts]
            if ipts and rng.random() < 0.5:
                ipts[0] = [q(centre[0]), q(centre[1])]
            grid = {"type": gt, "pts": ipts, "dtype": "int64" if gt == "ndarray" else rng.choice(["int64", "int_list"])}
        elif rng.random() < 0.2:
            grid["dtype"] = rng.choice(["float32", "tuple", "ndarray"]) if gt != "ndarray" else "float32"
            if grid["dtype"] == "float32":
                grid["pts"] = [[q(Fraction(float(np.float32(float(Fraction(a)))))),
                                q(Fraction(float(np.float32(float(Fraction(b))))))] for a, b in pts]
        return {"tag": f"relocate_{gt}", "case": "relocate",
                "grid": grid, "rmin": q(rmin), "centre": [q(centre[0]), q(centre[1])]}

    # ------------------------------------------------------------------ implementation
    def _make_grid(self, aa, g):
        if g["type"] == "uniform":
            h, w = g["mask"]["h"], g["mask"]["w"]
            m = np.array([c == "1" for c in g["mask"]["bits"]], dtype=bool).reshape(h, w)
            scales = tuple(float(Fraction(v)) for v in g["scales"])
            origin = tuple(float(Fraction(v)) for v in g["origin"])
            mask = aa.Mask2D(mask=m, pixel_scales=scales, origin=origin)
            ctor = g.get("ctor", "from_mask")
            if ctor == "uniform":
                grid = aa.Grid2D.uniform(shape_native=(h, w), pixel_scales=scales, origin=origin)
            elif ctor == "no_mask":
                vals = _conv(g["coords"], g.get("dtype", "float"))
                if isinstance(vals, np.ndarray):
                    vals = vals.reshape(h, w, 2)
                elif isinstance(vals, list):
                    vals = [vals[y * w:(y + 1) * w] for y in range(h)]
                grid = aa.Grid2D.no_mask(values=vals, pixel_scales=scales, origin=origin)
            elif ctor == "manual":
                base = aa.Grid2D.from_mask(mask=mask)
                src = base.native if g.get("manual_native_input") else base
                grid = aa.Grid2D(values=np.array(src.array), mask=mask, store_native=bool(g.get("store_native")))
            else:
                grid = aa.Grid2D.from_mask(mask=mask)
            if g.get("store_native") and ctor != "manual":
                grid = grid.native
            return grid
        if g["type"] == "irregular":
            dt = g.get("dtype", "float")
            if dt == "wrapped":
                return aa.Grid2DIrregular(values=aa.Grid2DIrregular(values=_conv(g["pts"], "float")))
            return aa.Grid2DIrregular(values=_conv(g["pts"], dt))
        if g["type"] == "ndarray":
            dt = g.get("dtype", "ndarray")
            return np.array(_conv(g["pts"], dt if dt in ("int64", "float32") else "ndarray"))
        mask = np.array([c == "1" for c in g["bits"]], dtype=bool)
        scale = float(Fraction(g["scale"]))
        origin = (float(Fraction(g["origin"])),)
        m1 = aa.Mask1D(mask=mask, pixel_scales=scale, origin=origin)
        ctor = g.get("ctor", "from_mask")
        if ctor == "uniform":
            grid = aa.Grid1D.uniform(shape_native=(len(mask),), pixel_scales=scale, origin=origin)
        elif ctor == "uniform_from_zero":
            grid = aa.Grid1D.uniform_from_zero(shape_native=(len(mask),), pixel_scales=scale)
        elif ctor == "no_mask":
            grid = aa.Grid1D.no_mask(values=_conv(g["xs"], g.get("dtype", "float")), pixel_scales=scale, origin=origin)
        elif ctor == "manual":
            base = aa.Grid1D.from_mask(mask=m1)
            src = base.native if g.get("manual_native_input") else base
            return aa.Grid1D(values=np.array(src.array), mask=m1, store_native=bool(g.get("store_native")))
        else:
            grid = aa.Grid1D.from_mask(mask=m1)
        if g.get("store_native"):
            grid = grid.native
        return grid

    @staticmethod
    def _in_pts(grid):
        """the coordinates of the grid object handed to the decorated call (an INPUT of the decorator):
        exact values of the doubles it holds.  For a Grid1D: its slim x values."""
        a = _slim_np(grid)
        if a.ndim == 1:
            return qlist(a)
        return [qlist(p) for p in a.reshape(-1, 2)]

    @staticmethod
    def _in_mask(grid):
        """pixel scales and origin of the input grid's own mask (what the container must carry over)"""
        mk = getattr(grid, "mask", None)
        if mk is None or not hasattr(mk, "pixel_scales"):
            return None
        return {"scales": qlist(mk.pixel_scales), "origin": qlist(mk.origin)}

    def _grid_pts(self, g, obs=None):
        """the coordinates of the case's grid as Fractions: those of the actual grid object when the
        observation carries them (pixel centres computed by the code need not be the exact rationals of
        the formula — that is property C02's subject), else the harness-side formula"""
        if isinstance(obs, dict) and "_in_pts" in obs:
            ip = obs["_in_pts"]
            if g["type"] == "oned":
                return [Fraction(x) for x in ip]
            return [(Fraction(a), Fraction(b)) for a, b in ip]
        if g["type"] == "uniform":
            return _centres_2d(g["mask"], [Fraction(v) for v in g["scales"]], [Fraction(v) for v in g["origin"]])
        if g["type"] in ("irregular", "ndarray"):
            return [(Fraction(a), Fraction(b)) for a, b in g["pts"]]
        return _centres_1d(g["bits"], Fraction(g["scale"]), Fraction(g["origin"]))

    def run_impl(self, case):
        aa = load_autoarray()
        mocks = _mocks(aa)
        kind = case["case"]
        if kind == "dispatch":
            pair = case["kind"] != "array"
            funcs = case["funcs"]
            obj = mocks["dispatch"](funcs=funcs, is_list=case["list"], pair=pair, centre=(0.0, 0.0))
            if case.get("drop_last"):
                base_eval = obj._evaluate
                obj._evaluate = lambda grid: base_eval(grid)[:-1]
            grid = self._make_grid(aa, case["grid"])
            meth = {"array": obj.array_from, "grid": obj.grid_from, "vector": obj.vector_from}[case["kind"]]
            try:
                res = meth(grid)
            except NotImplementedError:
                return {"err": "constructor_raised"}
            except (aa.exc.ArrayException, aa.exc.GridException, aa.exc.VectorYXException, ValueError,
                    IndexError) as e:
                if case.get("drop_last"):
                    return {"err": "constructor_raised"}
                raise
            if len(obj.seen) != 1:
                return {"err": f"function called {len(obj.seen)} times"}
            tname, seen = obj.seen[0]
            out = [_container_obs(c) for c in res] if isinstance(res, list) else _container_obs(res)
            return {"seen": [qlist(p) for p in seen.reshape(-1, 2)], "out": out, "_seen_type": tname,
                    "_in_pts": self._in_pts(grid), "_in_mask": self._in_mask(grid),
                    "_same_mask": bool(getattr(res, "mask", None) is getattr(grid, "mask", 0))}
        if kind == "project":
            attrs = case["attrs"]
            centre = tuple(float(Fraction(v)) for v in case["centre"])
            angle = float(Fraction(case["angle"]))
            pair = "cx" in case["func"]
            if attrs == "missing":
                obj = mocks["noattrs"](funcs=[case["func"]], pair=pair)
            elif attrs == "none":
                obj = mocks["dispatch"](funcs=[case["func"]], pair=pair)
                obj.centre = None
                obj.angle = None
            elif attrs == "centre_only":
                obj = mocks["dispatch"](funcs=[case["func"]], pair=pair, centre=centre)
                obj.angle = None
            else:
                obj = mocks["dispatch"](funcs=[case["func"]], pair=pair, centre=centre, angle=angle)
            grid = self._make_grid(aa, case["grid"])
            res = obj.projected_from(grid)
            tname, seen = obj.seen[0]
            v = _np(res)
            return {"seen": [qlist(p) for p in seen.reshape(-1, 2)],
                    "values": [qlist(p) for p in v.reshape(-1, 2)] if pair else qlist(v.ravel()),
                    "_cls": type(res).__name__, "_seen_type": tname, "_in_pts": self._in_pts(grid),
                    "_scales": qlist(res.pixel_scales) if hasattr(res, "pixel_scales") else None}
        if kind == "relocate":
            from autoconf import conf

            obj = mocks["radial"](centre=tuple(float(Fraction(v)) for v in case["centre"]))
            grid = self._make_grid(aa, case["grid"])
            tbl = conf.instance["grids"]["radial_minimum"]["radial_minimum"]
            old = tbl["MockGridRadialMinimum"]
            tbl["MockGridRadialMinimum"] = float(Fraction(case["rmin"]))
            try:
                res = obj.relocated_from(grid)
            finally:
                tbl["MockGridRadialMinimum"] = old
            tname, seen = obj.seen[0]
            return {"seen": [qlist(p) for p in seen.reshape(-1, 2)], "_seen_type": tname,
                    "_in_pts": self._in_pts(grid),
                    "_n_transforms": obj.n_transforms, "_in_type": type(grid).__name__}
        if kind == "transform":
            obj = mocks["radial"](centre=tuple(float(Fraction(v)) for v in case["centre"]))
            grid = self._make_grid(aa, {"type": "irregular", "pts": case["pts"]})
            meth = {1: obj.level3, 2: obj.level2, 3: obj.level1}[case["depth"]]
            if case["flag"]:
                meth(grid, is_transformed=True)
            elif case.get("explicit_false"):
                meth(grid, is_transformed=False)
            else:
                meth(grid)
            tname, seen = obj.seen[0]
            return {"flag": bool(obj.flag), "seen": [qlist(p) for p in seen.reshape(-1, 2)],
                    "_n_transforms": getattr(obj, "n_transforms", 0)}
        raise ValueError(kind)

    # ------------------------------------------------------------------ model
    def _grid_req(self, g, with_pts=True, obs=None):
        pts = self._grid_pts(g, obs)
        if g["type"] == "uniform":
            return {"type": "uniform", "mask": g["mask"], "pts": [[q(a), q(b)] for a, b in pts] if with_pts else []}
        if g["type"] in ("irregular", "ndarray"):
            return {"type": "irregular", "pts": [[q(a), q(b)] for a, b in pts]}
        return {"type": "oned", "bits": g["bits"], "xs": qlist(pts)}

    def model_requests(self, case, impl_obs):
        kind = case["case"]
        if kind == "dispatch":
            funcs = case["funcs"]
            if case.get("drop_last"):
                # the function returns one entry too few: modelled by evaluating on all coordinates but the last
                raise Skip("bad-length function: compared through the oracle only")
            return [{"op": "c17.decorate", "kind": case["kind"], "grid": self._grid_req(case["grid"], obs=impl_obs),
                     "funcs": funcs, "list": case["list"],
                     "num": "float" if case["grid"]["type"] == "oned" else "rat"}]
        if kind == "project":
            g = case["grid"]
            req = {"op": "c17.project", "grid": self._grid_req(g, with_pts=False, obs=impl_obs), "func": case["func"]}
            attrs = case["attrs"]
            req["centre"] = case["centre"] if attrs in ("both", "centre_only") else ["0", "0"]
            # angle attribute absent / None -> 0.0, and then no +90 is applied
            req["angle"] = case["angle"] if attrs == "both" else "-90"
            if g["type"] == "uniform":
                h, w = g["mask"]["h"], g["mask"]["w"]
                sy, sx = (Fraction(v) for v in g["scales"])
                oy, ox = (Fraction(v) for v in g["origin"])
                req["extent"] = qlist([ox - w * sx / 2, ox + w * sx / 2, oy - h * sy / 2, oy + h * sy / 2])
                req["scales"] = g["scales"]
            return [req]
        if kind == "relocate":
            pts = self._grid_pts(case["grid"], impl_obs)
            return [{"op": "c17.relocate", "pts": [[q(a), q(b)] for a, b in pts], "centre": case["centre"],
                     "rmin": case["rmin"]}]
        if kind == "transform":
            return [{"op": "c17.transform", "pts": case["pts"], "centre": case["centre"],
                     "depth": case["depth"], "flag": case["flag"]}]
        raise ValueError(kind)

    def compare(self, case, impl_obs, model_obs, cmp):
        return cmp.diff(_strip(impl_obs), model_obs)

    # ------------------------------------------------------------------ oracle
    @staticmethod
    def _close(a, b, tol=1e-9):
        a, b = float(Fraction(a)), float(Fraction(b))
        return abs(a - b) <= tol * max(1.0, abs(a), abs(b))

    def _pts_close(self, got, exp, tol=1e-9):
        if len(got) != len(exp):
            return False
        return all(self._close(g[0], e[0], tol) and self._close(g[1], e[1], tol) for g, e in zip(got, exp))

    def _check_container(self, c, case, fn, pts, exact, in_mask=None):
        g = case["grid"]
        if in_mask is None:
            in_mask = ({"scales": g["scales"], "origin": g["origin"]} if g["type"] == "uniform"
                       else {"scales": [g.get("scale", "1")], "origin": [g.get("origin", "0")]})
        kind = case["kind"]
        pair = kind != "array"
        # expectation: exact rational evaluation on the exact values of the input doubles; the code
        # evaluates in double precision, hence the 1e-9 comparison (a permutation / dropped mask moves
        # values by O(1))
        exp = _eval_func(fn, [(Fraction(a), Fraction(b)) for a, b in pts], Fraction, pair)

        def same(got, want):
            if len(got) != len(want):
                return False
            if pair:
                return all((Fraction(a[0]) == Fraction(b[0]) and Fraction(a[1]) == Fraction(b[1])) if exact
                           else (self._close(a[0], b[0]) and self._close(a[1], b[1])) for a, b in zip(got, want))
            return all(Fraction(a) == Fraction(b) if exact else self._close(a, b) for a, b in zip(got, want))

        zero = [Fraction(0), Fraction(0)] if pair else Fraction(0)
        if g["type"] == "uniform":
            want_cls = {"array": "Array2D", "grid": "Grid2D", "vector": "VectorYX2D"}[kind]
            if c.get("_cls") != want_cls:
                return f"container is {c.get('_cls')}, expected {want_cls}"
            if c["mask"] != g["mask"]:
                return "container is not on the input grid's mask"
            if [Fraction(v) for v in c["_scales"]] != [Fraction(v) for v in in_mask["scales"]] or \
                    [Fraction(v) for v in c["_origin"]] != [Fraction(v) for v in in_mask["origin"]]:
                return "container's mask lost the pixel scales / origin of the input grid"
            if not same(c["slim"], exp):
                return "slim entries are not f(grid) in slim order (entry k <-> coordinate k)"
            bits = g["mask"]["bits"]
            it = iter(exp)
            nat = [zero if b == "1" else next(it) for b in bits]
            if not same(c["native"], nat):
                return "native entries are not the values at their pixels with zeros at masked pixels"
            if kind == "vector" and not self._pts_close(c["_grid"], pts, 0.0):
                return "vector field's grid is not the input grid"
            return None
        if g["type"] == "irregular":
            want_cls = {"array": "ArrayIrregular", "grid": "Grid2DIrregular", "vector": "VectorYX2DIrregular"}[kind]
            if c.get("_cls") != want_cls:
                return f"container is {c.get('_cls')}, expected {want_cls}"
            if not same(c["values"], exp):
                return "entries are not f(grid), one per coordinate in input order"
            if kind == "vector" and not self._pts_close(c["_grid"], pts, 0.0):
                return "irregular vector field's grid is not the input grid"
            return None
        # 1-D input
        if kind == "array":
            if c.get("_cls") != "Array1D":
                return f"container is {c.get('_cls')}, expected Array1D"
            if c["bits"] != g["bits"]:
                return "Array1D is not on the input grid's 1-D mask"
            if [Fraction(v) for v in c["_scales"]] != [Fraction(v) for v in in_mask["scales"]] or \
                    [Fraction(v) for v in c["_origin"]] != [Fraction(v) for v in in_mask["origin"]]:
                return "Array1D's mask lost the pixel scale / origin"
            if not same(c["slim"], exp):
                return "1-D entries are not f evaluated along the projected line, entry k <-> coordinate k"
            it = iter(exp)
            nat = [zero if b == "1" else next(it) for b in g["bits"]]
            if not same(c["native"], nat):
                return "1-D native entries wrong"
            return None
        if kind == "grid":
            if c.get("_cls") != "Grid2D":
                return f"container is {c.get('_cls')}, expected Grid2D"
            if c["mask"] != {"h": 1, "w": len(g["bits"]), "bits": g["bits"]}:
                return "Grid2D of a 1-D input is not on the 1xN mask of the input"
            if not same(c["slim"], exp):
                return "entries are not f evaluated along the projected line"
            return None
        return "to_vector_yx on a Grid1D is documented as unsupported"

    def oracle(self, case, obs):
        kind = case["case"]
        if kind == "dispatch":
            g = case["grid"]
            if case.get("drop_last"):
                ok = isinstance(obs, dict) and obs.get("err") == "constructor_raised"
                return ok, "" if ok else "a function returning too few entries was not refused"
            if g["type"] == "oned" and case["kind"] == "vector":
                ok = isinstance(obs, dict) and obs.get("err") == "constructor_raised"
                return ok, "" if ok else "to_vector_yx on Grid1D should be unsupported"
            if isinstance(obs, dict) and "err" in obs:
                return False, f"implementation raised {obs}"
            pts = self._grid_pts(g, obs)
            exact = False
            if g["type"] == "oned":
                line = [(Fraction(0), x) for x in pts]
                if obs["_seen_type"] != "Grid2DIrregular" or not self._pts_close(obs["seen"], line):
                    return False, "a Grid1D was not handed to the function as the projected line (0, x_k)"
                pts = line
            else:
                want_t = "Grid2D" if g["type"] == "uniform" else "Grid2DIrregular"
                if obs["_seen_type"] != want_t:
                    return False, f"function received a {obs['_seen_type']}, expected {want_t}"
                if not self._pts_close(obs["seen"], pts, 0.0):
                    return False, "function did not receive the input grid's coordinates unchanged"
            out = obs["out"]
            if case["list"]:
                if not isinstance(out, list) or len(out) != len(case["funcs"]):
                    return False, "list result not wrapped element by element"
                for c, fn in zip(out, case["funcs"]):
                    d = self._check_container(c, case, fn, pts, exact, obs.get("_in_mask"))
                    if d:
                        return False, "list element: " + d
                return True, ""
            if isinstance(out, list):
                return False, "single result wrapped as a list"
            d = self._check_container(out, case, case["funcs"][0], pts, exact, obs.get("_in_mask"))
            return (d is None), (d or "")
        if isinstance(obs, dict) and "err" in obs:
            return False, f"implementation raised {obs}"
        if kind == "project":
            g = case["grid"]
            attrs = case["attrs"]
            cy, cx = (float(Fraction(v)) for v in case["centre"]) if attrs in ("both", "centre_only") else (0.0, 0.0)
            ang = float(Fraction(case["angle"])) + 90.0 if attrs == "both" else 0.0
            a = math.radians(ang)
            pair = "cx" in case["func"]
            if g["type"] == "irregular":
                exp = [(float(p[0]), float(p[1])) for p in self._grid_pts(g, obs)]
                want_cls = "Grid2DIrregular" if pair else "ArrayIrregular"
            elif g["type"] == "oned":
                xs = [float(x) for x in self._grid_pts(g, obs)]
                exp = [(-x * math.sin(a), x * math.cos(a)) for x in xs]
                want_cls = "Array1D"
            else:
                h, w = g["mask"]["h"], g["mask"]["w"]
                sy, sx = (Fraction(v) for v in g["scales"])
                oy, ox = (Fraction(v) for v in g["origin"])
                fcy, fcx = (Fraction(cy), Fraction(cx))
                d = [ox + w * sx / 2 - fcx, oy + h * sy / 2 - fcy, fcx - (ox - w * sx / 2), fcy - (oy - h * sy / 2)]
                dist = max(d)
                ps = sy if dist in (d[1], d[3]) else sx
                quo = dist / ps
                n = int(quo) + 1 if quo >= 0 else None
                if n is None:
                    raise Skip("centre outside the extent on every side")
                exp = [(cy - k * float(ps) * math.sin(a), cx + k * float(ps) * math.cos(a)) for k in range(n)]
                want_cls = "Array1D"
            if obs["_cls"] != want_cls:
                return False, f"project_grid returned {obs['_cls']}, expected {want_cls}"
            if not self._pts_close(obs["seen"], exp, 1e-9):
                return False, "function did not receive the radially projected line (centre + k*s rotated by angle)"
            vals = _eval_func(case["func"], exp, float, pair)
            got = obs["values"]
            ok = len(got) == len(vals) and all(
                (self._close(a[0], b[0], 1e-8) and self._close(a[1], b[1], 1e-8)) if pair else self._close(a, b, 1e-8)
                for a, b in zip(got, vals))
            return ok, "" if ok else "entry k of the result is not f at projected point k"
        if kind == "relocate":
            cy, cx = (float(Fraction(v)) for v in case["centre"])
            rmin = float(Fraction(case["rmin"]))
            pts = [(float(a) - cy, float(b) - cx) for a, b in self._grid_pts(case["grid"], obs)]
            seen = [(float(Fraction(a)), float(Fraction(b))) for a, b in obs["seen"]]
            if len(seen) != len(pts):
                return False, "number of coordinates changed"
            if obs["_n_transforms"] != 1:
                return False, f"grid transformed {obs['_n_transforms']} times"
            want_t = {"Grid2D": "Grid2D", "Grid2DIrregular": "Grid2DIrregular", "ndarray": "ndarray"}[obs["_in_type"]]
            if obs["_seen_type"] != want_t:
                return False, f"relocated grid is a {obs['_seen_type']}, input was {want_t}"
            for k, (p, s) in enumerate(zip(pts, seen)):
                r = math.sqrt(p[0] * p[0] + p[1] * p[1])
                rs = math.sqrt(s[0] * s[0] + s[1] * s[1])
                on_ray = (abs(p[0] * s[1] - p[1] * s[0]) <= 1e-9 * max(1e-300, r * rs)
                          and p[0] * s[0] + p[1] * s[1] >= 0)
                moved_ok = abs(rs - rmin) <= 1e-9 * rmin and (r == 0 or on_ray)
                if abs(r - rmin) <= 1e-9 * rmin:
                    if not (s == p or moved_ok):
                        return False, f"coordinate {k} at the minimum radius was displaced"
                elif r < rmin:
                    if not moved_ok:
                        return False, (f"coordinate {k} at radius {r!r} < minimum {rmin!r} was moved to radius "
                                       f"{rs!r}" + ("" if r == 0 or on_ray else " off its ray"))
                elif s != p:
                    return False, f"coordinate {k} at radius {r!r} >= minimum {rmin!r} did not reach the function unchanged"
            return True, ""
        if kind == "transform":
            cy, cx = (Fraction(v) for v in case["centre"])
            pts = [(Fraction(a), Fraction(b)) for a, b in case["pts"]]
            exp = pts if case["flag"] else [(a - cy, b - cx) for a, b in pts]
            if not self._pts_close(obs["seen"], exp, 0.0):
                return False, "innermost function did not receive the grid transformed exactly once"
            if obs["_n_transforms"] != (0 if case["flag"] else 1):
                return False, f"grid transformed {obs['_n_transforms']} times"
            return (obs["flag"] is True), "is_transformed flag not set for the inner call"
        return True, ""

    # ------------------------------------------------------------------ bookkeeping
    def nontrivial(self, case, obs):
        kind = case["case"]
        if kind == "dispatch":
            g = case["grid"]
            if g["type"] == "uniform":
                b = g["mask"]["bits"]
                return "1" in b and b.count("0") >= 2
            if g["type"] == "irregular":
                return len(g["pts"]) >= 2
            return g["bits"].count("0") >= 2
        if kind == "relocate":
            cy, cx = (Fraction(v) for v in case["centre"])
            rmin = Fraction(case["rmin"])
            r2 = [(a - cy) ** 2 + (b - cx) ** 2 for a, b in self._grid_pts(case["grid"])]
            return any(v < rmin * rmin for v in r2) and any(v > rmin * rmin for v in r2)
        return True

    def known_finding(self, case, obs):
        return None

    def shrink(self, case):
        kind = case["case"]
        if kind == "relocate" and case["grid"]["type"] in ("irregular", "ndarray"):
            pts = case["grid"]["pts"]
            for i in range(len(pts)):
                if len(pts) > 1:
                    yield {**case, "grid": {**case["grid"], "pts": pts[:i] + pts[i + 1:]}}
        if kind == "dispatch":
            if case["list"] and len(case["funcs"]) > 1:
                yield {**case, "funcs": case["funcs"][:1]}
            for i, fn in enumerate(case["funcs"]):
                if fn["mode"] != "poly":
                    fs = list(case["funcs"])
                    fs[i] = {**fn, "mode": "poly"}
                    yield {**case, "funcs": fs}
            g = case["grid"]
            if g["type"] == "irregular" and len(g["pts"]) > 1:
                for i in range(len(g["pts"])):
                    yield {**case, "grid": {**g, "pts": g["pts"][:i] + g["pts"][i + 1:]}}
            if g["type"] == "uniform":
                bits = g["mask"]["bits"]
                for i, c in enumerate(bits):
                    if c == "0" and bits.count("0") > 1:
                        yield {**case, "grid": {**g, "mask": {**g["mask"], "bits": bits[:i] + "1" + bits[i + 1:]}}}

    def theorems_for(self, case):
        return {
            "dispatch": ["C17.dispatch_uniform", "C17.dispatch_irregular", "C17.dispatch_oned",
                         "C17.list_wrapped_elementwise", "C17.pointwise_entry_k"],
            "project": ["C17.projected_line_1d", "C17.projected_line_1d_plain", "C17.projected_line_2d"],
            "relocate": ["C17.relocate_inside", "C17.relocate_outside_unchanged", "C17.relocate_centre",
                         "C17.relocate_entry_k"],
            "transform": ["C17.transform_once"],
        }[case["case"]]

    def sample_view(self, case):
        return {k: v for k, v in case.items() if not k.startswith("_")}


CHECK = C17()
