"""C17 — grid decorators return containers mirroring the input grid, entry k for point k.

The decorators `aa.grid_dec.to_array / to_grid / to_vector_yx / project_grid / transform /
relocate_to_radial_minimum` are applied to methods of mock profile classes defined here (the pattern of
autoarray/structures/mock/mock_decorators.py).  The method bodies record the grid they receive and
evaluate a harness-chosen function of the coordinates (non-symmetric polynomials, optionally made
position-dependent: entry k scaled by k+1, or prefix sums), so a permutation, a dropped mask or a grid
that is not the documented one changes the observation.

Round 4 added three streams (design_notes/C17.md, "Round 4 hardening"):
  * decades   — every family with the whole world (coordinates, scales, origins, centres, radial minimum)
                multiplied by 2^k, k = -40..27, compared relative to 2^k: hidden absolute tolerances;
  * histories — typed step lists on REAL reused grid / mask / profile objects (in-place edits, derived
                objects, near-duplicate twins, faults, shared objects, decoy reads, mask edits), every call
                judged as the same call on freshly built objects (`case: "history"`);
  * large     — `generate_large`: sizes on both sides of every new integer constant of the anchored source
                in every size dimension, judged by a vectorised oracle alone (`big: true`).

Round 5/6 (design_notes/C17.md, "Round 5/6 hardening"; DESIGN §14 classes):
  * R5-A  `_decades_ext` / `_near_ties` / `_relocate_directions`: world magnitudes 2^-45..2^45, ONE ingredient at
          another magnitude (tiny radial minimum, world far from the origin), near-ties 2^-18..2^-40, radii 2^-1..2^-60
          in every direction;
  * R5-B  `_history_own`: observe -> overwrite every returned / accepted array in place -> rebuild -> observe (x3),
          user functions editing their argument in place (`fscrib`);
  * R5-C  `_layouts`: layouts / containers / dtypes of every array-taking entry point (`lay` of a grid spec, `ret`
          = the form of the user function's result, `pre` = is_transformed=True);
  * R5-D  `_history_conf`: `remove_projected_centre` and the per-class radial minimum changed between calls, by
          item assignment or `conf.instance.push` (`rpc`, `rmin_via`, `projline` control; model op `c17.projline`);
  * R5-E  `*_xdec` / `_relocate_extreme` (2^+-64..2^+-990), `_always_large` (beyond 2^16 in every run);
  * R5-F  `_options_pairwise`: constructor options (checked with inspect.signature) x call options pairwise, extra
          (falsy) keyword arguments of the user function (`xa`).
"""
from __future__ import annotations

import math
from fractions import Fraction

import numpy as np

import gen
from common import PropertyCheck, Skip, load_autoarray, mask_json, q, qlist

TWO20 = Fraction(1, 2 ** 20)

_MOCKS = None


def _np(grid):
    return np.array(grid.array if hasattr(grid, "array") else grid, dtype="float64")


def _slim_np(grid):
    """coordinates of a grid-like in slim order, float64: (N,2) for 2-D grids, (N,) for a Grid1D.  A
    profile function given a native-stored structure evaluates on its slim view."""
    if isinstance(grid, np.ndarray) or not hasattr(grid, "slim"):
        return np.array(grid, dtype="float64")
    sl = grid.slim
    return np.array(sl.array if hasattr(sl, "array") else sl, dtype="float64")


def _conv(vals, dtype):
    """container / dtype variants of one and the same list of real numbers"""
    f = [[float(Fraction(v)) for v in p] if isinstance(p, (list, tuple)) else float(Fraction(p)) for p in vals]
    if dtype == "int64":
        return np.array(f).astype("int64")
    if dtype == "int_list":
        return [[int(v) for v in p] if isinstance(p, list) else int(p) for p in f]
    if dtype == "float32":
        return np.array(f, dtype="float32")
    if dtype == "tuple":
        # the documented form `[(y0,x0), (y1,x1)]`: a LIST of tuples (an outer tuple is not an accepted input:
        # the constructors' signature is Union[np.ndarray, List])
        return [tuple(p) if isinstance(p, list) else p for p in f]
    if dtype == "ndarray":
        return np.array(f, dtype="float64")
    return f


def _layout(a, how, junk=None):
    """round 5/6 (R5-C): the SAME values in another memory layout / container.  `how`: None | "C" | "F"
    (Fortran order) | "T" (a transposed view: the last axis is the slowest in memory) | "strided" (a
    non-contiguous view into a larger buffer filled with junk, every axis strided) | "rev" (negative strides) |
    "readonly" | "list" (nested python lists) | "int" (integer dtype, for masks)"""
    a = np.asarray(a)
    if how in (None, "C", "nd"):
        return np.ascontiguousarray(a)
    if how == "F":
        return np.asfortranarray(a)
    if how == "T":
        if a.ndim < 2:
            return _layout(a, "strided", junk)
        return np.moveaxis(np.ascontiguousarray(np.moveaxis(a, -1, 0)), 0, -1)
    if how == "strided":
        if a.ndim == 0:
            return a
        fill = junk if junk is not None else (True if a.dtype == bool else 9.75)
        big = np.full(tuple(2 * n + 1 for n in a.shape), fill, dtype=a.dtype)
        sl = tuple(slice(1, None, 2) for _ in a.shape)
        big[sl] = a
        return big[sl]
    if how == "rev":
        if a.ndim == 0:
            return a
        return np.ascontiguousarray(a[::-1])[::-1]
    if how == "readonly":
        c = np.array(a)
        c.setflags(write=False)
        return c
    if how == "list":
        return a.tolist()
    if how == "int":
        return a.astype("int64")
    if how == "int_list":
        return a.astype("int64").tolist()
    raise ValueError(how)


def _eff_func(fn, mult, add):
    """round 5/6 (R5-F): the user function with its extra arguments folded in: mult * phi + add (before the
    mode is applied).  Exact on dyadic coefficients."""
    mult, add = Fraction(mult), Fraction(add)
    if mult == 1 and add == 0:
        return fn
    out = dict(fn)
    for key in ("cy", "cx"):
        if key in fn:
            c = [Fraction(v) for v in fn[key]] + [Fraction(0)] * (6 - len(fn[key]))
            out[key] = qlist([mult * c[0] + add] + [mult * v for v in c[1:]])
    return out


SCRIBBLE = -7777.25


def _scribble_array(a):
    """overwrite an ndarray in place (ownership histories); read-only buffers are left alone"""
    if not isinstance(a, np.ndarray) or a.size == 0:
        return 0
    try:
        if a.dtype == bool:
            a[...] = ~a
        else:
            a[...] = SCRIBBLE
        return 1
    except (ValueError, TypeError):
        return 0


def _scribble(x, depth=0):
    """overwrite, in place, every array reachable from a value the API returned or accepted: an ndarray, a
    structure (its stored array, its mask, a vector field's grid), a list of them"""
    if x is None or depth > 3:
        return 0
    if isinstance(x, np.ndarray):
        return _scribble_array(x)
    if isinstance(x, (list, tuple)):
        return sum(_scribble(v, depth + 1) for v in x)
    n = 0
    for attr in ("grid", "mask"):
        sub = x.__dict__.get(attr) if hasattr(x, "__dict__") else None
        if sub is not None and sub is not x:
            n += _scribble(sub, depth + 1)
    arr = getattr(x, "_array", None)
    if isinstance(arr, np.ndarray):
        n += _scribble_array(arr)
    return n


def _phi(c, y, x):
    c = list(c) + [0.0] * (6 - len(c))
    return c[0] + c[1] * y + c[2] * x + c[3] * (y * y) + c[4] * (y * x) + c[5] * (x * x)


def _apply_mode(mode, vals):
    if mode == "index":
        return [v * (k + 1) for k, v in enumerate(vals)]
    if mode == "prefix":
        out, acc = [], 0
        for v in vals:
            acc = acc + v
            out.append(acc)
        return out
    return list(vals)


def _eval_func(fn, pts, conv=float, pair=False):
    """the user function on a list of (y,x): python numbers of type `conv` (float or Fraction)"""
    cy = [conv(Fraction(c)) for c in fn["cy"]]
    ys = _apply_mode(fn["mode"], [_phi(cy, p[0], p[1]) for p in pts])
    if not pair:
        return ys
    cx = [conv(Fraction(c)) for c in fn["cx"]]
    xs = _apply_mode(fn["mode"], [_phi(cx, p[0], p[1]) for p in pts])
    return [[a, b] for a, b in zip(ys, xs)]


def _eval_func_np(fn, pts, pair=False):
    """the same user function, vectorised (float64) on an (N,2) array of coordinates: used by the mock
    profiles of the LARGE cases (pure-Python evaluation of 10^5 points is too slow) and by their oracle"""
    pts = np.asarray(pts, dtype="float64").reshape(-1, 2)
    y, x = pts[:, 0], pts[:, 1]
    n = len(y)

    def one(c):
        c = [float(Fraction(v)) for v in c] + [0.0] * (6 - len(c))
        v = c[0] + c[1] * y + c[2] * x + c[3] * (y * y) + c[4] * (y * x) + c[5] * (x * x)
        if fn["mode"] == "index":
            v = v * np.arange(1, n + 1, dtype="float64")
        elif fn["mode"] == "prefix":
            v = np.cumsum(v)
        return v

    if not pair:
        return one(fn["cy"])
    return np.stack((one(fn["cy"]), one(fn["cx"])), axis=-1)


class UserFault(Exception):
    """raised by a mock profile function on request (history stream: fault, then reuse)"""


def _mocks(aa):
    """mock profile classes; built once autoarray is importable"""
    global _MOCKS
    if _MOCKS is not None:
        return _MOCKS
    dec = aa.grid_dec

    class Base:
        def __init__(self, funcs=None, is_list=False, pair=False, centre=None, angle=None):
            self.funcs = funcs or []
            self.is_list = is_list
            self.pair = pair
            self.seen = []
            self.fault = None  # "raise": the next evaluation raises UserFault (history stream)
            self.vec = False  # large cases: evaluate with numpy
            # round 5/6: the form the function returns its values in (R5-C), whether it edits its argument in
            # place after evaluating (R5-B), what extra arguments it received (R5-F)
            self.ret = None
            self.ret_mask = None
            self.fscrib = False
            self.got = None
            self.seen_objs = []
            if centre is not None:
                self.centre = centre
            if angle is not None:
                self.angle = angle

        def _ret_form(self, v, grid):
            """the values `v` ((N,) or (N,2) float64) in the form this profile's function returns them in"""
            r = self.ret
            if not r or r == "nd":
                return v
            if r in ("F", "T", "strided", "readonly", "rev"):
                return _layout(v, r)
            if r == "list_elem":
                return v.tolist()
            if r in ("float32", "int64"):
                w = v.astype(r)
                return w if np.array_equal(w.astype("float64"), v) else v
            pair = v.ndim == 2
            if isinstance(grid, aa.Grid2D):
                mask = grid.mask
                if r == "native_junk":
                    m = np.asarray(mask)
                    out = np.full(m.shape + ((2,) if pair else ()), 9.75)
                    out[~m] = v
                    return out
                cls = aa.Grid2D if pair else aa.Array2D
                return cls(values=v, mask=mask, store_native=(r == "struct_native"))
            if r == "native_junk":
                if self.ret_mask is None:
                    return v
                m = np.asarray(self.ret_mask, dtype=bool)
                if pair:
                    m = m.reshape(1, -1)
                out = np.full(m.shape + ((2,) if pair else ()), 9.75)
                out[~m] = v
                return out
            return (aa.Grid2DIrregular if pair else aa.ArrayIrregular)(values=v)

        def _evaluate(self, grid, *args, **kwargs):
            g = _slim_np(grid)
            self.seen.append((type(grid).__name__, g.copy()))
            self.seen_objs.append(grid)
            self.got = (tuple(args), dict(kwargs))
            if self.fault == "raise":
                self.fault = None
                raise UserFault("user function failed")
            funcs = self.funcs
            if args or "mult" in kwargs or "add" in kwargs:
                # extra arguments of the user function: value = mult * phi + add
                mult = args[0] if len(args) > 0 else kwargs.get("mult", 1.0)
                add = args[1] if len(args) > 1 else kwargs.get("add", 0.0)
                funcs = [_eff_func(fn, Fraction(mult), Fraction(add)) for fn in funcs]
            try:
                if self.vec:
                    if self.is_list:
                        return [_eval_func_np(fn, g, self.pair) for fn in funcs]
                    return _eval_func_np(funcs[0], g, self.pair)
                pts = [(float(a), float(b)) for a, b in g.reshape(-1, 2)]

                def one(fn):
                    v = _eval_func(fn, pts, float, self.pair)
                    return self._ret_form(np.array(v, dtype="float64").reshape((-1, 2) if self.pair else (-1,)), grid)

                if self.is_list:
                    return [one(fn) for fn in funcs]
                return one(funcs[0])
            finally:
                if self.fscrib:
                    # a user function that edits its argument in place (after it has computed its values)
                    _scribble_array(grid if isinstance(grid, np.ndarray) else getattr(grid, "_array", None))

    class MockDispatch(Base):
        @dec.to_array
        def array_from(self, grid, *args, **kwargs):
            return self._evaluate(grid, *args, **kwargs)

        @dec.to_grid
        def grid_from(self, grid, *args, **kwargs):
            return self._evaluate(grid, *args, **kwargs)

        @dec.to_vector_yx
        def vector_from(self, grid, *args, **kwargs):
            return self._evaluate(grid, *args, **kwargs)

        @dec.project_grid
        def projected_from(self, grid, *args, **kwargs):
            return self._evaluate(grid, *args, **kwargs)

    class MockNoAttrs(Base):
        """a profile without `centre` / `angle` attributes"""

        @dec.project_grid
        def projected_from(self, grid, *args, **kwargs):
            return self._evaluate(grid, *args, **kwargs)

    class MockGridRadialMinimum(Base):
        """the class name selects the `radial_minimum` entry of grids.yaml"""

        def radial_grid_from(self, grid, **kwargs):
            g = _np(grid)
            if getattr(self, "robust_radius", False):
                # a profile whose own radius function does not square (worlds beyond 2^+-500, round 5/6)
                return np.hypot(g[:, 0], g[:, 1])
            return np.sqrt(np.add(np.square(g[:, 0]), np.square(g[:, 1])))

        def transformed_to_reference_frame_grid_from(self, grid, **kwargs):
            self.n_transforms = getattr(self, "n_transforms", 0) + 1
            shifted = np.subtract(_np(grid), np.array(self.centre))
            if hasattr(grid, "with_new_array"):
                return grid.with_new_array(shifted)
            return shifted

        @dec.transform
        @dec.relocate_to_radial_minimum
        def relocated_from(self, grid, *args, **kwargs):
            g = _np(grid)
            self.seen.append((type(grid).__name__, g.copy()))
            self.seen_objs.append(grid)
            self.got = (tuple(args), dict(kwargs))
            if self.fault == "raise":
                self.fault = None
                raise UserFault("user function failed")
            if self.fscrib:
                _scribble_array(grid if isinstance(grid, np.ndarray) else getattr(grid, "_array", None))
            return g

        # nesting of `transform`: each level forwards its keyword arguments to the next
        @dec.transform
        def level3(self, grid, *args, **kwargs):
            self.seen.append((type(grid).__name__, _np(grid).copy()))
            self.seen_objs.append(grid)
            self.flag = kwargs.get("is_transformed")
            if self.fault == "raise":
                self.fault = None
                raise UserFault("user function failed")
            return grid

        @dec.transform
        def level2(self, grid, *args, **kwargs):
            return self.level3(grid, **kwargs)

        @dec.transform
        def level1(self, grid, *args, **kwargs):
            return self.level2(grid, **kwargs)

        # the dispatch decorators on the same profile object (history stream: sibling decorators on one
        # object, in any order)
        @dec.to_array
        def array_from(self, grid, *args, **kwargs):
            return self._evaluate(grid, *args, **kwargs)

        @dec.to_grid
        def grid_from(self, grid, *args, **kwargs):
            return self._evaluate(grid, *args, **kwargs)

        @dec.to_vector_yx
        def vector_from(self, grid, *args, **kwargs):
            return self._evaluate(grid, *args, **kwargs)

        @dec.project_grid
        def projected_from(self, grid, *args, **kwargs):
            return self._evaluate(grid, *args, **kwargs)

    class MockGridRadialOther(MockGridRadialMinimum):
        """round 5/6 (R5-D): a second profile class — the SAME decorated functions (inherited), another class
        name, hence another entry of the `radial_minimum` configuration table"""

    _MOCKS = {"dispatch": MockDispatch, "noattrs": MockNoAttrs, "radial": MockGridRadialMinimum,
              "radial_other": MockGridRadialOther}
    return _MOCKS


def _centres_2d(mj, scales, origin):
    """pixel centres of the unmasked pixels, slim order (independent statement of C02.a)"""
    h, w = mj["h"], mj["w"]
    sy, sx = scales
    oy, ox = origin
    out = []
    for i in range(h):
        for j in range(w):
            if mj["bits"][i * w + j] == "0":
                out.append((oy + (Fraction(h - 1, 2) - i) * sy, ox + (j - Fraction(w - 1, 2)) * sx))
    return out


def _centres_1d(bits, scale, origin):
    n = len(bits)
    return [origin + (k - Fraction(n - 1, 2)) * scale for k in range(n) if bits[k] == "0"]


def _funcs(rng, n, pair):
    out = []
    for _ in range(n):
        deg2 = rng.random() < 0.5
        def coeffs():
            c = [gen.dyadic(rng, -3, 3, 1) for _ in range(3)]
            c += [gen.dyadic(rng, -2, 2, 1) for _ in range(3)] if deg2 else [Fraction(0)] * 3
            if c[1] == c[2]:
                c[2] += 1  # never symmetric in (y, x)
            if c[1] == 0:
                c[1] = Fraction(1, 2)
            return qlist(c)
        fn = {"mode": rng.choice(["poly", "poly", "index", "prefix"]), "cy": coeffs()}
        if pair:
            fn["cx"] = coeffs()
        out.append(fn)
    return out


def _container_obs(c):
    """canonical observation of one returned container"""
    name = type(c).__name__
    if name in ("Array2D", "Grid2D", "VectorYX2D"):
        kind = {"Array2D": "array", "Grid2D": "grid", "VectorYX2D": "vector"}[name]
        m = np.asarray(c.mask)
        pair = kind != "array"
        sl = np.asarray(c.slim.array, dtype="float64")
        na = np.asarray(c.native.array, dtype="float64")
        o = {"type": "uniform", "kind": kind,
             "mask": {"h": int(m.shape[0]), "w": int(m.shape[1]),
                      "bits": "".join("1" if v else "0" for v in m.ravel())},
             "slim": [qlist(p) for p in sl.reshape(-1, 2)] if pair else qlist(sl.ravel()),
             "native": [qlist(p) for p in na.reshape(-1, 2)] if pair else qlist(na.ravel()),
             "_cls": name, "_scales": qlist(c.mask.pixel_scales), "_origin": qlist(c.mask.origin)}
        if name == "VectorYX2D":
            o["_grid"] = [qlist(p) for p in _slim_np(c.grid).reshape(-1, 2)]
        return o
    if name in ("ArrayIrregular", "Grid2DIrregular", "VectorYX2DIrregular"):
        kind = {"ArrayIrregular": "array", "Grid2DIrregular": "grid", "VectorYX2DIrregular": "vector"}[name]
        v = _np(c)
        o = {"type": "irregular", "kind": kind,
             "values": qlist(v.ravel()) if kind == "array" else [qlist(p) for p in v.reshape(-1, 2)],
             "_cls": name}
        if name == "VectorYX2DIrregular":
            o["_grid"] = [qlist(p) for p in _slim_np(c.grid).reshape(-1, 2)]
        return o
    if name == "Array1D":
        m = np.asarray(c.mask)
        return {"type": "oned", "bits": "".join("1" if v else "0" for v in m.ravel()),
                "slim": qlist(np.asarray(c.slim.array, dtype="float64").ravel()),
                "native": qlist(np.asarray(c.native.array, dtype="float64").ravel()),
                "_cls": name, "_scales": qlist(c.mask.pixel_scales), "_origin": qlist(c.mask.origin)}
    return {"type": name}


def _strip(o):
    if isinstance(o, dict):
        return {k: _strip(v) for k, v in o.items() if not k.startswith("_")}
    if isinstance(o, list):
        return [_strip(v) for v in o]
    return o


class C17(PropertyCheck):
    pid = "C17"
    title = "grid decorators"
    rtol = Fraction(1, 10 ** 9)
    atol = Fraction(1, 10 ** 9)
    nontrivial_rule = (
        "dispatch cases: the grid has >= 2 coordinates and (for uniform grids) the mask has masked and "
        "unmasked pixels; relocation cases: at least one coordinate strictly inside and one outside the "
        "radial minimum; histories: at least two observed decorated calls; distinct = distinct case"
    )
    exhaustive_note = {
        "quick": "dispatch: every mask of every shape with H*W <= 6 through one of the three decorators "
                 "(rotating); every 1-D mask of length <= 4; decorator x grid-type x list/non-list fully crossed",
        "thorough": "dispatch: every mask of every shape with H*W <= 8 (and a seed-dependent third of those with "
                    "H*W = 9); every 1-D mask of length <= 6",
    }
    trusted_extra = [
        "numpy sqrt / arctan2 / sin / cos / radians (parameters `Trig` of the model; theorems carry their "
        "hypotheses, discharged for Real.sqrt / Real.sin / Real.cos)",
        "the profile object's own `radial_grid_from` and `transformed_to_reference_frame_grid_from` (user code: "
        "the theorems assume the reported radius is sqrt(y^2+x^2) in the profile frame)",
        "IEEE rounding of the projection / relocation arithmetic (compared at 1e-9)",
    ]
    modelled_functions = [
        "autoarray/structures/decorators/abstract.py:AbstractMaker.evaluate_func",
        "autoarray/structures/decorators/abstract.py:AbstractMaker.result",
        "autoarray/structures/decorators/to_array.py:ArrayMaker.via_grid_2d",
        "autoarray/structures/decorators/to_array.py:ArrayMaker.via_grid_2d_irr",
        "autoarray/structures/decorators/to_array.py:ArrayMaker.via_grid_1d",
        "autoarray/structures/decorators/to_array.py:to_array",
        "autoarray/structures/decorators/to_grid.py:GridMaker.via_grid_2d",
        "autoarray/structures/decorators/to_grid.py:GridMaker.via_grid_2d_irr",
        "autoarray/structures/decorators/to_grid.py:GridMaker.via_grid_1d",
        "autoarray/structures/decorators/to_grid.py:to_grid",
        "autoarray/structures/decorators/to_vector_yx.py:VectorYXMaker.via_grid_2d",
        "autoarray/structures/decorators/to_vector_yx.py:VectorYXMaker.via_grid_2d_irr",
        "autoarray/structures/decorators/to_vector_yx.py:to_vector_yx",
        "autoarray/structures/decorators/project_grid.py:project_grid",
        "autoarray/structures/decorators/relocate_radial.py:relocate_to_radial_minimum",
        "autoarray/structures/decorators/transform.py:transform",
        "autoarray/structures/grids/uniform_1d.py:Grid1D.grid_2d_radial_projected_from",
        "autoarray/structures/grids/uniform_2d.py:Grid2D.grid_2d_radial_projected_from",
        "autoarray/structures/grids/grid_2d_util.py:grid_scaled_2d_slim_radial_projected_from",
        "autoarray/geometry/geometry_util.py:transform_grid_2d_to_reference_frame",
        "autoarray/geometry/geometry_util.py:transform_grid_2d_from_reference_frame",
        "autoarray/mask/derive/mask_1d.py:DeriveMask1D.to_mask_2d",
    ]
    assumptions = [
        "history stream: the expectation of every step is the single-call model / oracle on the coordinates the "
        "harness's own shadow copy holds (the same IEEE operation applied with numpy to a float64 copy), never a "
        "derived view read back from the reused object",
        "the user function returns one value (or (y,x) pair) per coordinate it receives (otherwise the "
        "container constructors raise, which the model reports as constructor_raised)",
        "a profile function handed a native-stored Grid2D / Grid1D evaluates on its slim view (the mocks do); "
        "relocation cases use slim-stored uniform grids (the decorator multiplies grid by radii[:, None])",
    ]

    # ------------------------------------------------------------------ generation
    def _uniform_grid(self, rng, m):
        sy, sx = gen.scales_pair(rng)
        oy, ox = gen.origin_pair(rng)
        return {"type": "uniform", "mask": mask_json(m), "scales": [q(sy), q(sx)], "origin": [q(oy), q(ox)]}

    def _irregular_grid(self, rng, n=None):
        n = n if n is not None else rng.randint(1, 9)
        pts = [[q(gen.dyadic(rng, -6, 6, 2)), q(gen.dyadic(rng, -6, 6, 2))] for _ in range(n)]
        if n >= 3 and rng.random() < 0.3:
            pts[rng.randrange(n)] = pts[0]  # duplicate coordinate
        return {"type": "irregular", "pts": pts}

    def _oned_grid(self, rng, bits=None):
        if bits is None:
            n = rng.randint(1, 9)
            bits = "".join("1" if rng.random() < 0.35 else "0" for _ in range(n))
            if "0" not in bits:
                bits = "0" + bits[1:]
        return {"type": "oned", "bits": bits, "scale": q(rng.choice(gen.SCALES)),
                "origin": q(gen.dyadic(rng, -3, 3, 2))}

    def _vary(self, rng, g):
        """round-3 hardening: the same mathematical grid through other storage forms, constructors,
        dtypes and containers (the decorators must not care)"""
        g = dict(g)
        r = rng.random()
        if g["type"] == "uniform":
            bits = g["mask"]["bits"]
            h, w = g["mask"]["h"], g["mask"]["w"]
            if r < 0.3:
                g["store_native"] = True
            elif r < 0.45 and "1" not in bits:
                g["ctor"] = "uniform"
            elif r < 0.6 and "1" not in bits:
                g["ctor"] = "no_mask"
                g["dtype"] = rng.choice(["int64", "int_list", "float32", "float", "ndarray"])
                ints = g["dtype"] in ("int64", "int_list")
                g["coords"] = [[q(rng.randint(-9, 9) if ints else gen.dyadic(rng, -6, 6, 2)),
                                q(rng.randint(-9, 9) if ints else gen.dyadic(rng, -6, 6, 2))] for _ in range(h * w)]
                g["store_native"] = rng.random() < 0.3
            elif r < 0.7:
                g["ctor"] = "manual"  # Grid2D(values=<slim or native coordinates>, mask=mask, store_native=…)
                g["store_native"] = rng.random() < 0.5
                g["manual_native_input"] = rng.random() < 0.5
        elif g["type"] == "irregular":
            if r < 0.5:
                g["dtype"] = rng.choice(["int64", "int_list", "float32", "tuple", "ndarray", "wrapped"])
                if g["dtype"] in ("int64", "int_list"):
                    g["pts"] = [[q(rng.randint(-9, 9)), q(rng.randint(-9, 9))] for _ in g["pts"]]
        else:
            bits = g["bits"]
            n = len(bits)
            if r < 0.35:
                g["store_native"] = True
            elif r < 0.5:
                g["ctor"] = "manual"  # Grid1D(values=…, mask=mask, store_native=…)
                g["store_native"] = rng.random() < 0.6
                g["manual_native_input"] = rng.random() < 0.5
            elif r < 0.6 and "1" not in bits:
                g["ctor"] = rng.choice(["uniform", "uniform_from_zero"])
            elif r < 0.75 and "1" not in bits:
                g["ctor"] = "no_mask"
                g["dtype"] = rng.choice(["int64", "int_list", "float32", "float", "ndarray", "tuple"])
                ints = g["dtype"] in ("int64", "int_list")
                g["xs"] = [q(rng.randint(-9, 9) if ints else gen.dyadic(rng, -6, 6, 2)) for _ in range(n)]
        return g

    def _dispatch(self, rng, kind, grid, is_list, tag):
        pair = kind != "array"
        nf = rng.randint(0, 3) if is_list and rng.random() < 0.2 else (rng.randint(1, 3) if is_list else 1)
        return {"tag": tag, "case": "dispatch", "kind": kind, "grid": grid, "list": is_list,
                "funcs": _funcs(rng, nf, pair)}

    def generate(self, tier, rng):
        kinds = ["array", "grid", "vector"]
        cells = 6 if tier == "quick" else 9
        # 1. exhaustive masks, decorators rotating
        i = 0
        for (h, w) in gen.shapes_upto(cells):
            for m in gen.all_masks(h, w):
                if tier == "thorough" and h * w > 8 and (i + rng.randrange(3)) % 3:
                    i += 1
                    continue
                yield self._dispatch(rng, kinds[i % 3], self._uniform_grid(rng, m), (i // 3) % 4 == 3,
                                     "disp_uniform_exh")
                i += 1
        # 2. full cross decorator × grid type × list
        reps = 6 if tier == "quick" else 60
        for _ in range(reps):
            for kind in kinds:
                for is_list in (False, True):
                    h, w = rng.randint(1, 8), rng.randint(1, 8)
                    m, mk = gen.random_mask(rng, h, w)
                    yield self._dispatch(rng, kind, self._uniform_grid(rng, m), is_list, f"disp_uniform_{mk}")
                    yield self._dispatch(rng, kind, self._irregular_grid(rng), is_list, "disp_irregular")
                    yield self._dispatch(rng, kind, self._oned_grid(rng), is_list, "disp_oned")
                    # the same three through other storage forms / constructors / dtypes / containers
                    h, w = rng.randint(1, 6), rng.randint(1, 6)
                    m, mk = gen.random_mask(rng, h, w, kind=rng.choice([None, None, "all"]))
                    yield self._dispatch(rng, kind, self._vary(rng, self._uniform_grid(rng, m)), is_list,
                                         "disp_uniform_variant")
                    yield self._dispatch(rng, kind, self._vary(rng, self._irregular_grid(rng)), is_list,
                                         "disp_irregular_variant")
                    g1 = self._oned_grid(rng, None if rng.random() < 0.6 else "0" * rng.randint(1, 6))
                    yield self._dispatch(rng, kind, self._vary(rng, g1), is_list, "disp_oned_variant")
        # degenerate sizes: no unmasked pixel at all, empty / single coordinate sets, one-pixel 1-D grids;
        # masked 1-D grids in native storage (every mask of length <= 3)
        for kind in kinds:
            for (h, w) in ((1, 1), (1, 3), (2, 2)):
                g = self._uniform_grid(rng, gen.full(h, w, True))
                yield self._dispatch(rng, kind, g, False, "disp_uniform_all_masked")
                yield self._dispatch(rng, kind, {**g, "store_native": True}, True, "disp_uniform_all_masked")
            yield self._dispatch(rng, kind, self._irregular_grid(rng, 0), False, "disp_irregular_empty")
            yield self._dispatch(rng, kind, self._irregular_grid(rng, 0), True, "disp_irregular_empty")
            yield self._dispatch(rng, kind, self._vary(rng, self._irregular_grid(rng, 1)), False, "disp_irregular_single")
            if kind != "vector":
                for bits in ("1", "11", "0", "01", "10", "011", "101", "110", "010", "001", "100"):
                    for native in (False, True):
                        g = self._oned_grid(rng, bits)
                        g["store_native"] = native
                        yield self._dispatch(rng, kind, g, False, "disp_oned_small_native" if native else "disp_oned_small")
        n1 = 4 if tier == "quick" else 6
        for ln in range(1, n1 + 1):
            for b in range((1 << ln) - 1):
                bits = "".join("1" if (b >> k) & 1 else "0" for k in range(ln))
                yield self._dispatch(rng, "array", self._oned_grid(rng, bits), False, "disp_oned_exh")
        # 3. a function that returns the wrong number of entries: the constructor must refuse
        for _ in range(6 if tier == "quick" else 40):
            m, mk = gen.random_mask(rng, rng.randint(2, 5), rng.randint(2, 5))
            c = self._dispatch(rng, rng.choice(kinds), self._uniform_grid(rng, m), False, "disp_bad_length")
            c["drop_last"] = True
            yield c
        # 4. project_grid
        for _ in range(40 if tier == "quick" else 400):
            gt = rng.choice(["uniform", "uniform", "irregular", "oned"])
            if gt == "uniform":
                m, mk = gen.random_mask(rng, rng.randint(1, 7), rng.randint(1, 7))
                grid = self._uniform_grid(rng, m)
            elif gt == "irregular":
                grid = self._irregular_grid(rng)
            else:
                grid = self._oned_grid(rng)
            if rng.random() < 0.5:
                grid = self._vary(rng, grid)
                if grid.get("ctor") == "no_mask" and gt == "uniform":
                    grid.pop("ctor"), grid.pop("coords", None), grid.pop("dtype", None)
            attrs = rng.choice(["both", "both", "both", "none", "centre_only", "missing"])
            centre = [q(gen.dyadic(rng, -2, 2, 2)), q(gen.dyadic(rng, -2, 2, 2))]
            angle = q(rng.choice([0, 30, 45, 90, -60, 180, 200, 17, 123, 270, 359]) + (
                gen.dyadic(rng, 0, 1, 3) if rng.random() < 0.3 else 0))
            # "set but falsy": centre (0.0, 0.0) / a zero component, angle 0.0 (the +90 must still apply)
            r0 = rng.random()
            if r0 < 0.15:
                centre = ["0", "0"]
            elif r0 < 0.25:
                centre[rng.randrange(2)] = "0"
            if rng.random() < 0.2:
                angle = "0"
            pair = gt == "irregular" and rng.random() < 0.4
            yield {"tag": f"project_{gt}", "case": "project", "grid": grid, "attrs": attrs,
                   "centre": centre, "angle": angle, "func": _funcs(rng, 1, pair)[0]}
        # 5. radial minimum
        for _ in range(60 if tier == "quick" else 600):
            yield self._relocate_case(rng)
        # 6. transform nesting
        for depth in (1, 2, 3):
            for flag in (False, True, "explicit_false"):
                for _ in range(2 if tier == "quick" else 10):
                    yield {"tag": "transform", "case": "transform", "depth": depth, "flag": flag is True,
                           "explicit_false": flag == "explicit_false",
                           "centre": [q(gen.dyadic(rng, -3, 3, 2)), q(gen.dyadic(rng, -3, 3, 2))],
                           "pts": self._irregular_grid(rng)["pts"]}
        # 7. round 4: every family at world magnitudes 2^-40 .. 2^27 (hidden absolute tolerances)
        yield from self._decades(tier, rng)
        # 8. round 4: histories on real reused objects
        yield from self._history_cases(tier, rng)
        # 9. round 5/6: sizes beyond 2^16 in every run
        yield from self._always_large(tier, rng)
        # 9b. round 5/6: decades extended (edges, extreme magnitudes, one ingredient, near-ties)
        yield from self._decades_ext(tier, rng)
        # 10. round 5/6: layout / container variants, options crossed pairwise
        yield from self._layouts(tier, rng)
        yield from self._options_pairwise(tier, rng)

    # ------------------------------------------------------------------ round 4: decades stream
    @staticmethod
    def _mul(v, f):
        return q(Fraction(v) * f)

    def _scale_grid(self, g, f, k):
        """the grid spec with every length multiplied by the power of two f = 2^k (None: not scalable)"""
        dt = g.get("dtype")
        if dt in ("int64", "int_list") or (dt == "float32" and (k < -30 or k > 60)):
            return None
        g = dict(g)
        if g["type"] == "uniform":
            g["scales"] = [self._mul(v, f) for v in g["scales"]]
            g["origin"] = [self._mul(v, f) for v in g["origin"]]
            if "coords" in g:
                g["coords"] = [[self._mul(a, f), self._mul(b, f)] for a, b in g["coords"]]
        elif g["type"] in ("irregular", "ndarray"):
            g["pts"] = [[self._mul(a, f), self._mul(b, f)] for a, b in g["pts"]]
        else:
            g["scale"] = self._mul(g["scale"], f)
            g["origin"] = self._mul(g["origin"], f)
            if "xs" in g:
                g["xs"] = [self._mul(x, f) for x in g["xs"]]
        return g

    @staticmethod
    def _no_constant(fn, k=-1):
        """the user function made homogeneous enough for a world of magnitude 2^k: no constant term (it would
        swamp a tiny world), and for k > 0 no degree-2 terms (they would swamp the linear ones, and their
        cancellation would leave rounding noise of size 2^2k * 1e-16)"""
        fn = dict(fn)
        for key in ("cy", "cx"):
            if key in fn:
                c = list(fn[key]) + ["0"] * (6 - len(fn[key]))
                fn[key] = ["0"] + c[1:3] + (c[3:6] if -40 <= k < 0 else ["0", "0", "0"])
        return fn

    def _scale_case(self, case, k):
        """HIDDEN ABSOLUTE TOLERANCES (round 4): the same case with the whole world — coordinates, pixel
        scales, origins, centres, radial minimum — multiplied by 2^k.  Every operation of the decorators is
        homogeneous of degree 1 in these lengths and a power of two scales IEEE results exactly, so the
        expected observation is the scaled one; an absolute tolerance hidden in the code (np.isclose's 1e-8,
        an epsilon added to a radius, `< 1e-6` as a stand-in for `== 0`) is not homogeneous and shows as soon
        as the world's magnitude crosses it.  `mag` = k makes comparison and oracle relative to 2^k (k < 0).
        Returns None when the case cannot be scaled (integer dtypes)."""
        f = Fraction(2) ** k
        c = dict(case)
        c["mag"] = k
        c["tag"] = case["tag"] + "_dec"
        kind = case["case"]
        if kind == "transform":
            c["pts"] = [[self._mul(a, f), self._mul(b, f)] for a, b in case["pts"]]
            c["centre"] = [self._mul(v, f) for v in case["centre"]]
            return c
        g = self._scale_grid(case["grid"], f, k)
        if g is None:
            return None
        c["grid"] = g
        if case.get("xa") and "add" in case["xa"]:
            c["xa"] = {**case["xa"], "add": self._mul(case["xa"]["add"], f)}
        if kind == "dispatch":
            if k != 0:
                c["funcs"] = [self._no_constant(fn, k) for fn in case["funcs"]]
        elif kind in ("project", "projline"):
            c["centre"] = [self._mul(v, f) for v in case["centre"]]
            if k != 0 and "func" in case:
                c["func"] = self._no_constant(case["func"], k)
        elif kind == "relocate":
            c["centre"] = [self._mul(v, f) for v in case["centre"]]
            c["rmin"] = self._mul(case["rmin"], f)
        return c

    MAGS = list(range(-40, 28))  # 2^-40 ~ 9e-13 ... 2^27 ~ 1.3e8

    # ------------------------------------------------------------------ round 4: LARGE cases (size hints)
    BIG_CAP = 140000  # points / pixels per case that pure Python (no numba) handles in about a second
    BIG_LIST_CAP = 2100  # list results: containers per call

    @staticmethod
    def _nonsquare(n):
        """(h, w) with h*w == n, h != w where possible, h the largest divisor <= sqrt(n) (1 x n for primes)"""
        best = 1
        d = 1
        while d * d <= n:
            if n % d == 0 and d * d != n:
                best = d
            d += 1
        return best, n // best

    def _big_funcs(self, rng, n, pair, mode=None):
        fs = _funcs(rng, n, pair)
        for fn in fs:
            fn["mode"] = mode or rng.choice(["poly", "index", "prefix"])
        return fs

    def generate_large(self, hints, rng):
        """cases whose size — EVERY size dimension the decorators' code sees: coordinates of an irregular grid,
        unmasked pixels and frame pixels H*W of a (non-square, off-origin, anisotropic) uniform grid, unmasked
        entries and length of a 1-D grid, points of the radially projected line, coordinates handed to the
        radial-minimum / transform decorators, elements of a list result — sits at c-1, c, c+1, c+c//3+1 and
        2c+1 for every new integer constant c in the anchored source.  Coordinates and coefficients are small
        dyadic rationals (all polynomial values, index products and prefix sums are exact doubles).  These
        cases carry "big": no model comparison, judged by the vectorised statement of the property
        (`_judge_big`)."""
        kinds = ["array", "grid", "vector"]
        seed = rng.randrange(1 << 30)
        t = 0
        for c in sorted(set(int(h) for h in hints)):
            if c - 1 > self.BIG_CAP or c < 2:
                continue
            sizes = [n for n in (c, c + 1, c - 1, c + c // 3 + 1, 2 * c + 1) if 2 <= n <= self.BIG_CAP]
            for n in sizes:
                def G(**kw):
                    nonlocal t
                    t += 1
                    return {"seed": seed + t, **kw}

                sc = lambda: [q(v) for v in gen.scales_pair(rng)]
                og = lambda: [q(v) for v in gen.origin_pair(rng)]
                # 1. irregular grid of n coordinates, each decorator
                for kind in kinds:
                    yield {"tag": "large_disp_irregular", "big": True, "case": "dispatch", "kind": kind,
                           "grid": {"type": "irregular", "gen": G(n=n)}, "list": t % 4 == 0,
                           "funcs": self._big_funcs(rng, 2 if t % 4 == 0 else 1, kind != "array")}
                # 2. uniform grid with exactly n unmasked pixels in a slightly larger non-square frame, each
                #    decorator; and a frame of exactly n pixels (non-square factorisation), about half unmasked
                w = int(math.isqrt(n)) + 3
                h = -(-n // w) + 2
                for kind in kinds:
                    yield {"tag": "large_disp_uniform_unmasked", "big": True, "case": "dispatch", "kind": kind,
                           "grid": {"type": "uniform", "gen": G(h=h, w=w, u=n), "scales": sc(), "origin": og(),
                                    "store_native": t % 5 == 0},
                           "list": t % 4 == 1, "funcs": self._big_funcs(rng, 2 if t % 4 == 1 else 1, kind != "array")}
                fh, fw = self._nonsquare(n)
                for kind in kinds:
                    u = n if kind == "grid" else max(1, n // 2 + 1)
                    yield {"tag": "large_disp_uniform_frame", "big": True, "case": "dispatch", "kind": kind,
                           "grid": {"type": "uniform", "gen": G(h=fh, w=fw, u=u), "scales": sc(), "origin": og()},
                           "list": False, "funcs": self._big_funcs(rng, 1, kind != "array")}
                # 3. 1-D grid: n unmasked entries (length n + a few), and length exactly n
                for kind in kinds[:2]:
                    yield {"tag": "large_disp_oned", "big": True, "case": "dispatch", "kind": kind,
                           "grid": {"type": "oned", "gen": G(n=n + 5, u=n), "scale": q(rng.choice(gen.SCALES)),
                                    "origin": q(gen.dyadic(rng, -3, 3, 2)), "store_native": t % 3 == 0},
                           "list": False, "funcs": self._big_funcs(rng, 1, kind != "array")}
                yield {"tag": "large_disp_oned", "big": True, "case": "dispatch", "kind": "array",
                       "grid": {"type": "oned", "gen": G(n=n, u=max(1, (2 * n) // 3)), "scale": q(rng.choice(gen.SCALES)),
                                "origin": q(gen.dyadic(rng, -3, 3, 2))},
                       "list": False, "funcs": self._big_funcs(rng, 1, False)}
                # 4. radial minimum on n coordinates
                for gt in ("irregular", "ndarray"):
                    yield {"tag": f"large_relocate_{gt}", "big": True, "case": "relocate",
                           "grid": {"type": gt, "gen": G(n=n, around=True)},
                           "rmin": q(rng.choice([Fraction(5, 4), Fraction(5, 2), Fraction(1)])),
                           "centre": [q(gen.dyadic(rng, -2, 2, 2)), q(gen.dyadic(rng, -2, 2, 2))]}
                yield {"tag": "large_relocate_uniform", "big": True, "case": "relocate",
                       "grid": {"type": "uniform", "gen": G(h=h, w=w, u=n), "scales": sc(), "origin": og()},
                       "rmin": "5/2", "centre": "pixel"}
                # 5. project_grid: projected line of exactly n points (small frame, far centre), frame of n
                #    pixels, 1-D grid of n entries, irregular grid of n coordinates
                for var in ("line", "frame", "oned", "irregular"):
                    pc = {"tag": f"large_project_{var}", "big": True, "case": "project", "attrs": "both",
                          "angle": q(rng.choice([0, 30, 90, -60, 200, 17])),
                          "centre": [q(gen.dyadic(rng, -2, 2, 2)), q(gen.dyadic(rng, -2, 2, 2))],
                          "func": self._big_funcs(rng, 1, False)[0]}
                    if var == "line":
                        pc["grid"] = {"type": "uniform", "gen": G(h=3, w=4, u=7), "scales": sc(), "origin": og()}
                        pc["line_n"] = n  # the centre is placed so that int(dist/scale)+1 == n
                    elif var == "frame":
                        pc["grid"] = {"type": "uniform", "gen": G(h=fh, w=fw, u=max(1, n // 3)), "scales": sc(),
                                      "origin": og()}
                    elif var == "oned":
                        pc["grid"] = {"type": "oned", "gen": G(n=n + 3, u=n), "scale": q(rng.choice(gen.SCALES)),
                                      "origin": q(gen.dyadic(rng, -3, 3, 2))}
                    else:
                        pc["grid"] = {"type": "irregular", "gen": G(n=n)}
                        if t % 2:
                            pc["func"] = self._big_funcs(rng, 1, True)[0]
                    yield pc
                # 6. a list result of n elements on small grids
                if n <= self.BIG_LIST_CAP:
                    for kind, gg in (("array", {"type": "irregular", "gen": G(n=3)}),
                                     ("grid", {"type": "uniform", "gen": G(h=2, w=3, u=4), "scales": sc(), "origin": og()}),
                                     ("array", {"type": "oned", "gen": G(n=4, u=3), "scale": "1/2", "origin": "1/4"})):
                        yield {"tag": "large_list", "big": True, "case": "dispatch", "kind": kind, "grid": gg,
                               "list": True, "funcs": self._big_funcs(rng, 1, kind != "array") * 1,
                               "list_n": n}
                # 7. transform on n coordinates
                yield {"tag": "large_transform", "big": True, "case": "transform", "depth": 1 + t % 3,
                       "flag": t % 5 == 0, "explicit_false": False,
                       "centre": [q(gen.dyadic(rng, -3, 3, 2)), q(gen.dyadic(rng, -3, 3, 2))],
                       "grid": {"type": "irregular", "gen": G(n=n)}}

    # ------------------------------------------------------------------ round 4: history stream
    # A history is a list of steps on REAL reused objects held in named slots (grids g0,g1,…; profiles p0,p1):
    #   {"act":"grid","to":g,"grid":spec[,"readonly":true]}      construct a grid (as in the ordinary cases)
    #   {"act":"profile","to":p,"centre":[y,x],"angle":a|None}   construct a mock profile (all decorators)
    #   {"act":"call","p":p,"g":g,"what":…, …}                   ONE decorated call, observed
    #   {"act":"edit","g":g,"k":k,"val":…[,"how":"where"]}       in-place edit through the public __setitem__
    #   {"act":"derive","from":g,"to":g2,"op":…,"val":…}         arithmetic / copy / slice / view of a grid
    #   {"act":"mask_edit","from":g,"to":g2,"flips":[[i,b],…]}   edit g's MASK object in place (mask[y,x] = b), then
    #                                                            build a new grid from that same mask object
    #   {"act":"setattr","p":p,"centre":…,"angle":…}             edit the profile in place
    #   {"act":"decoy","g":g[,"p":p]}                             read every other public derived quantity
    #   {"act":"fault","p":p,"g":g,"what":…}                      the user function raises inside the decorator
    # Every call step is judged (oracle + model) as the ordinary single-call case on a FRESH object holding
    # the coordinates the harness's own shadow copy says the reused object holds at that moment.
    DERIVE_OPS = {
        "uniform": ["mul", "rmul", "add", "sub", "rsub", "neg", "div", "abs", "pow2", "copy", "deepcopy", "wna",
                    "gg", "astype", "slim", "native"],
        "oned": ["mul", "rmul", "add", "sub", "rsub", "neg", "div", "abs", "pow2", "copy", "deepcopy", "wna",
                 "gg", "astype", "slim", "native"],
        "irregular": ["mul", "rmul", "add", "sub", "rsub", "neg", "div", "abs", "pow2", "copy", "deepcopy", "wna",
                      "gg", "astype", "slim", "native", "slice"],
        "ndarray": ["mul", "add", "sub", "neg", "copy", "slice"],
    }
    CALLS = {
        "uniform": ["array", "grid", "vector", "project", "relocate"],
        "irregular": ["array", "grid", "vector", "project", "relocate", "transform"],
        "oned": ["array", "grid", "project"],
        "ndarray": ["relocate"],
    }

    def _hist_grid(self, rng, gt):
        if gt == "uniform":
            m, mk = gen.random_mask(rng, rng.randint(1, 5), rng.randint(1, 5))
            if all(all(r) for r in m):
                m[0][0] = False
            g = self._uniform_grid(rng, m)
            r = rng.random()
            if r < 0.25:
                g["store_native"] = True
            elif r < 0.4:
                g["ctor"] = "manual"
                g["store_native"] = rng.random() < 0.5
                g["manual_native_input"] = rng.random() < 0.5
            return g
        if gt == "irregular":
            g = self._irregular_grid(rng, rng.randint(2, 7))
            if rng.random() < 0.3:
                g["dtype"] = rng.choice(["ndarray", "tuple", "wrapped"])
            return g
        if gt == "ndarray":
            return {"type": "ndarray", "pts": self._irregular_grid(rng, rng.randint(2, 7))["pts"]}
        g = self._oned_grid(rng)
        r = rng.random()
        if r < 0.3:
            g["store_native"] = True
        elif r < 0.45:
            g["ctor"] = "manual"
            g["store_native"] = rng.random() < 0.6
            g["manual_native_input"] = rng.random() < 0.5
        return g

    @staticmethod
    def _n_points(g):
        if g["type"] == "uniform":
            return g["mask"]["bits"].count("0")
        if g["type"] == "oned":
            return g["bits"].count("0")
        return len(g["pts"])

    _r56 = True  # round 5/6: relocation calls may say is_transformed=True

    def _hist_call(self, rng, gt, what=None, slim_only_ok=True):
        what = what or rng.choice(self.CALLS[gt])
        st = {"act": "call", "what": what}
        if what in ("array", "grid", "vector"):
            is_list = rng.random() < 0.25
            st["list"] = is_list
            st["funcs"] = _funcs(rng, rng.randint(1, 2) if is_list else 1, what != "array")
        elif what == "project":
            st["func"] = _funcs(rng, 1, gt == "irregular" and rng.random() < 0.4)[0]
        elif what == "relocate":
            st["rmin"] = q(rng.choice([Fraction(5, 2), Fraction(1), Fraction(1, 4), Fraction(5, 4), Fraction(2),
                                       Fraction(1, 2 ** 20), Fraction(10), Fraction(0)]))
            if self._r56 and rng.random() < 0.3:
                st["pre"] = True  # round 5/6: is_transformed=True, the caller's own grid reaches the decorator
        else:
            st["depth"] = rng.randint(1, 3)
            st["flag"] = rng.random() < 0.3
            st["explicit_false"] = (not st["flag"]) and rng.random() < 0.3
        return st

    def _hist_edit(self, rng, gspec, g="g0", allow_where=True):
        n = self._n_points(gspec)
        k = rng.randrange(n)
        if gspec["type"] == "oned":
            val = q(gen.dyadic(rng, -6, 6, 2))
        else:
            val = [q(gen.dyadic(rng, -6, 6, 2)), q(gen.dyadic(rng, -6, 6, 2))]
        st = {"act": "edit", "g": g, "k": k, "val": val}
        if allow_where and rng.random() < 0.25:
            st["how"] = "where"  # boolean-array key: __setitem__ replaces the underlying array
            st["val"] = q(gen.dyadic(rng, -6, 6, 2))
        return st

    def _hist_derive(self, rng, gt, frm, to, n):
        op = rng.choice(self.DERIVE_OPS[gt] + (["via_to_grid"] * 2 if gt in ("uniform", "irregular") else []))
        st = {"act": "derive", "from": frm, "to": to, "op": op}
        if op == "via_to_grid":  # the Grid2D / Grid2DIrregular RETURNED by a to_grid-decorated call, used as a grid
            st["funcs"] = _funcs(rng, 1, True)
            st["p"] = "p0"
        if op in ("mul", "rmul", "div"):
            st["val"] = q(rng.choice([Fraction(5, 2), Fraction(2), Fraction(-3, 2), Fraction(1, 2), Fraction(3)]))
        elif op in ("add", "sub", "rsub", "wna"):
            st["val"] = q(rng.choice([Fraction(10), Fraction(-5, 4), Fraction(1, 2), Fraction(3)]))
        elif op == "slice":
            a = rng.randrange(n)
            st["val"] = [a, rng.randint(a + 1, n)]
        return st

    def _hist_profile(self, rng, to="p0", gspec=None):
        centre = [q(gen.dyadic(rng, -2, 2, 2)), q(gen.dyadic(rng, -2, 2, 2))]
        if gspec is not None and gspec["type"] == "uniform" and rng.random() < 0.6:
            cs = _centres_2d(gspec["mask"], [Fraction(v) for v in gspec["scales"]],
                             [Fraction(v) for v in gspec["origin"]])
            c0 = rng.choice(cs)
            centre = [q(c0[0]), q(c0[1])]
        elif gspec is not None and gspec["type"] in ("irregular", "ndarray") and rng.random() < 0.4:
            centre = list(rng.choice(gspec["pts"]))
        angle = None if rng.random() < 0.2 else q(rng.choice([0, 30, 45, 90, -60, 180, 200, 17, 123, 270, 359]))
        return {"act": "profile", "to": to, "centre": centre, "angle": angle}

    @staticmethod
    def _perturb(v, rng):
        """a near-duplicate of the number v: relative 2^-18 .. 2^-17 (inside np.allclose's default rtol 1e-5,
        far outside the property's 1e-9), or absolute 2^-33 ~ 1.2e-10 when v = 0"""
        v = Fraction(v)
        e = Fraction(1, 2 ** rng.choice([17, 18]))
        return q(v * (1 + e * rng.choice([1, -1])) if v != 0 else Fraction(rng.choice([1, -1]), 2 ** 33))

    def _perturb_grid(self, g, rng):
        g = dict(g)
        if g["type"] == "uniform":
            which = rng.choice(["scales", "origin", "both"])
            if which in ("scales", "both"):
                g["scales"] = [self._perturb(v, rng) for v in g["scales"]]
            if which in ("origin", "both"):
                g["origin"] = [self._perturb(v, rng) for v in g["origin"]]
        elif g["type"] in ("irregular", "ndarray"):
            pts = [list(p) for p in g["pts"]]
            for i in (range(len(pts)) if rng.random() < 0.5 else [rng.randrange(len(pts))]):
                pts[i] = [self._perturb(pts[i][0], rng), self._perturb(pts[i][1], rng)]
            g["pts"] = pts
        else:
            which = rng.choice(["scale", "origin", "both"])
            if which in ("scale", "both"):
                g["scale"] = self._perturb(g["scale"], rng)
            if which in ("origin", "both"):
                g["origin"] = self._perturb(g["origin"], rng)
        return g

    def _history(self, rng, fam, gt):
        g0 = self._hist_grid(rng, gt)
        n0 = self._n_points(g0)
        steps = [{"act": "grid", "to": "g0", "grid": g0}, self._hist_profile(rng, "p0", g0)]
        if gt == "ndarray" and rng.random() < 0.3 and fam not in ("edit", "mixed"):
            steps[0]["readonly"] = True  # a caller-owned read-only coordinate array
        native0 = bool(g0.get("store_native"))

        def call(g="g0", p="p0", what=None, native=False):
            st = self._hist_call(rng, gt, what)
            if st["what"] == "relocate" and native:
                st = self._hist_call(rng, gt, rng.choice([w for w in self.CALLS[gt] if w != "relocate"]))
            st["g"], st["p"] = g, p
            return st

        if fam == "edit":
            a = call(native=native0)
            steps.append(a)
            if rng.random() < 0.5:
                steps.append({"act": "decoy", "g": "g0", "p": "p0"})
            where_ok = not (native0 or gt == "ndarray")
            steps.append(self._hist_edit(rng, g0, allow_where=where_ok))
            steps.append({**a})  # the same call again on the edited object
            steps.append(call(native=native0))
            if rng.random() < 0.5:
                steps.append(self._hist_edit(rng, g0, allow_where=where_ok))
                steps.append({**a})
        elif fam in ("derive", "derive_first"):
            a = call(native=native0)
            if fam == "derive":
                steps.append(a)
                if rng.random() < 0.3:
                    steps.append(call(native=native0))
            d = self._hist_derive(rng, gt, "g0", "g1", n0)
            steps.append(d)
            nat1 = {"slim": False, "via_to_grid": False, "native": gt in ("uniform", "oned")}.get(d["op"], native0)
            b = {**a, "g": "g1"}
            if b["what"] == "relocate" and nat1:
                b = call("g1", native=True)
            steps.append(b)
            steps.append({**a})  # the parent is still what it was
            if rng.random() < 0.5:
                n1 = (d["val"][1] - d["val"][0]) if d["op"] == "slice" else n0
                d2 = self._hist_derive(rng, gt, "g1", "g2", n1)
                steps.append(d2)
                nat2 = {"slim": False, "via_to_grid": False, "native": gt in ("uniform", "oned")}.get(d2["op"], nat1)
                steps.append(call("g2", native=nat2))
                steps.append(call("g1", native=nat1))
        elif fam == "twin":
            a = call(native=native0)
            steps.append(a)
            r = rng.random()
            if r < 0.5:
                # a freshly built near-duplicate grid through the same profile object, then the first again
                steps.append({"act": "grid", "to": "g1", "grid": self._perturb_grid(g0, rng)})
                steps.append({**a, "g": "g1"})
                steps.append({**a})
            elif r < 0.6 and a["what"] in ("array", "grid", "vector", "project"):
                # the user function changed by a hair (results within np.allclose of the previous ones)
                def pf(fn):
                    return {**fn, **{key: [self._perturb(v, rng) for v in fn[key]] for key in ("cy", "cx") if key in fn}}
                if "funcs" in a:
                    steps.append({**a, "funcs": [pf(fn) for fn in a["funcs"]]})
                else:
                    steps.append({**a, "func": pf(a["func"])})
                steps.append({**a})
            elif r < 0.8 or a["what"] != "relocate":
                # the profile edited in place by a hair
                pr = steps[1]
                new = {"act": "setattr", "p": "p0", "centre": [self._perturb(v, rng) for v in pr["centre"]]}
                if pr["angle"] is not None:
                    new["angle"] = self._perturb(pr["angle"], rng)
                steps.append(new)
                steps.append({**a})
                b = call(what="project" if gt != "ndarray" else None, native=native0)
                steps.append(b)
            else:
                steps.append({**a, "rmin": self._perturb(a["rmin"], rng)})
                steps.append({**a})
        elif fam == "fault":
            a = call(native=native0)
            if a["what"] in ("array", "grid", "vector") and gt == "uniform" and not a["list"] and rng.random() < 0.5:
                steps.append({**a, "drop_last": True})  # wrong-length result: the constructor refuses
            else:
                steps.append({**a, "act": "fault"})
            steps.append({**a})
            steps.append(call(native=native0))
        elif fam == "shared":
            r = rng.random()
            if r < 0.5:
                # one profile object, two worlds, both orders
                g1 = self._hist_grid(rng, gt)
                steps.append({"act": "grid", "to": "g1", "grid": g1})
                a = call("g0", native=native0 or bool(g1.get("store_native")))
                order = ["g0", "g1", "g0"] if rng.random() < 0.5 else ["g1", "g0", "g1"]
                for g in order:
                    steps.append({**a, "g": g})
            else:
                # one grid object, two profiles (different centre / angle), interleaved
                steps.append(self._hist_profile(rng, "p1", g0))
                a = call(native=native0)
                for p_ in (["p0", "p1", "p0"] if rng.random() < 0.5 else ["p1", "p0", "p1"]):
                    steps.append({**a, "p": p_})
                steps.append(call("g0", "p1", native=native0))
        elif fam == "maskedit":
            # only for grids that own a mask: the mask is edited in place and a new grid is built from it
            a = call(native=native0)
            steps.append(a)
            if rng.random() < 0.5:
                steps.append({"act": "decoy", "g": "g0", "p": "p0"})
            bits = g0["mask"]["bits"] if gt == "uniform" else g0["bits"]
            flips = []
            for i in rng.sample(range(len(bits)), min(len(bits), rng.randint(1, 3))):
                flips.append([i, 0 if bits[i] == "1" else 1])
            nb = list(bits)
            for i, b in flips:
                nb[i] = str(b)
            if "0" not in nb:
                flips = [f for f in flips if f[1] == 0] or [[0, 0]]
            steps.append({"act": "mask_edit", "from": "g0", "to": "g1", "flips": flips})
            b = {**a, "g": "g1"}
            steps.append(b)
            steps.append(call("g1"))
        elif fam == "decoy":
            steps.append({"act": "decoy", "g": "g0", "p": "p0"})
            steps.append(call(native=native0))
            steps.append({"act": "decoy", "g": "g0", "p": "p0"})
            steps.append(call(native=native0))
        else:  # mixed: every sibling decorator on the same objects, in a random order, with edits in between
            whats = list(self.CALLS[gt])
            rng.shuffle(whats)
            for w in whats:
                if w == "relocate" and native0:
                    continue
                steps.append(call(what=w))
                r = rng.random()
                if r < 0.3:
                    steps.append(self._hist_edit(rng, g0, allow_where=not (native0 or gt == "ndarray")))
                elif r < 0.45:
                    steps.append({"act": "decoy", "g": "g0", "p": "p0"})
            rng.shuffle(whats)
            for w in whats[:2]:
                if not (w == "relocate" and native0):
                    steps.append(call(what=w))
        return {"tag": f"hist_{fam}_{gt}", "case": "history", "steps": steps}

    def _history_own(self, rng, gt):
        """R5-B ownership history: observe -> overwrite in place every array the API returned or accepted (the
        grid's array, its mask, the arrays the constructors were given, the returned containers and their masks, the
        grid the user function was handed) -> rebuild the SAME world from fresh equal inputs -> observe again; three
        rounds.  In some, the user function itself edits its argument in place after evaluating."""
        g0 = self._hist_grid(rng, gt)
        if rng.random() < 0.4 and gt != "ndarray":
            keys, lay = rng.choice(self._layout_variants(gt))
            if not (keys.get("dtype") in ("int64", "float32")):
                g0 = self._apply_variant({k: v for k, v in g0.items() if k not in ("ctor", "manual_native_input", "store_native", "dtype")},
                                         keys, lay)
        native0 = bool(g0.get("store_native"))
        prof = self._hist_profile(rng, "p0", g0)
        steps = [{"act": "grid", "to": "g0", "grid": g0}, prof]
        whats = [w for w in self.CALLS[gt] if not (w == "relocate" and native0)]
        a = self._hist_call(rng, gt, rng.choice(whats))
        a["g"], a["p"] = "g0", "p0"
        if rng.random() < 0.45 and not (a["what"] == "vector" and gt in ("uniform", "irregular")):
            a["fscrib"] = True
        if a["what"] in ("array", "grid", "vector") and rng.random() < 0.3:
            a["ret"] = rng.choice(["strided", "readonly", "struct", "struct_native", "native_junk", "T"])
            if a["ret"] == "native_junk" and gt == "irregular":
                a["ret"] = "struct"
        b = None
        if not a.get("fscrib") and rng.random() < 0.4:
            b = self._hist_call(rng, gt, rng.choice(whats))
            b["g"], b["p"] = "g0", "p0"
        for rnd in range(3):
            if rnd > 0:
                steps.append({"act": "grid", "to": "g0", "grid": g0})
                if rng.random() < 0.5:
                    steps.append(dict(prof))
            if b is not None and rng.random() < 0.5:
                steps.append(dict(b))
                steps.append(dict(a))
            else:
                steps.append(dict(a))
                if b is not None:
                    steps.append(dict(b))
            if not a.get("fscrib"):
                steps.append({"act": "scribble", "g": "g0"})
        return {"tag": f"hist_own_{gt}", "case": "history", "steps": steps}

    def _history_conf(self, rng, gt, push):
        """R5-D configuration history: the configuration values the anchored code reads
        (`general.grid.remove_projected_centre`, `grids.radial_minimum.radial_minimum.<class name>`) change BETWEEN
        calls, on reused and on freshly built objects, by item assignment or by `conf.instance.push`; each call must
        follow the value in force at call time; `Grid2D.grid_2d_radial_projected_from` with an explicit keyword is
        the control (it must NOT follow the configuration)."""
        g0 = self._hist_grid(rng, gt)
        for key in ("store_native",):
            g0.pop(key, None) if g0.get("ctor") != "manual" else None
        prof = self._hist_profile(rng, "p0", g0)
        if gt == "uniform" and prof["angle"] is None:
            prof["angle"] = q(rng.choice([0, 30, 45, -60, 200, 17]))
        steps = [{"act": "grid", "to": "g0", "grid": g0}, prof]
        if gt == "uniform":
            # remove_projected_centre under project_grid (+ the direct call as control)
            a = self._hist_call(rng, gt, "project")
            a["g"], a["p"] = "g0", "p0"
            if a["func"]["mode"] == "prefix" and rng.random() < 0.5:
                a["func"] = {**a["func"], "mode": "index"}
            vals = rng.choice([[True, False, True], [False, True, False], [True, True, False], [False, True, True]])
            n_push = 0
            for i, b in enumerate(vals):
                via = "push" if push and n_push < 2 and (i == 1 or rng.random() < 0.5) else "item"
                n_push += via == "push"
                steps.append({"act": "conf", "rpc": b, "via": via})
                if rng.random() < 0.35:
                    steps.append({"act": "grid", "to": "g0", "grid": g0})  # a freshly built equal grid
                if rng.random() < 0.25:
                    steps.append(dict(prof))
                steps.append(dict(a))
                r = rng.random()
                if r < 0.5:
                    steps.append({"act": "call", "what": "projline", "g": "g0", "p": "p0",
                                  "explicit": rng.choice([True, False])})
                elif r < 0.7:
                    steps.append({"act": "call", "what": "projline", "g": "g0", "p": "p0", "explicit_none": True})
                elif r < 0.8:
                    steps.append({"act": "call", "what": "projline", "g": "g0", "p": "p0"})
            return {"tag": "hist_conf_rpc" + ("_push" if push else ""), "case": "history", "steps": steps}
        # the radial minimum: two profile classes with different configured values, interleaved; values changing
        # between calls; by item assignment or by a pushed grids.yaml
        steps.append({**self._hist_profile(rng, "p1", g0), "cls": "other"})
        rm = [Fraction(5, 2), Fraction(1), Fraction(1, 4), Fraction(5, 4), Fraction(2), Fraction(10), Fraction(0),
              Fraction(1, 2 ** 20)]
        n_push = 0
        names = {"p0": "MockGridRadialMinimum", "p1": "MockGridRadialOther"}
        for i in range(rng.randint(3, 5)):
            p_ = rng.choice(["p0", "p1"]) if i else "p0"
            a_, b_ = rng.sample(rm, 2)
            via = "push" if push and n_push < 2 and (i == 1 or rng.random() < 0.4) else "item"
            n_push += via == "push"
            other = names["p1" if p_ == "p0" else "p0"]
            st = {"act": "call", "what": "relocate", "g": "g0", "p": p_, "rmin": q(a_), "rmin_via": via,
                  "rmin_others": {other: q(b_)}}
            if rng.random() < 0.3:
                steps.append({"act": "grid", "to": "g0", "grid": g0})
            steps.append(st)
        return {"tag": f"hist_conf_rmin_{gt}" + ("_push" if push else ""), "case": "history", "steps": steps}

    def _scale_history(self, case, k):
        f = Fraction(2) ** k
        steps = []
        for st in case["steps"]:
            st = dict(st)
            act = st["act"]
            if act == "grid":
                g = self._scale_grid(st["grid"], f, k)
                if g is None:
                    return None
                st["grid"] = g
            elif act in ("profile", "setattr"):
                if st.get("centre") is not None:
                    st["centre"] = [self._mul(v, f) for v in st["centre"]]
            elif act in ("call", "fault"):
                if "rmin" in st:
                    st["rmin"] = self._mul(st["rmin"], f)
                if k != 0 and "funcs" in st:
                    st["funcs"] = [self._no_constant(fn, k) for fn in st["funcs"]]
                if k != 0 and "func" in st:
                    st["func"] = self._no_constant(st["func"], k)
            elif act == "edit":
                st["val"] = [self._mul(v, f) for v in st["val"]] if isinstance(st["val"], list) else self._mul(st["val"], f)
            elif act == "derive":
                if st["op"] == "pow2":
                    st["op"] = "abs"  # not homogeneous of degree 1
                elif st["op"] in ("add", "sub", "rsub", "wna"):
                    st["val"] = self._mul(st["val"], f)
            steps.append(st)
        return {**case, "steps": steps, "mag": k, "tag": case["tag"] + "_dec"}

    @staticmethod
    def _hist_ok(steps):
        """well-formed: every slot is defined before it is used and at least one call is observed (the
        generator only makes such histories; shrinking must stay inside them)"""
        have = set()
        calls = 0
        for st in steps:
            act = st["act"]
            if act in ("grid", "profile"):
                have.add(st["to"])
            elif act == "conf":
                continue
            elif act in ("derive", "mask_edit"):
                if st["from"] not in have or st.get("p", st["from"]) not in have:
                    return False
                have.add(st["to"])
            else:
                for key in ("g", "p"):
                    if key in st and st[key] not in have:
                        return False
                if act in ("call", "fault") and ("g" not in st or "p" not in st):
                    return False
                calls += act == "call"
                if act == "scribble" or (act == "call" and st.get("fscrib")):
                    # every array of the slot has been overwritten (by the harness / by the user function editing
                    # its argument in place): the slot is dead until it is rebuilt from fresh inputs
                    have.discard(st["g"])
        return calls >= 1

    def _history_cases(self, tier, rng):
        fams = ["edit", "derive", "derive_first", "twin", "fault", "shared", "decoy", "mixed", "maskedit"]
        gts = ["oned", "uniform", "irregular", "oned", "irregular", "uniform", "ndarray"]
        reps = 20 if tier == "quick" else 100
        i = 0
        for _ in range(reps):
            for fam in fams:
                for gt in gts:
                    if fam == "maskedit" and gt not in ("uniform", "oned"):
                        continue
                    c = self._history(rng, fam, gt)
                    i += 1
                    if i % 5 == 0:  # a fifth of the histories at another world magnitude
                        c = self._scale_history(c, rng.choice(self.MAGS))
                    if c is not None and self._hist_ok(c["steps"]):
                        yield c
        # round 5/6: ownership histories (R5-B) and configuration histories (R5-D)
        reps = 12 if tier == "quick" else 60
        for rep in range(reps):
            for gt in ("oned", "uniform", "irregular", "ndarray", "uniform", "irregular", "oned"):
                c = self._history_own(rng, gt)
                i += 1
                if i % 5 == 0:
                    c = self._scale_history(c, rng.choice(self.MAGS))
                if c is not None and self._hist_ok(c["steps"]):
                    yield c
        reps = 10 if tier == "quick" else 50
        j = 0
        for rep in range(reps):
            for gt in ("uniform", "irregular", "uniform", "ndarray", "uniform"):
                # `conf.instance.push` re-reads every configuration file (0.1 s): a few per run — the first history
                # of each kind (so that the first history that meets a stale configuration is one that contains the
                # push itself, and is a self-contained replay), then every 8th (quick) / 5th (thorough)
                push = (rep == 0 and j in (0, 1, 3)) or (rep > 0 and j % (8 if tier == "quick" else 5) == 0)
                j += 1
                c = self._history_conf(rng, gt, push)
                if self._hist_ok(c["steps"]):
                    yield c

    def _decades(self, tier, rng):
        """ordinary cases of every family, each at a world magnitude 2^k; k sweeps -40..27 completely (every
        k occurs for the relocation family in every run), plus relocation cases whose coordinates spread over
        many decades around the minimum"""
        reps = 3 if tier == "quick" else 8
        kinds = ["array", "grid", "vector"]
        for rep in range(reps):
            ks = list(self.MAGS)
            rng.shuffle(ks)
            for i, k in enumerate(ks):
                # relocation: two per magnitude, one of them with extra coordinates on rays at r_min * 2^j
                for spread in (False, True):
                    base = self._relocate_case(rng)
                    if spread and base["grid"]["type"] != "uniform" and "dtype" not in base["grid"]:
                        cy, cx = (Fraction(v) for v in base["centre"])
                        rmin = Fraction(base["rmin"]) or Fraction(1)
                        pts = list(base["grid"]["pts"])
                        for _ in range(rng.randint(1, 3)):
                            a, b, c3 = rng.choice([(3, 4, 5), (5, 12, 13), (8, 15, 17), (0, 1, 1), (1, 0, 1)])
                            r = rmin * Fraction(2) ** rng.randint(-30, 30) * rng.choice([1, Fraction(3, 2), Fraction(5, 4)])
                            sa, sb = rng.choice([1, -1]), rng.choice([1, -1])
                            p = (cy + sa * r * Fraction(a, c3), cx + sb * r * Fraction(b, c3))
                            pts.append([q(Fraction(float(p[0]))), q(Fraction(float(p[1])))])
                        base = {**base, "grid": {**base["grid"], "pts": pts}}
                        if rng.random() < 0.5:
                            # the profile centre at the origin: the tiny radii are then exact doubles
                            base = {**base, "centre": ["0", "0"],
                                    "grid": {**base["grid"], "pts": [
                                        [q(Fraction(float(Fraction(a) - cy))), q(Fraction(float(Fraction(b) - cx)))]
                                        for a, b in pts]}}
                    c = self._scale_case(base, k)
                    if c is not None:
                        yield c
                # dispatch / project / transform: one each per magnitude, types rotating
                gt = ("uniform", "irregular", "oned")[(i + rep) % 3]
                if gt == "uniform":
                    m, mk = gen.random_mask(rng, rng.randint(1, 5), rng.randint(1, 5))
                    grid = self._uniform_grid(rng, m)
                elif gt == "irregular":
                    grid = self._irregular_grid(rng)
                else:
                    grid = self._oned_grid(rng)
                kind = kinds[(i // 3) % 3] if gt != "oned" else kinds[(i // 3) % 2]
                c = self._scale_case(self._dispatch(rng, kind, grid, rng.random() < 0.25, f"disp_{gt}"), k)
                if c is not None:
                    yield c
                gt = ("oned", "uniform", "irregular")[(i + rep) % 3]
                if gt == "uniform":
                    m, mk = gen.random_mask(rng, rng.randint(1, 5), rng.randint(1, 5))
                    grid = self._uniform_grid(rng, m)
                elif gt == "irregular":
                    grid = self._irregular_grid(rng)
                else:
                    grid = self._oned_grid(rng)
                pc = {"tag": f"project_{gt}", "case": "project", "grid": grid,
                      "attrs": rng.choice(["both", "both", "centre_only", "none"]),
                      "centre": [q(gen.dyadic(rng, -2, 2, 2)), q(gen.dyadic(rng, -2, 2, 2))],
                      "angle": q(rng.choice([0, 30, 45, 90, -60, 180, 200, 17, 123, 270, 359])),
                      "func": _funcs(rng, 1, gt == "irregular" and rng.random() < 0.4)[0]}
                c = self._scale_case(pc, k)
                if c is not None:
                    yield c
                if i % 4 == 0:
                    tc = {"tag": "transform", "case": "transform", "depth": rng.randint(1, 3),
                          "flag": rng.random() < 0.3, "explicit_false": False,
                          "centre": [q(gen.dyadic(rng, -3, 3, 2)), q(gen.dyadic(rng, -3, 3, 2))],
                          "pts": self._irregular_grid(rng)["pts"]}
                    yield self._scale_case(tc, k)

    def _relocate_case(self, rng):
        rmin = rng.choice([Fraction(5, 2), Fraction(1), Fraction(1, 4), Fraction(5, 4), Fraction(1, 2 ** 20),
                           Fraction(10), Fraction(0), Fraction(2)])
        centre = (gen.dyadic(rng, -2, 2, 2), gen.dyadic(rng, -2, 2, 2))
        gt = rng.choice(["ndarray", "irregular", "irregular", "uniform"])
        pre = gt != "uniform" and rng.random() < 0.2
        if pre:
            # round 5/6: called with is_transformed=True — the caller's own grid object reaches the decorator and
            # the profile frame is the grid's frame
            centre = (Fraction(0), Fraction(0))
        if gt == "uniform":
            h, w = rng.randint(2, 6), rng.randint(2, 6)
            m, mk = gen.random_mask(rng, h, w)
            grid = self._uniform_grid(rng, m)
            cs = _centres_2d(grid["mask"], [Fraction(v) for v in grid["scales"]],
                             [Fraction(v) for v in grid["origin"]])
            # put the profile centre on a pixel centre (r = 0 occurs) or between pixels
            c0 = rng.choice(cs)
            centre = c0 if rng.random() < 0.6 else (c0[0] + Fraction(1, 8), c0[1] - Fraction(1, 4))
            rmin = rng.choice([Fraction(v) for v in grid["scales"]]) * rng.choice([Fraction(1, 2), 1, 2, Fraction(5, 2)])
            return {"tag": "relocate_uniform", "case": "relocate", "grid": grid, "rmin": q(rmin),
                    "centre": [q(centre[0]), q(centre[1])]}
        pts = []
        n = rng.randint(1, 9)
        for _ in range(n):
            r = rng.random()
            if r < 0.2:
                p = centre  # the centre itself
            elif r < 0.45:  # on a Pythagorean ray at radius rmin·t, t hugging 1
                a, b, c = rng.choice([(3, 4, 5), (5, 12, 13), (8, 15, 17), (0, 1, 1), (1, 0, 1)])
                t = rng.choice([1, 1 - TWO20, 1 + TWO20, Fraction(1, 2), Fraction(3, 4), 2, Fraction(1, 1024)])
                sa, sb = rng.choice([1, -1]), rng.choice([1, -1])
                if rng.random() < 0.5:
                    a, b = b, a
                p = (centre[0] + sa * rmin * t * Fraction(a, c), centre[1] + sb * rmin * t * Fraction(b, c))
                p = (Fraction(float(p[0])), Fraction(float(p[1])))
            elif r < 0.6:  # only one coordinate zero in the profile frame
                d = gen.dyadic(rng, -4, 4, 3) * rmin
                p = (centre[0], centre[1] + d) if rng.random() < 0.5 else (centre[0] + d, centre[1])
                p = (Fraction(float(p[0])), Fraction(float(p[1])))
            else:
                p = (centre[0] + gen.dyadic(rng, -4, 4, 3) * rmin, centre[1] + gen.dyadic(rng, -4, 4, 3) * rmin)
                p = (Fraction(float(p[0])), Fraction(float(p[1])))
            pts.append([q(p[0]), q(p[1])])
        grid = {"type": gt, "pts": pts}
        if rng.random() < 0.25:
            # integer-dtype coordinates (int64 ndarray / int lists), integer centre
            centre = (Fraction(rng.randint(-2, 2)), Fraction(rng.randint(-2, 2)))
            ipts = [[q(int(centre[0]) + rng.randint(-4, 4)), q(int(centre[1]) + rng.randint(-4, 4))] for _ in pts]
            if ipts and rng.random() < 0.5:
                ipts[0] = [q(centre[0]), q(centre[1])]
            grid = {"type": gt, "pts": ipts, "dtype": "int64" if gt == "ndarray" else rng.choice(["int64", "int_list"])}
        elif rng.random() < 0.2:
            grid["dtype"] = rng.choice(["float32", "tuple", "ndarray"]) if gt != "ndarray" else "float32"
            if grid["dtype"] == "float32":
                grid["pts"] = [[q(Fraction(float(np.float32(float(Fraction(a)))))),
                                q(Fraction(float(np.float32(float(Fraction(b))))))] for a, b in pts]
        c = {"tag": f"relocate_{gt}", "case": "relocate",
             "grid": grid, "rmin": q(rmin), "centre": [q(centre[0]), q(centre[1])]}
        if pre:
            c["pre"] = True
            c["centre"] = [q(gen.dyadic(rng, -2, 2, 2)), q(gen.dyadic(rng, -2, 2, 2))]  # (must be ignored)
        return c

    # ------------------------------------------------------------------ round 5/6: always-on large cases
    def _always_large(self, tier, rng):
        """R5-E: sizes beyond 2^16 elements in EVERY run (not only when the anchored source gained a constant):
        one case per size dimension of the property, decorators rotating with the seed; judged by the vectorised
        statement of the property (`_judge_big`), no model comparison"""
        kinds = ["array", "grid", "vector"]
        seed = rng.randrange(1 << 30)
        sc = lambda: [q(v) for v in gen.scales_pair(rng)]
        og = lambda: [q(v) for v in gen.origin_pair(rng)]
        sizes = [2 ** 16 + rng.randint(1, 3000)] + ([2 ** 17 + rng.randint(1, 3000), 46341 + rng.randint(0, 50)]
                                                     if tier == "thorough" else [])
        t = 0
        for n in sizes:
            k0 = rng.randrange(3)
            w = int(math.isqrt(n)) + 3
            h = -(-n // w) + 2
            t += 1
            yield {"tag": "always_large_disp_irregular", "big": True, "case": "dispatch", "kind": kinds[k0],
                   "grid": {"type": "irregular", "gen": {"seed": seed + t, "n": n}}, "list": False,
                   "funcs": self._big_funcs(rng, 1, kinds[k0] != "array")}
            t += 1
            k1 = (k0 + 1) % 3
            yield {"tag": "always_large_disp_uniform", "big": True, "case": "dispatch", "kind": kinds[k1],
                   "grid": {"type": "uniform", "gen": {"seed": seed + t, "h": h, "w": w, "u": n}, "scales": sc(),
                            "origin": og(), "store_native": rng.random() < 0.3},
                   "list": rng.random() < 0.3, "funcs": self._big_funcs(rng, 1, kinds[k1] != "array")}
            t += 1
            k2 = rng.randrange(2)
            yield {"tag": "always_large_disp_oned", "big": True, "case": "dispatch", "kind": kinds[k2],
                   "grid": {"type": "oned", "gen": {"seed": seed + t, "n": n + 5, "u": n}, "scale": q(rng.choice(gen.SCALES)),
                            "origin": q(gen.dyadic(rng, -3, 3, 2)), "store_native": rng.random() < 0.3},
                   "list": False, "funcs": self._big_funcs(rng, 1, kinds[k2] != "array")}
            t += 1
            gt = rng.choice(["irregular", "ndarray"])
            yield {"tag": f"always_large_relocate_{gt}", "big": True, "case": "relocate",
                   "grid": {"type": gt, "gen": {"seed": seed + t, "n": n, "around": True}},
                   "rmin": q(rng.choice([Fraction(5, 4), Fraction(5, 2), Fraction(1)])),
                   "centre": [q(gen.dyadic(rng, -2, 2, 2)), q(gen.dyadic(rng, -2, 2, 2))]}
            t += 1
            yield {"tag": "always_large_project_line", "big": True, "case": "project", "attrs": "both",
                   "angle": q(rng.choice([0, 30, 90, -60, 200, 17])),
                   "centre": [q(gen.dyadic(rng, -2, 2, 2)), q(gen.dyadic(rng, -2, 2, 2))],
                   "func": self._big_funcs(rng, 1, False)[0],
                   "grid": {"type": "uniform", "gen": {"seed": seed + t, "h": 3, "w": 4, "u": 7}, "scales": sc(), "origin": og()},
                   "line_n": n}
            t += 1
            yield {"tag": "always_large_transform", "big": True, "case": "transform", "depth": 1 + t % 3,
                   "flag": False, "explicit_false": False,
                   "centre": [q(gen.dyadic(rng, -3, 3, 2)), q(gen.dyadic(rng, -3, 3, 2))],
                   "grid": {"type": "irregular", "gen": {"seed": seed + t, "n": n}}}

    # ------------------------------------------------------------------ round 5/6: decades, extended
    MAGS_EDGE = [-45, -44, -43, -42, -41] + list(range(28, 46))
    MAGS_EXTREME = [-480, -440, -400, -333, -300, -250, -200, -150, -100, -64, 64, 100, 150, 200, 250, 300, 333,
                    400, 440, 480]  # squares stay inside the double range (2^960 < 2^1023; 2^-960 > 2^-1022)

    def _plain_case(self, rng, fam, i):
        """an ordinary case of one family (grid types rotating with i), linear user functions"""
        kinds = ["array", "grid", "vector"]
        gt = ("uniform", "irregular", "oned")[i % 3]
        if gt == "uniform":
            m, mk = gen.random_mask(rng, rng.randint(1, 5), rng.randint(1, 5))
            if all(all(r) for r in m):
                m[0][0] = False
            grid = self._uniform_grid(rng, m)
        elif gt == "irregular":
            grid = self._irregular_grid(rng)
        else:
            grid = self._oned_grid(rng)
        if fam == "dispatch":
            kind = kinds[(i // 3) % 3] if gt != "oned" else kinds[(i // 3) % 2]
            return self._dispatch(rng, kind, grid, rng.random() < 0.25, f"disp_{gt}")
        if fam == "project":
            return {"tag": f"project_{gt}", "case": "project", "grid": grid,
                    "attrs": rng.choice(["both", "both", "centre_only", "none"]),
                    "centre": [q(gen.dyadic(rng, -2, 2, 2)), q(gen.dyadic(rng, -2, 2, 2))],
                    "angle": q(rng.choice([0, 30, 45, 90, -60, 180, 200, 17, 123, 270, 359])),
                    "func": _funcs(rng, 1, gt == "irregular" and rng.random() < 0.4)[0]}
        if fam == "transform":
            return {"tag": "transform", "case": "transform", "depth": rng.randint(1, 3),
                    "flag": rng.random() < 0.3, "explicit_false": False,
                    "centre": [q(gen.dyadic(rng, -3, 3, 2)), q(gen.dyadic(rng, -3, 3, 2))],
                    "pts": self._irregular_grid(rng)["pts"]}
        while True:
            base = self._relocate_case(rng)
            if "dtype" not in base["grid"]:
                return base

    @staticmethod
    def _linear(fn):
        fn = dict(fn)
        for key in ("cy", "cx"):
            if key in fn:
                c = list(fn[key]) + ["0"] * (6 - len(fn[key]))
                fn[key] = c[:3] + ["0", "0", "0"]
        return fn

    def _translate_case(self, case, ty, tx):
        """the same case in a world translated by the (large, dyadic) offset (ty, tx): grid origin /
        coordinates and the profile centre move together, so every difference the decorators form is the one of
        the base case, while every absolute coordinate is huge — `allclose(centre, origin)`-style shortcuts with a
        relative tolerance see an origin 10^5 offsets away"""
        c = dict(case)
        g = dict(case["grid"]) if "grid" in case else None
        def mv(p):
            return [q(Fraction(float(Fraction(p[0]) + ty))), q(Fraction(float(Fraction(p[1]) + tx)))]
        if g is not None:
            if g["type"] == "uniform":
                g["origin"] = mv(g["origin"])
            elif g["type"] in ("irregular", "ndarray"):
                g["pts"] = [mv(p_) for p_ in g["pts"]]
            else:
                g["origin"] = q(Fraction(g["origin"]) + tx)
            c["grid"] = g
        if "pts" in case and case["case"] == "transform":
            c["pts"] = [mv(p_) for p_ in case["pts"]]
        if "centre" in case:
            c["centre"] = mv(case["centre"])
        if case["case"] == "project":
            c["attrs"] = "both"  # a profile without a centre projects about (0,0): a line of 10^9 points
        if "funcs" in case:
            c["funcs"] = [self._linear(fn) for fn in case["funcs"]]
        if "func" in case:
            c["func"] = self._linear(case["func"])
        c["tag"] = case["tag"] + "_far"
        if g is not None and (g["type"] == "oned" or (case["case"] == "project" and g["type"] == "uniform")):
            # the trigonometric paths (rotation of the 1-D line about 0, of the projected line about the centre)
            # round relative to the magnitude of the absolute coordinates: compare relative to it
            big = max(abs(ty), abs(tx)) if g["type"] == "uniform" else abs(tx)
            c["mag"] = int(math.ceil(math.log2(float(big)))) + 3
        return c

    TIE_FRAMES = [(4, Fraction(1, 2), 2, Fraction(1)), (2, Fraction(3, 2), 4, Fraction(3, 4)),
                  (6, Fraction(1, 4), 2, Fraction(3, 4)), (3, Fraction(1), 2, Fraction(3, 2)),
                  (3, Fraction(2), 4, Fraction(3, 2)), (1, Fraction(3), 4, Fraction(3, 4))]

    def _project_uniform(self, rng, h, w, sy, sx, origin, centre, tag, angle=None):
        m, mk = gen.random_mask(rng, h, w)
        if all(all(r) for r in m):
            m[0][0] = False
        return {"tag": tag, "case": "project",
                "grid": {"type": "uniform", "mask": mask_json(m), "scales": [q(sy), q(sx)],
                         "origin": [q(origin[0]), q(origin[1])]},
                "attrs": "both", "centre": [q(centre[0]), q(centre[1])],
                "angle": q(angle if angle is not None else rng.choice([0, 30, 45, 90, -60, 180, 200, 17, 123, 270])),
                "func": self._linear(_funcs(rng, 1, False)[0])}

    def _near_ties(self, tier, rng):
        """R5-A: nearly-equal / nearly-zero / nearly-integer ingredients, relative difference 2^-18 .. 2^-40 (far
        outside the property's 1e-9 where it matters, inside np.isclose / np.allclose defaults)"""
        js = list(range(18, 41, 2 if tier == "quick" else 1))
        for j in js:
            e = Fraction(1, 2 ** j)
            # 1. the four axis distances of project_grid nearly tie (which pixel scale steps the line)
            h, sy, w, sx = rng.choice(self.TIE_FRAMES)
            A = h * sy / 2
            d = A * e
            dy, dx = rng.choice([(d, 0), (0, d), (d, d), (d, d * (1 + Fraction(1, 1024))), (d * (1 + Fraction(1, 1024)), d),
                                 (-d, d * (1 - Fraction(1, 1024))), (d, -d), (-d * (1 + Fraction(1, 64)), -d)])
            oy, ox = gen.origin_pair(rng)
            yield self._project_uniform(rng, h, w, sy, sx, (oy, ox), (oy + dy, ox + dx), "tie_project_dist")
            # 2. int(distance / pixel_scale) nearly an integer
            h, w = rng.randint(1, 4), rng.randint(1, 4)
            sy, sx = gen.scales_pair(rng)
            K = int((h * sy / 2) / sx) + w + rng.randint(1, 3)
            t = sx * e * rng.choice([1, -1, 1, 0])
            oy, ox = gen.origin_pair(rng)
            yield self._project_uniform(rng, h, w, sy, sx, (oy, ox), (oy, ox + w * sx / 2 - (K * sx - t)),
                                        "tie_project_count")
            # 3. nearly-equal pixel scales
            h, w = rng.randint(1, 5), rng.randint(1, 5)
            sx = rng.choice(gen.SCALES)
            sy = sx * (1 + e * rng.choice([1, -1]))
            if rng.random() < 0.5:
                sy, sx = sx, sy
            oy, ox = gen.origin_pair(rng)
            cy, cx = oy + gen.dyadic(rng, -1, 1, 2), ox + gen.dyadic(rng, -1, 1, 2)
            yield self._project_uniform(rng, h, w, sy, sx, (oy, ox), (cy, cx), "tie_project_scales")
            m, mk = gen.random_mask(rng, h, w)
            if all(all(r) for r in m):
                m[0][0] = False
            g = {"type": "uniform", "mask": mask_json(m), "scales": [q(sy), q(sx)], "origin": [q(oy), q(ox)]}
            yield self._dispatch(rng, rng.choice(["array", "grid", "vector"]), g, False, "tie_disp_scales")
            # 4. radius nearly the radial minimum, on the axes (exact radii), and nearly zero
            rmin = rng.choice([Fraction(5, 2), Fraction(1), Fraction(1, 4), Fraction(2)])
            pts = []
            for sgn in (1, -1):
                r = rmin * (1 + sgn * e)
                pts += [[q(0), q(r)], [q(-r), q(0)]]
            pts += [[q(rmin * e), q(0)], [q(0), q(0)], [q(rmin), q(0)], [q(3 * rmin * e / 5), q(-4 * rmin * e / 5)]]
            rng.shuffle(pts)
            yield {"tag": "tie_relocate", "case": "relocate", "grid": {"type": rng.choice(["irregular", "ndarray"]), "pts": pts},
                   "rmin": q(rmin), "centre": ["0", "0"]}
            # 5. near-duplicate coordinates / nearly-uniform spacing in an irregular grid
            base = [(gen.dyadic(rng, -6, 6, 2) or Fraction(1), gen.dyadic(rng, -6, 6, 2) or Fraction(1)) for _ in range(3)]
            pts = []
            for a, b in base:
                pts += [[q(a), q(b)], [q(a * (1 + e)), q(b)], [q(a), q(b * (1 - e))]]
            yield self._dispatch(rng, rng.choice(["array", "grid", "vector"]), {"type": "irregular", "pts": pts},
                                 rng.random() < 0.2, "tie_disp_irregular")
            # 6. a Grid1D whose x values are nearly equal / nearly zero
            xs = [Fraction(0), e, -e, Fraction(1), 1 + e, 1 - e, 2 * e]
            g1 = {"type": "oned", "bits": "0" * len(xs), "scale": "1", "origin": "0", "ctor": "no_mask", "dtype": "float",
                  "xs": qlist(xs)}
            yield self._dispatch(rng, rng.choice(["array", "grid"]), g1, False, "tie_disp_oned")
        # 7. the profile angle nearly 0 / nearly -90 (so that angle + 90 is nearly 0)
        for j in range(14, 23, 2 if tier == "quick" else 1):
            e = Fraction(1, 2 ** j)
            for ang in (e, -e, -90 + e, -90 - e, 90 + e):
                gt = rng.choice(["uniform", "oned"])
                if gt == "uniform":
                    h, w = rng.randint(1, 4), rng.randint(2, 5)
                    sy, sx = gen.scales_pair(rng)
                    oy, ox = gen.origin_pair(rng)
                    yield self._project_uniform(rng, h, w, sy, sx, (oy, ox), (oy + Fraction(1, 4), ox - Fraction(1, 2)),
                                                "tie_project_angle", angle=ang)
                else:
                    yield {"tag": "tie_project_angle", "case": "project", "grid": self._oned_grid(rng), "attrs": "both",
                           "centre": ["0", "0"], "angle": q(ang), "func": self._linear(_funcs(rng, 1, False)[0])}

    DIRS = [(0, 1, 1), (1, 0, 1), (0, -1, 1), (-1, 0, 1), (1, 1, 1), (1, -1, 1), (-1, 1, 1), (-1, -1, 1),
            (3, 4, 5), (-3, 4, 5), (3, -4, 5), (-3, -4, 5), (4, 3, 5), (-4, -3, 5), (5, -12, 13), (-12, 5, 13),
            (8, 15, 17), (-15, -8, 17), (-7, 24, 25), (24, -7, 25)]

    def _relocate_directions(self, tier, rng):
        """R5-A: coordinates at radii 2^-k, k = 1 .. 60 (4.7e-1 .. 8.7e-19), in EVERY direction about the profile
        centre (axes, diagonals, Pythagorean rays in all four quadrants, so nothing hides on the (+,+) diagonal the
        centre itself is put on), against (i) an O(1) minimum — each must move outward along its own ray to exactly the
        minimum —, (ii) a minimum just above and (iii) just below the radius — moved along the ray resp. handed on
        unchanged.  The oracle judges the direction, not only the radius.  Independent of the seed but for the shuffle."""
        step = 2 if tier == "quick" else 1
        for k in range(1, 61, step):
            r = Fraction(1, 2 ** k)
            for var in range(3 if tier == "quick" else 4):
                rmin = [rng.choice([Fraction(5, 2), Fraction(1), Fraction(1, 4)]), r * rng.choice([2, 4, Fraction(5, 4)]),
                        r * rng.choice([Fraction(1, 2), Fraction(1, 4), Fraction(3, 4)]), r * 2 ** 10][var]
                if (k + var) % 3 == 0 and k <= 40:
                    centre = (gen.dyadic(rng, -2, 2, 2), gen.dyadic(rng, -2, 2, 2))
                else:
                    centre = (Fraction(0), Fraction(0))
                dirs = list(self.DIRS)
                rng.shuffle(dirs)
                pts = []
                for a, b, c3 in dirs[:12]:
                    t = rng.choice([1, 1, Fraction(3, 2), Fraction(3, 4)])
                    p_ = (centre[0] + r * t * Fraction(a, c3), centre[1] + r * t * Fraction(b, c3))
                    pts.append([q(Fraction(float(p_[0]))), q(Fraction(float(p_[1])))])
                if var == 0:
                    pts.insert(rng.randrange(len(pts)), [q(centre[0]), q(centre[1])])
                gt = ("irregular", "ndarray")[(k + var) % 2]
                yield {"tag": "relocate_directions", "case": "relocate", "grid": {"type": gt, "pts": pts},
                       "rmin": q(rmin), "centre": [q(centre[0]), q(centre[1])]}

    def _relocate_extreme(self, tier, rng):
        """R5-E: the radial minimum in worlds of magnitude 2^+-520 .. 2^+-990 — beyond the range where the SQUARE
        of a coordinate is a double.  The decorator itself only divides and multiplies (r_min / r, p * scale), so it
        is exact there; code that starts to square (r**2 < r_min**2, r_min**2 / r**2 ...) is not.  The mock
        profile's own radius function is np.hypot for these cases, the model is asked for the world scaled back."""
        for k in (-990, -800, -600, -520, 520, 600, 800, 990):
            for _ in range(2 if tier == "quick" else 6):
                rmin = rng.choice([Fraction(5, 2), Fraction(1), Fraction(5, 4), Fraction(2)])
                centre = rng.choice([(Fraction(0), Fraction(0)), (gen.dyadic(rng, -2, 2, 2), gen.dyadic(rng, -2, 2, 2))])
                pts = [[q(centre[0]), q(centre[1])]]
                for _ in range(rng.randint(3, 7)):
                    a, b, c3 = rng.choice([(3, 4, 5), (5, 12, 13), (8, 15, 17), (0, 1, 1), (1, 0, 1)])
                    t = rng.choice([1, 1 - TWO20, 1 + TWO20, Fraction(1, 2), Fraction(3, 4), 2, Fraction(1, 8), 3])
                    sa, sb = rng.choice([1, -1]), rng.choice([1, -1])
                    p_ = (centre[0] + sa * rmin * t * Fraction(a, c3), centre[1] + sb * rmin * t * Fraction(b, c3))
                    pts.append([q(Fraction(float(p_[0]))), q(Fraction(float(p_[1])))])
                rng.shuffle(pts)
                base = {"tag": "relocate", "case": "relocate", "grid": {"type": rng.choice(["irregular", "ndarray"]), "pts": pts},
                        "rmin": q(rmin), "centre": [q(centre[0]), q(centre[1])]}
                c = self._scale_case(base, k)
                c["tag"] = "relocate_xxdec"
                c["msc"] = k
                yield c

    def _decades_ext(self, tier, rng):
        """R5-A / R5-E: (a) the whole world at magnitudes beyond the round-4 range (2^-45 .. 2^45 completely) and
        at EXTREME magnitudes (2^+-64 .. 2^+-480: the squares formed by the projection / radius code stay inside
        the double range), (b) ONE ingredient at another magnitude: a tiny radial minimum in an O(1) world, the whole
        world far from the origin, (c) near-ties"""
        fams = ["relocate", "dispatch", "project", "transform"]
        i = 0
        reps = 1 if tier == "quick" else 4
        for _ in range(reps):
            for k in self.MAGS_EDGE + self.MAGS_EXTREME:
                for fam in fams:
                    if fam == "relocate" and abs(k) > 440:
                        continue
                    if fam == "transform" and i % 2 and abs(k) < 64:
                        i += 1
                        continue
                    i += 1
                    c = self._scale_case(self._plain_case(rng, fam, i), k)
                    if c is not None:
                        c["tag"] = c["tag"][:-4] + ("_xdec" if abs(k) >= 64 else "_edec")
                        yield c
            # (b1) tiny radial minimum, O(1) world
            for k in range(-100, -40, 3 if tier == "quick" else 1):
                f = Fraction(2) ** k
                rmin = rng.choice([Fraction(5, 2), Fraction(1), Fraction(5, 4)]) * f
                centre = (Fraction(0), Fraction(0)) if k % 2 else (gen.dyadic(rng, -2, 2, 2), gen.dyadic(rng, -2, 2, 2))
                pts = [[q(centre[0]), q(centre[1])]]
                for _ in range(rng.randint(1, 4)):
                    pts.append([q(centre[0] + gen.dyadic(rng, -4, 4, 3)), q(centre[1] + gen.dyadic(rng, -4, 4, 3))])
                if centre == (0, 0):
                    for t in (Fraction(1, 2), 1 - TWO20, 1, 1 + TWO20, 2, Fraction(1, 2 ** 30)):
                        a, b, c3 = rng.choice([(3, 4, 5), (5, 12, 13), (0, 1, 1), (1, 0, 1)])
                        p_ = (rng.choice([1, -1]) * rmin * t * Fraction(a, c3), rng.choice([1, -1]) * rmin * t * Fraction(b, c3))
                        pts.append([q(Fraction(float(p_[0]))), q(Fraction(float(p_[1])))])
                rng.shuffle(pts)
                yield {"tag": "relocate_tiny_rmin", "case": "relocate",
                       "grid": {"type": rng.choice(["irregular", "ndarray"]), "pts": pts},
                       "rmin": q(rmin), "centre": [q(centre[0]), q(centre[1])]}
            # (b2) the world far from the origin
            for sh in range(14, 31, 2 if tier == "quick" else 1):
                for fam in fams:
                    i += 1
                    ty = rng.choice([-7, -5, -3, -1, 1, 3, 5, 7]) * Fraction(2) ** sh
                    tx = rng.choice([-7, -5, -3, -1, 1, 3, 5, 7]) * Fraction(2) ** rng.randint(14, sh)
                    yield self._translate_case(self._plain_case(rng, fam, i), ty, tx)
        yield from self._near_ties(tier, rng)
        yield from self._relocate_directions(tier, rng)
        yield from self._relocate_extreme(tier, rng)

    # ------------------------------------------------------------------ round 5/6: layout / container variants
    XA = [
        {"mult": "5/2", "add": "-3/4", "how": "pos"},
        {"mult": "-2", "add": "0", "how": "kw"},  # add = 0.0: set but falsy
        {"mult": "3/2", "add": "1/2", "how": "mixed",
         "extra": {"opt_none": None, "opt_zero": 0, "opt_false": False, "opt_str": "", "opt_list": []}},
        {"how": "none", "extra": {"flag": False, "n": 0, "x": 0.0}},
    ]
    RETS = ["F", "T", "strided", "rev", "readonly", "float32", "int64", "struct", "struct_native", "native_junk"]

    def _xa_dispatch(self, i):
        """extra arguments of a call through to_array / to_grid / to_vector_yx: keyword arguments only (these
        wrappers hand `*args` on AFTER keywords to the maker's constructor, so a positional extra argument is a
        TypeError on the unchanged tree; the property does not speak about extra arguments at all — what is checked
        is that keyword arguments, falsy ones included, reach the function and the values follow them)"""
        xa = dict(self.XA[i % len(self.XA)])
        if xa.get("how") in ("pos", "mixed"):
            xa["how"] = "kw"
        return xa

    def _int_world(self, rng, gt):
        """a grid spec and functions with INTEGER values throughout (integer / half-integer coordinates, even
        degree-1 and multiple-of-4 degree-2 coefficients): integer and float32 result dtypes stay exact"""
        if gt == "uniform":
            m, mk = gen.random_mask(rng, rng.randint(1, 5), rng.randint(1, 5))
            if all(all(r) for r in m):
                m[0][0] = False
            g = {"type": "uniform", "mask": mask_json(m), "scales": [q(rng.choice([1, 2])), q(rng.choice([1, 2]))],
                 "origin": [q(rng.randint(-3, 3)), q(rng.randint(-3, 3))]}
        elif gt == "irregular":
            g = {"type": "irregular", "pts": [[q(rng.randint(-6, 6)), q(rng.randint(-6, 6))]
                                              for _ in range(rng.randint(1, 7))]}
        else:
            n = rng.randint(1, 7)
            bits = "".join("1" if rng.random() < 0.3 else "0" for _ in range(n))
            if "0" not in bits:
                bits = "0" + bits[1:]
            g = {"type": "oned", "bits": bits, "scale": q(rng.choice([2, 4])), "origin": q(rng.randint(8, 12) * 2 + n)}
        return g

    def _int_funcs(self, rng, n, pair):
        out = []
        for _ in range(n):
            def coeffs():
                c = [rng.randint(-3, 3), 2 * rng.choice([-2, -1, 1, 2]), 2 * rng.choice([-3, -1, 2, 3])]
                c += [4 * rng.randint(-1, 1) for _ in range(3)] if rng.random() < 0.5 else [0, 0, 0]
                if c[1] == c[2]:
                    c[2] += 2
                return qlist([Fraction(v) for v in c])
            fn = {"mode": rng.choice(["poly", "index", "prefix"]), "cy": coeffs()}
            if pair:
                fn["cx"] = coeffs()
            out.append(fn)
        return out

    def _layout_variants(self, gt):
        """(ctor / storage keys, lay) variants of one grid type — enumerated, independent of the seed"""
        out = []
        if gt == "uniform":
            for m in ("F", "T", "strided", "rev", "readonly", "list", "int", "int_list"):
                out.append(({}, {"m": m}))
            out += [({}, {"minv": True}), ({}, {"minv": True, "m": "F"}), ({}, {"mwrap": True}),
                    ({}, {"mwrap": True, "m": "list"}), ({}, {"ps": "scalar"}), ({}, {"origin": "default"}),
                    ({}, {"falsy": True}), ({"store_native": True}, {"m": "T"})]
            for v in ("F", "T", "strided", "rev", "readonly", "list"):
                out.append(({"ctor": "manual"}, {"v": v}))
                out.append(({"ctor": "manual", "manual_native_input": True, "store_native": v in ("T", "list")},
                            {"v": v, "vjunk": v in ("F", "strided", "list")}))
            out.append(({"ctor": "manual", "store_native": True}, {"v": "F", "m": "F"}))
        elif gt == "irregular":
            for v in ("F", "T", "strided", "rev", "readonly", "yx_1d"):
                out.append(({}, {"v": v}))
            out += [({"dtype": "float32"}, {"v": "F"}), ({"dtype": "int64"}, {"v": "strided"}),
                    ({"dtype": "tuple"}, {}), ({"dtype": "wrapped"}, {})]
        elif gt == "ndarray":
            for v in ("F", "T", "strided", "rev", "readonly"):
                out.append(({}, {"v": v}))
            out += [({"dtype": "float32"}, {"v": "F"}), ({"dtype": "float32"}, {"v": "strided"}),
                    ({"dtype": "int64"}, {"v": "T"})]
        else:
            for m in ("strided", "rev", "readonly", "list", "int", "int_list"):
                out.append(({}, {"m": m}))
            out += [({}, {"minv": True}), ({}, {"mwrap": True}), ({}, {"ps": "tuple"}), ({}, {"origin": "default"}),
                    ({}, {"falsy": True}), ({"store_native": True}, {"m": "strided"})]
            for v in ("strided", "rev", "readonly", "list"):
                out.append(({"ctor": "manual"}, {"v": v}))
                out.append(({"ctor": "manual", "manual_native_input": True, "store_native": v in ("rev", "list")},
                            {"v": v, "vjunk": True}))
        return out

    def _apply_variant(self, g, keys, lay):
        """the grid spec `g` through the variant; specs the variant needs are made to fit (equal scales for a
        scalar pixel scale, a (0,0) origin for an omitted origin argument)"""
        g = {**g, **keys}
        lay = dict(lay)
        if lay.get("minv") and lay.get("m") in ("int", "int_list"):
            # `invert` is documented for the bools of the mask (an integer array is inverted bitwise)
            lay.pop("m")
        if g["type"] == "uniform":
            if lay.get("ps") == "scalar":
                g["scales"] = [g["scales"][0], g["scales"][0]]
            if lay.get("origin") == "default":
                g["origin"] = ["0", "0"]
        elif g["type"] == "oned":
            if lay.get("origin") == "default":
                g["origin"] = "0"
        if lay:
            g["lay"] = lay
        return g

    def _layouts(self, tier, rng):
        """R5-C: every array-taking entry point of the property — the mask array, the coordinate arrays of the
        grid constructors, the ndarray handed to the radial-minimum decorator, the array the USER FUNCTION
        returns — with equal values in other layouts / containers / dtypes"""
        kinds = ["array", "grid", "vector"]
        i = 0
        reps = 1 if tier == "quick" else 4
        for _ in range(reps):
            # 1. input layouts through the dispatch decorators, project_grid and the radial minimum
            for gt in ("uniform", "irregular", "oned"):
                for keys, lay in self._layout_variants(gt):
                    if gt == "uniform":
                        m, mk = gen.random_mask(rng, rng.randint(1, 5), rng.randint(1, 5))
                        if all(all(r) for r in m):
                            m[0][0] = False
                        base = self._uniform_grid(rng, m)
                    elif gt == "irregular":
                        base = self._irregular_grid(rng, rng.randint(1, 7))
                        if keys.get("dtype") == "int64":
                            base["pts"] = [[q(rng.randint(-9, 9)), q(rng.randint(-9, 9))] for _ in base["pts"]]
                        elif keys.get("dtype") == "float32":
                            base["pts"] = [[q(gen.dyadic(rng, -6, 6, 2)), q(gen.dyadic(rng, -6, 6, 2))] for _ in base["pts"]]
                    else:
                        base = self._oned_grid(rng)
                    g = self._apply_variant(base, keys, lay)
                    kind = kinds[i % 3] if gt != "oned" else kinds[i % 2]
                    i += 1
                    yield self._dispatch(rng, kind, g, i % 4 == 0, f"lay_disp_{gt}")
                    if i % 2 == 0:
                        pair = gt == "irregular" and i % 4 == 0
                        yield {"tag": f"lay_project_{gt}", "case": "project", "grid": g, "attrs": "both",
                               "centre": [q(gen.dyadic(rng, -2, 2, 2)), q(gen.dyadic(rng, -2, 2, 2))],
                               "angle": q(rng.choice([0, 30, 45, 90, -60, 180, 200, 17, 123, 270, 359])),
                               "func": _funcs(rng, 1, pair)[0]}
            for gt in ("ndarray", "irregular", "uniform"):
                for keys, lay in self._layout_variants(gt):
                    if keys.get("store_native") or keys.get("dtype") in ("tuple", "wrapped"):
                        continue
                    while True:
                        base = self._relocate_case(rng)
                        if base["grid"]["type"] == gt and "dtype" not in base["grid"]:
                            break
                    g = dict(base["grid"])
                    if keys.get("dtype") == "float32":
                        g["pts"] = [[q(Fraction(float(np.float32(float(Fraction(a)))))),
                                     q(Fraction(float(np.float32(float(Fraction(b))))))] for a, b in g["pts"]]
                    elif keys.get("dtype") == "int64":
                        cy, cx = rng.randint(-2, 2), rng.randint(-2, 2)
                        g["pts"] = [[q(cy + rng.randint(-4, 4)), q(cx + rng.randint(-4, 4))] for _ in g["pts"]]
                        base = {**base, "centre": [q(cy), q(cx)]}
                    if gt == "uniform" and (lay.get("ps") or lay.get("origin")):
                        continue  # the centre / minimum of the base case were chosen for its scales and origin
                    yield {**base, "grid": self._apply_variant(g, keys, lay), "tag": f"lay_relocate_{gt}"}
            # 2. the form the user function returns its values in
            for gt in ("uniform", "irregular", "oned"):
                for ret in self.RETS + ["list_elem"]:
                    for kind in (kinds if gt != "oned" else kinds[:2]):
                        is_list = ret == "list_elem" or i % 3 == 0
                        i += 1
                        if ret in ("float32", "int64"):
                            g = self._int_world(rng, gt)
                            c = self._dispatch(rng, kind, g, is_list, f"ret_{gt}")
                            c["funcs"] = self._int_funcs(rng, len(c["funcs"]), kind != "array")
                        else:
                            if gt == "uniform":
                                m, mk = gen.random_mask(rng, rng.randint(1, 5), rng.randint(1, 5))
                                if all(all(r) for r in m):
                                    m[0][0] = False
                                g = self._uniform_grid(rng, m)
                                if i % 5 == 0:
                                    g["store_native"] = True
                            elif gt == "irregular":
                                g = self._irregular_grid(rng, rng.randint(1, 7))
                            else:
                                g = self._oned_grid(rng)
                            c = self._dispatch(rng, kind, g, is_list, f"ret_{gt}")
                        if not c["funcs"]:
                            continue
                        c["ret"] = ret
                        yield c
            for ret in ("F", "T", "strided", "rev", "readonly", "float32"):
                for gt in ("uniform", "irregular", "oned"):
                    g = self._int_world(rng, gt) if ret == "float32" else (
                        self._uniform_grid(rng, gen.random_mask(rng, rng.randint(1, 4), rng.randint(1, 4))[0])
                        if gt == "uniform" else self._irregular_grid(rng) if gt == "irregular" else self._oned_grid(rng))
                    pair = gt == "irregular" and ret in ("F", "T", "strided")
                    fn = (self._int_funcs if ret == "float32" else lambda r, n, p_: _funcs(r, n, p_))(rng, 1, pair)[0]
                    yield {"tag": f"ret_project_{gt}", "case": "project", "grid": g, "attrs": "both",
                           "centre": [q(rng.randint(-2, 2)), q(rng.randint(-2, 2))],
                           "angle": q(rng.choice([0, 30, 90, -60, 200, 17])), "func": fn, "ret": ret}

    # ------------------------------------------------------------------ round 5/6: options crossed pairwise
    def _option_table(self, gt):
        """option -> non-default values ("set but falsy" ones included), for the constructors of the grid type
        and for the decorated call; checked against the real signatures at generation time"""
        call = {"list": [True], "ret": ["struct_native", "native_junk", "T"], "xa": [0, 1, 2, 3],
                "kind": ["grid", "vector"] if gt != "oned" else ["grid"]}
        if gt == "uniform":
            return {"store_native": [True], "ctor": ["manual", "manual_native"],
                    "over_sampling": ["uniform2", "iterate", None], "over_sampling_non_uniform": ["uniform1"],
                    "mask": ["F", "strided", "list", "int"], "invert": [True, False], "mask_from_mask": [True],
                    "pixel_scales": ["scalar"], "origin": ["default"],
                    "values": ["T", "readonly", "list"], **call}
        if gt == "irregular":
            return {"dtype": ["float32", "int64", "int_list", "tuple", "wrapped"],
                    "values": ["F", "T", "strided", "readonly", "yx_1d"], **call}
        return {"store_native": [True], "ctor": ["manual", "manual_native"],
                "mask": ["strided", "list", "int"], "invert": [True, False], "mask_from_mask": [True],
                "pixel_scales": ["tuple"], "origin": ["default"], "values": ["rev", "readonly", "list"], **call}

    _SIG_OK = None

    def _signature_check(self):
        """the option table names the parameters the constructors really have (inspect.signature): a renamed or
        new parameter is reported once in the run log, never as a violation"""
        if C17._SIG_OK is not None:
            return C17._SIG_OK
        import inspect

        aa = load_autoarray()
        known = {"values", "mask", "store_native", "over_sampling", "over_sampling_non_uniform", "pixel_scales",
                 "origin", "invert", "self", "args", "kwargs", "shape_native"}
        new = []
        for cls in (aa.Grid2D, aa.Grid2DIrregular, aa.Grid1D, aa.Mask2D, aa.Mask1D):
            for fn in (cls.__init__, getattr(cls, "from_mask", None), getattr(cls, "uniform", None),
                       getattr(cls, "no_mask", None)):
                if fn is None:
                    continue
                for name in inspect.signature(fn).parameters:
                    if name not in known:
                        new.append(f"{cls.__name__}.{getattr(fn, '__name__', '?')}({name})")
        C17._SIG_OK = new
        return new

    def _apply_option(self, c, opt, val, rng):
        """one option value applied to a dispatch case (returns the new case)"""
        g = dict(c["grid"])
        lay = dict(g.get("lay") or {})
        if opt == "list":
            c = {**c, "list": True, "funcs": c["funcs"] + _funcs(rng, 1, c["kind"] != "array")}
        elif opt == "ret":
            c = {**c, "ret": val}
        elif opt == "xa":
            c = {**c, "xa": self._xa_dispatch(val)}
        elif opt == "kind":
            pair_before = c["kind"] != "array"
            c = {**c, "kind": val}
            if not pair_before:
                c["funcs"] = [{**fn, "cx": _funcs(rng, 1, True)[0]["cx"]} for fn in c["funcs"]]
        elif opt == "store_native":
            g["store_native"] = True
        elif opt == "ctor":
            g["ctor"] = "manual"
            g["manual_native_input"] = val == "manual_native"
        elif opt == "over_sampling":
            lay["os"] = val
        elif opt == "over_sampling_non_uniform":
            lay["osn"] = val
            g.setdefault("ctor", "manual")
        elif opt == "mask":
            lay["m"] = val
        elif opt == "invert":
            if val:
                lay["minv"] = True
            else:
                lay["falsy"] = True
        elif opt == "mask_from_mask":
            lay["mwrap"] = True
        elif opt == "pixel_scales":
            lay["ps"] = val
        elif opt == "origin":
            lay["origin"] = "default"
        elif opt == "values":
            lay["v"] = val
            if g["type"] != "irregular":
                g.setdefault("ctor", "manual")
        elif opt == "dtype":
            g["dtype"] = val
            if val in ("int64", "int_list"):
                g["pts"] = [[q(int(Fraction(a))), q(int(Fraction(b)))] for a, b in g["pts"]]
            elif val == "float32":
                g["pts"] = [[q(Fraction(float(np.float32(float(Fraction(a)))))),
                             q(Fraction(float(np.float32(float(Fraction(b))))))] for a, b in g["pts"]]
        if "os" in lay and g.get("ctor") in (None, "from_mask", "manual"):
            pass
        g = self._apply_variant(g, {}, lay)
        if g["type"] == "uniform" and g.get("ctor") == "manual" and g.get("store_native") is None:
            g["store_native"] = False
        return {**c, "grid": g}

    def _options_pairwise(self, tier, rng):
        """R5-F: every non-default value of one option with every non-default value of every other option"""
        self._signature_check()
        for gt in ("uniform", "irregular", "oned"):
            table = self._option_table(gt)
            names = sorted(table)
            pairs = [(a, va, b, vb) for i, a in enumerate(names) for b in names[i + 1:]
                     for va in table[a] for vb in table[b]]
            if tier == "quick":
                # a seed-dependent half of the pairs per run (every pair within two seeds)
                off = rng.randrange(2)
                pairs = [p_ for j, p_ in enumerate(pairs) if (j + off) % 2 == 0]
            for a, va, b, vb in pairs:
                if gt == "uniform":
                    m, mk = gen.random_mask(rng, rng.randint(1, 4), rng.randint(1, 4))
                    if all(all(r) for r in m):
                        m[0][0] = False
                    g = self._uniform_grid(rng, m)
                elif gt == "irregular":
                    g = self._irregular_grid(rng, rng.randint(1, 6))
                else:
                    g = self._oned_grid(rng)
                c = self._dispatch(rng, "array", g, False, f"opt_{gt}")
                for opt, val in sorted([(a, va), (b, vb)], key=lambda t: t[0] in ("ret", "xa", "list", "kind")):
                    c = self._apply_option(c, opt, val, rng)
                if c["grid"]["type"] == "oned" and c["kind"] == "vector":
                    continue
                if c.get("ret") == "native_junk" and c["grid"]["type"] == "irregular":
                    c["ret"] = "struct"
                c["opts"] = [[a, va], [b, vb]]
                yield c

    # ------------------------------------------------------------------ implementation
    def _over_sampling(self, aa, how):
        if how == "uniform2":
            return aa.OverSamplingUniform(sub_size=2)
        if how == "uniform1":
            return aa.OverSamplingUniform(sub_size=1)
        if how == "iterate":
            return aa.OverSamplingIterate(fractional_accuracy=0.5, sub_steps=[2])
        return None

    def _make_mask2d(self, aa, m, scales, origin, lay):
        """`Mask2D` of the bool array `m` through the constructor variant `lay` (round 5/6, R5-C / R5-F):
        m: memory layout / container / dtype of the mask array; minv: the inverted array with `invert=True`;
        ps: "scalar" (a float instead of a pair, only when both scales are equal); origin: "default" (argument
        omitted, only for a (0,0) origin); mwrap: built from ANOTHER Mask2D (one with other pixel scales and
        another origin), all attributes given explicitly"""
        marr = _layout(~m if lay.get("minv") else m, lay.get("m"))
        self._inputs.append(marr)
        kw = {"pixel_scales": scales, "origin": origin}
        if lay.get("ps") == "scalar" and scales[0] == scales[1]:
            kw["pixel_scales"] = scales[0]
        if lay.get("origin") == "default" and tuple(origin) == (0.0, 0.0):
            kw.pop("origin")
        if lay.get("minv"):
            kw["invert"] = True
        elif lay.get("falsy"):
            kw["invert"] = False
        if lay.get("mwrap"):
            inner = aa.Mask2D(mask=marr, pixel_scales=(scales[0] * 2.0, scales[1] * 0.5),
                              origin=(origin[0] + 1.5, origin[1] - 0.25), invert=bool(lay.get("minv")))
            kw.pop("invert", None)
            return aa.Mask2D(mask=inner, **kw)
        return aa.Mask2D(mask=marr, **kw)

    def _make_mask1d(self, aa, mask, scale, origin, lay):
        marr = _layout(~mask if lay.get("minv") else mask, lay.get("m"))
        self._inputs.append(marr)
        kw = {"pixel_scales": scale, "origin": origin}
        if lay.get("ps") == "tuple":
            kw["pixel_scales"] = (scale,)
        if lay.get("origin") == "default" and tuple(origin) == (0.0,):
            kw.pop("origin")
        if lay.get("minv"):
            kw["invert"] = True
        elif lay.get("falsy"):
            kw["invert"] = False
        if lay.get("mwrap"):
            inner = aa.Mask1D(mask=marr, pixel_scales=scale * 2.0, origin=(origin[0] + 1.5,),
                              invert=bool(lay.get("minv")))
            kw.pop("invert", None)
            return aa.Mask1D(mask=inner, **kw)
        return aa.Mask1D(mask=marr, **kw)

    _inputs = []

    def _make_grid(self, aa, g):
        """the grid object of a grid spec.  `g["lay"]` (round 5/6): layout / container / option variants of the
        arrays handed to the constructors — equal values, so the same mathematical grid.  The arrays handed to
        the constructors are collected in `self._inputs` (ownership histories scribble over them)."""
        self._inputs = []
        lay = g.get("lay") or {}
        osamp = self._over_sampling(aa, lay.get("os"))
        okw = {"over_sampling": osamp} if ("os" in lay) else {}
        if g["type"] == "uniform":
            h, w = g["mask"]["h"], g["mask"]["w"]
            m = np.array([c == "1" for c in g["mask"]["bits"]], dtype=bool).reshape(h, w)
            scales = tuple(float(Fraction(v)) for v in g["scales"])
            origin = tuple(float(Fraction(v)) for v in g["origin"])
            mask = self._make_mask2d(aa, m, scales, origin, lay)
            ctor = g.get("ctor", "from_mask")
            if ctor == "uniform":
                ukw = dict(okw)
                if not (lay.get("origin") == "default" and origin == (0.0, 0.0)):
                    ukw["origin"] = origin
                grid = aa.Grid2D.uniform(shape_native=(h, w), pixel_scales=(
                    scales[0] if lay.get("ps") == "scalar" and scales[0] == scales[1] else scales), **ukw)
            elif ctor == "no_mask":
                vals = _conv(g["coords"], g.get("dtype", "float"))
                if isinstance(vals, np.ndarray):
                    vals = vals.reshape(h, w, 2)
                    if lay.get("v"):
                        vals = _layout(vals, lay["v"])
                elif isinstance(vals, list):
                    vals = [vals[y * w:(y + 1) * w] for y in range(h)]
                self._inputs.append(vals)
                grid = aa.Grid2D.no_mask(values=vals, pixel_scales=scales, origin=origin, **okw)
            elif ctor == "manual":
                base = aa.Grid2D.from_mask(mask=mask)
                src = base.native if g.get("manual_native_input") else base
                vals = np.array(src.array)
                if g.get("manual_native_input") and lay.get("vjunk"):
                    vals[np.asarray(mask)] = 9.75  # junk at masked pixels of a native input: must be ignored
                vals = _layout(vals, lay.get("v"))
                self._inputs.append(vals)
                mkw = dict(okw)
                if "osn" in lay:
                    mkw["over_sampling_non_uniform"] = self._over_sampling(aa, lay["osn"])
                if g.get("store_native") or lay.get("falsy"):
                    mkw["store_native"] = bool(g.get("store_native"))
                grid = aa.Grid2D(values=vals, mask=mask, **mkw)
            else:
                grid = aa.Grid2D.from_mask(mask=mask, **okw)
            if g.get("store_native") and ctor != "manual":
                grid = grid.native
            return grid
        if g["type"] == "irregular":
            dt = g.get("dtype", "float")
            if dt == "wrapped":
                return aa.Grid2DIrregular(values=aa.Grid2DIrregular(values=_conv(g["pts"], "float")))
            if lay.get("v") == "yx_1d":
                arr = np.array(_conv(g["pts"], "ndarray"), dtype="float64").reshape(-1, 2)
                y, x = _layout(arr[:, 0], "strided"), _layout(arr[:, 1], "rev")
                self._inputs += [y, x]
                return aa.Grid2DIrregular.from_yx_1d(y=y, x=x)
            vals = _conv(g["pts"], dt)
            if lay.get("v"):
                arr = np.array(vals).reshape(-1, 2)
                vals = _layout(arr, lay["v"])
            self._inputs.append(vals)
            return aa.Grid2DIrregular(values=vals)
        if g["type"] == "ndarray":
            dt = g.get("dtype", "ndarray")
            arr = np.array(_conv(g["pts"], dt if dt in ("int64", "float32") else "ndarray"))
            if lay.get("v"):
                arr = _layout(arr.reshape(-1, 2), lay["v"])
            self._inputs.append(arr)
            return arr
        mask = np.array([c == "1" for c in g["bits"]], dtype=bool)
        scale = float(Fraction(g["scale"]))
        origin = (float(Fraction(g["origin"])),)
        m1 = self._make_mask1d(aa, mask, scale, origin, lay)
        ctor = g.get("ctor", "from_mask")
        if ctor == "uniform":
            grid = aa.Grid1D.uniform(shape_native=(len(mask),), pixel_scales=scale, origin=origin)
        elif ctor == "uniform_from_zero":
            grid = aa.Grid1D.uniform_from_zero(shape_native=(len(mask),), pixel_scales=scale)
        elif ctor == "no_mask":
            vals = _conv(g["xs"], g.get("dtype", "float"))
            if lay.get("v") and isinstance(vals, np.ndarray):
                vals = _layout(vals, lay["v"])
            self._inputs.append(vals)
            grid = aa.Grid1D.no_mask(values=vals, pixel_scales=scale, origin=origin)
        elif ctor == "manual":
            base = aa.Grid1D.from_mask(mask=m1)
            src = base.native if g.get("manual_native_input") else base
            vals = np.array(src.array)
            if g.get("manual_native_input") and lay.get("vjunk"):
                vals[mask] = 9.75
            vals = _layout(vals, lay.get("v"))
            self._inputs.append(vals)
            mkw = {}
            if g.get("store_native") or lay.get("falsy"):
                mkw["store_native"] = bool(g.get("store_native"))
            return aa.Grid1D(values=vals, mask=m1, **mkw)
        else:
            grid = aa.Grid1D.from_mask(mask=m1)
        if g.get("store_native"):
            grid = grid.native
        return grid

    @staticmethod
    def _in_pts(grid):
        """the coordinates of the grid object handed to the decorated call (an INPUT of the decorator):
        exact values of the doubles it holds.  For a Grid1D: its slim x values."""
        a = _slim_np(grid)
        if a.ndim == 1:
            return qlist(a)
        return [qlist(p) for p in a.reshape(-1, 2)]

    @staticmethod
    def _in_mask(grid):
        """pixel scales and origin of the input grid's own mask (what the container must carry over)"""
        mk = getattr(grid, "mask", None)
        if mk is None or not hasattr(mk, "pixel_scales"):
            return None
        return {"scales": qlist(mk.pixel_scales), "origin": qlist(mk.origin)}

    def _grid_pts(self, g, obs=None):
        """the coordinates of the case's grid as Fractions: those of the actual grid object when the
        observation carries them (pixel centres computed by the code need not be the exact rationals of
        the formula — that is property C02's subject), else the harness-side formula"""
        if isinstance(obs, dict) and "_in_pts" in obs:
            ip = obs["_in_pts"]
            if g["type"] == "oned":
                return [Fraction(x) for x in ip]
            return [(Fraction(a), Fraction(b)) for a, b in ip]
        if g["type"] == "uniform":
            return _centres_2d(g["mask"], [Fraction(v) for v in g["scales"]], [Fraction(v) for v in g["origin"]])
        if g["type"] in ("irregular", "ndarray"):
            return [(Fraction(a), Fraction(b)) for a, b in g["pts"]]
        return _centres_1d(g["bits"], Fraction(g["scale"]), Fraction(g["origin"]))

    def _profile_for(self, aa, case):
        """the mock profile object of an ordinary (single-call) case"""
        mocks = _mocks(aa)
        kind = case["case"]
        if kind == "dispatch":
            return mocks["dispatch"](funcs=case["funcs"], is_list=case["list"], pair=case["kind"] != "array",
                                     centre=(0.0, 0.0))
        if kind == "project":
            attrs = case["attrs"]
            centre = tuple(float(Fraction(v)) for v in case["centre"])
            angle = float(Fraction(case["angle"]))
            pair = "cx" in case["func"]
            if attrs == "missing":
                return mocks["noattrs"](funcs=[case["func"]], pair=pair)
            if attrs == "none":
                obj = mocks["dispatch"](funcs=[case["func"]], pair=pair)
                obj.centre = None
                obj.angle = None
                return obj
            if attrs == "centre_only":
                obj = mocks["dispatch"](funcs=[case["func"]], pair=pair, centre=centre)
                obj.angle = None
                return obj
            return mocks["dispatch"](funcs=[case["func"]], pair=pair, centre=centre, angle=angle)
        return mocks["radial"](centre=tuple(float(Fraction(v)) for v in case["centre"]))

    # ---- round 5/6 (R5-F): extra arguments of the user function, handed through the decorators
    @staticmethod
    def _xa_call(xa):
        """(positional, keyword) extra arguments of a decorated call.  xa = {"mult", "add", "how": pos | kw |
        mixed | none, "extra": {...}}: value = mult * phi + add; `extra` are further keyword arguments ("set but
        falsy" values among them) that must reach the function as given."""
        if not xa:
            return (), {}
        mult, add = float(Fraction(xa.get("mult", "1"))), float(Fraction(xa.get("add", "0")))
        how = xa.get("how", "pos")
        if how == "pos":
            pargs, kw = (mult, add), {}
        elif how == "kw":
            pargs, kw = (), {"mult": mult, "add": add}
        elif how == "mixed":
            pargs, kw = (mult,), {"add": add}
        else:
            pargs, kw = (), {}
        for k, v in (xa.get("extra") or {}).items():
            kw[k] = v
        return pargs, kw

    @staticmethod
    def _xa_received(got, pargs, kw):
        """did the user function receive exactly the extra arguments of the call (values and types)"""
        if got is None:
            return False
        def canon(v):
            return (type(v).__name__, v)
        gargs, gkw = got
        return [canon(v) for v in gargs] == [canon(v) for v in pargs] and \
            {k: canon(v) for k, v in gkw.items()} == {k: canon(v) for k, v in kw.items()}

    @staticmethod
    def _xa_funcs(funcs, xa):
        """the functions with the extra arguments folded in (what the model and the oracle evaluate)"""
        if not xa or xa.get("how") == "none":
            return funcs
        return [_eff_func(fn, Fraction(xa.get("mult", "1")), Fraction(xa.get("add", "0"))) for fn in funcs]

    # ---- round 5/6 (R5-D): configuration values the anchored code reads, put in force / restored
    _conf_dirs = {}
    _conf_root = None

    def _conf_dir(self, rpc, rmins):
        """a configuration directory holding the given values (created once per value set)"""
        import atexit, os, shutil, tempfile

        if C17._conf_root is None or not os.path.isdir(C17._conf_root):
            C17._conf_root = tempfile.mkdtemp(prefix="verif_c17_conf_")
            atexit.register(shutil.rmtree, C17._conf_root, ignore_errors=True)
            C17._conf_dirs = {}
        key = (rpc, tuple(sorted((rmins or {}).items())))
        d = C17._conf_dirs.get(key)
        if d is None:
            d = os.path.join(C17._conf_root, f"c{len(C17._conf_dirs)}")
            os.makedirs(d)
            if rpc is not None:
                with open(os.path.join(d, "general.yaml"), "w") as f:
                    f.write(f"grid:\n  remove_projected_centre: {str(bool(rpc)).lower()}\n")
            if rmins:
                with open(os.path.join(d, "grids.yaml"), "w") as f:
                    f.write("radial_minimum:\n  radial_minimum:\n")
                    for k, v in sorted(rmins.items()):
                        f.write(f"    {k}: {float(v)!r}\n")
            C17._conf_dirs[key] = d
        return d

    class _ConfState:
        """the configuration as the harness pinned it; `restore` brings it back (also after exceptions)"""

        def __init__(self):
            from autoconf import conf

            self.conf = conf
            self.configs = list(conf.instance.configs)
            self.pushed = False
            self.rpc = conf.instance["general"]["grid"]["remove_projected_centre"]
            self.tbl = dict(conf.instance["grids"]["radial_minimum"]["radial_minimum"])

        def restore(self):
            inst = self.conf.instance
            if self.pushed:
                inst.configs = list(self.configs)  # the setter invalidates the merged dictionary
                self.pushed = False
            inst["general"]["grid"]["remove_projected_centre"] = self.rpc
            tbl = inst["grids"]["radial_minimum"]["radial_minimum"]
            for k in list(tbl.keys()):
                if k not in self.tbl:
                    del tbl[k]
            for k, v in self.tbl.items():
                tbl[k] = v

    def _conf_set(self, state, rpc=None, rmins=None, via="item"):
        """put configuration values in force: by item assignment on the live configuration, or by pushing a
        configuration directory (`conf.instance.push` rebuilds the merged dictionary: every section object
        handed out before is stale afterwards)"""
        inst = state.conf.instance
        if via == "push":
            inst.configs = list(state.configs)
            inst.push(new_path=self._conf_dir(rpc, rmins))
            state.pushed = True
        else:
            if rpc is not None:
                inst["general"]["grid"]["remove_projected_centre"] = bool(rpc)
            for k, v in (rmins or {}).items():
                inst["grids"]["radial_minimum"]["radial_minimum"][k] = float(v)
        if rpc is not None and bool(inst["general"]["grid"]["remove_projected_centre"]) != bool(rpc):
            raise RuntimeError("harness: remove_projected_centre not in force after _conf_set")
        for k, v in (rmins or {}).items():
            if inst["grids"]["radial_minimum"]["radial_minimum"][k] != float(v):
                raise RuntimeError("harness: radial minimum not in force after _conf_set")

    def _rmin_in_force(self, cname, rmin, via="item", others=None):
        """context: the radial minimum `rmin` configured for the profile class `cname` (and `others`: further
        class names with OTHER values, decoys) during one decorated call; the pinned configuration afterwards"""
        import contextlib

        @contextlib.contextmanager
        def cm():
            state = self._ConfState()
            try:
                rm = {cname: rmin}
                for k, v in (others or {}).items():
                    if k != cname:
                        rm[k] = float(Fraction(v))
                self._conf_set(state, rmins=rm, via=via)
                yield
            finally:
                state.restore()
        return cm()

    def _observe(self, aa, case, obj, grid, in_pts=None, in_mask=None):
        """ONE decorated call of `case` on the given (possibly reused) profile object and grid object.
        `in_pts` / `in_mask`: the coordinates / mask attributes the grid is known to hold (history stream: the
        harness's own shadow copy, so that a stale derived view of a reused object cannot leak into the
        expectation); default: read from the grid object."""
        kind = case["case"]
        obj.seen = []
        obj.seen_objs = []
        obj.got = None
        obj.ret = case.get("ret")
        obj.fscrib = bool(case.get("fscrib"))
        obj.ret_mask = None
        self._last_result = None
        if hasattr(obj, "n_transforms"):
            obj.n_transforms = 0
        ipts = in_pts if in_pts is not None else self._in_pts(grid)
        pargs, pkw = self._xa_call(case.get("xa"))
        if kind == "dispatch":
            obj.funcs, obj.is_list, obj.pair = case["funcs"], case["list"], case["kind"] != "array"
            if case["grid"]["type"] == "oned":
                obj.ret_mask = np.array([c == "1" for c in case["grid"]["bits"]], dtype=bool)
            if case.get("drop_last"):
                base_eval = type(obj)._evaluate
                obj._evaluate = lambda g, *a, **k: base_eval(obj, g, *a, **k)[:-1]
            meth = {"array": obj.array_from, "grid": obj.grid_from, "vector": obj.vector_from}[case["kind"]]
            try:
                res = meth(grid, *pargs, **pkw)
            except NotImplementedError:
                return {"err": "constructor_raised"}
            except (aa.exc.ArrayException, aa.exc.GridException, aa.exc.VectorYXException, ValueError,
                    IndexError) as e:
                if case.get("drop_last"):
                    return {"err": "constructor_raised"}
                raise
            finally:
                obj.__dict__.pop("_evaluate", None)
            if len(obj.seen) != 1:
                return {"err": f"function called {len(obj.seen)} times"}
            tname, seen = obj.seen[0]
            self._last_result = res
            out = [_container_obs(c) for c in res] if isinstance(res, list) else _container_obs(res)
            o = {"seen": [qlist(p) for p in seen.reshape(-1, 2)], "out": out, "_seen_type": tname,
                 "_in_pts": ipts, "_in_mask": in_mask if in_mask is not None else self._in_mask(grid),
                 "_same_mask": bool(getattr(res, "mask", None) is getattr(grid, "mask", 0))}
            if case.get("xa"):
                o["_xa_ok"] = self._xa_received(obj.got, pargs, pkw)
            return o
        if kind == "project":
            pair = "cx" in case["func"]
            obj.funcs, obj.is_list, obj.pair = [case["func"]], False, pair
            if case.get("ret") in ("struct", "struct_native", "native_junk"):
                obj.ret = None  # project_grid documents a plain ndarray result (it reads `result.shape`)
            res = obj.projected_from(grid, *pargs, **pkw)
            self._last_result = res
            tname, seen = obj.seen[0]
            v = _np(res)
            o = {"seen": [qlist(p) for p in seen.reshape(-1, 2)],
                 "values": [qlist(p) for p in v.reshape(-1, 2)] if pair else qlist(v.ravel()),
                 "_cls": type(res).__name__, "_seen_type": tname, "_in_pts": ipts,
                 "_scales": qlist(res.pixel_scales) if hasattr(res, "pixel_scales") else None}
            if case.get("xa"):
                o["_xa_ok"] = self._xa_received(obj.got, pargs, pkw)
            return o
        if kind == "projline":
            # Grid2D.grid_2d_radial_projected_from called directly (the control of the configuration
            # histories): explicit keyword given / not given
            kw = {"centre": tuple(float(Fraction(v)) for v in case["centre"]), "angle": float(Fraction(case["angle"]))}
            if case.get("explicit") is not None:
                kw["remove_projected_centre"] = bool(case["explicit"])
            elif case.get("explicit_none"):
                kw["remove_projected_centre"] = None
            res = grid.grid_2d_radial_projected_from(**kw)
            self._last_result = res
            return {"seen": [qlist(p) for p in _np(res).reshape(-1, 2)], "_cls": type(res).__name__,
                    "_in_pts": ipts}
        if kind == "relocate":
            cname = type(obj).__name__
            rmin = float(Fraction(case["rmin"]))
            obj.robust_radius = bool(case.get("msc"))
            with self._rmin_in_force(cname, rmin, case.get("rmin_via", "item"), case.get("rmin_others")):
                if case.get("pre"):
                    # the caller says the grid is already in the profile's frame: `transform` hands the CALLER'S
                    # grid object straight to the radial-minimum decorator
                    res = obj.relocated_from(grid, *pargs, is_transformed=True)
                else:
                    res = obj.relocated_from(grid, *pargs)
            self._last_result = res
            tname, seen = obj.seen[0]
            o = {"seen": [qlist(p) for p in seen.reshape(-1, 2)], "_seen_type": tname,
                 "_in_pts": ipts,
                 "_n_transforms": getattr(obj, "n_transforms", 0), "_in_type": type(grid).__name__}
            if case.get("xa"):
                o["_xa_ok"] = self._xa_received((obj.got[0], {}), pargs, {})
            return o
        if kind == "transform":
            obj.flag = None
            meth = {1: obj.level3, 2: obj.level2, 3: obj.level1}[case["depth"]]
            if case["flag"]:
                meth(grid, is_transformed=True)
            elif case.get("explicit_false"):
                meth(grid, is_transformed=False)
            else:
                meth(grid)
            tname, seen = obj.seen[0]
            return {"flag": bool(obj.flag), "seen": [qlist(p) for p in seen.reshape(-1, 2)],
                    "_n_transforms": getattr(obj, "n_transforms", 0)}
        raise ValueError(kind)

    # ---- large cases: construction, observation and the vectorised statement of the property
    def _big_grid(self, aa, g, centre=None):
        """(grid object, info) of a generated large grid spec {"type", "gen": {seed, n | h,w,u}, …}"""
        gg = g["gen"]
        rs = np.random.RandomState(gg["seed"] % (2 ** 32))
        t = g["type"]
        if t in ("irregular", "ndarray"):
            n = gg["n"]
            if gg.get("around"):
                c = np.array([float(Fraction(v)) for v in centre])
                pts = c + rs.randint(-12, 13, size=(n, 2)) / 4.0
            else:
                pts = rs.randint(-24, 25, size=(n, 2)) / 4.0
            grid = pts.copy() if t == "ndarray" else aa.Grid2DIrregular(values=pts.copy())
            return grid, {"pts": pts}
        if t == "uniform":
            h, w, u = gg["h"], gg["w"], min(gg["u"], gg["h"] * gg["w"])
            m = np.ones(h * w, dtype=bool)
            m[rs.permutation(h * w)[:u]] = False
            m = m.reshape(h, w)
            mask = aa.Mask2D(mask=m, pixel_scales=tuple(float(Fraction(v)) for v in g["scales"]),
                             origin=tuple(float(Fraction(v)) for v in g["origin"]))
            grid = aa.Grid2D.from_mask(mask=mask)
            if g.get("store_native"):
                grid = grid.native
            return grid, {"mask": m}
        n, u = gg["n"], min(gg["u"], gg["n"])
        m = np.ones(n, dtype=bool)
        m[rs.permutation(n)[:u]] = False
        m1 = aa.Mask1D(mask=m, pixel_scales=float(Fraction(g["scale"])), origin=(float(Fraction(g["origin"])),))
        grid = aa.Grid1D.from_mask(mask=m1)
        if g.get("store_native"):
            grid = grid.native
        return grid, {"mask": m}

    @staticmethod
    def _np_close(got, exp, tol=1e-9):
        got, exp = np.asarray(got, dtype="float64"), np.asarray(exp, dtype="float64")
        if got.shape != exp.shape:
            return False, f"shape {got.shape} != {exp.shape}"
        bad = ~(np.abs(got - exp) <= tol * np.maximum(1.0, np.maximum(np.abs(got), np.abs(exp))))
        if bad.any():
            k = int(np.argwhere(bad)[0][0])
            return False, f"first difference at entry {k} of {len(got)}: got {got[k]!r}, expected {exp[k]!r}"
        return True, ""

    def _run_big(self, aa, case):
        """a LARGE case: observe, then judge at once with the vectorised statement of the property (the arrays
        are not kept: a run holds hundreds of such cases).  The observation is {"ok", "detail", sizes}."""
        mocks = _mocks(aa)
        kind = case["case"]
        centre = case.get("centre")
        funcs = case.get("funcs")
        if case.get("list_n"):
            b = funcs[0]
            funcs = [{**b, "cy": [q(Fraction(b["cy"][0]) + i)] + list(b["cy"][1:])} for i in range(case["list_n"])]
        grid, info = self._big_grid(aa, case["grid"], centre if kind == "relocate" and centre != "pixel" else None)
        in_pts = _slim_np(grid).copy()
        g = case["grid"]
        if kind == "relocate" and centre == "pixel":
            c0 = in_pts[len(in_pts) // 2]
            centre = [q(float(c0[0])), q(float(c0[1]))]
        if kind == "project" and case.get("line_n"):
            sy, sx = (Fraction(v) for v in g["scales"])
            oy, ox = (Fraction(v) for v in g["origin"])
            w = g["gen"]["w"]
            centre = [q(oy), q(ox + w * sx / 2 - (case["line_n"] - 1) * sx - sx / 2)]
        if kind == "dispatch":
            obj = mocks["dispatch"](funcs=funcs, is_list=case["list"], pair=case["kind"] != "array", centre=(0.0, 0.0))
        elif kind == "project":
            obj = mocks["dispatch"](funcs=[case["func"]], pair="cx" in case["func"],
                                    centre=tuple(float(Fraction(v)) for v in centre),
                                    angle=float(Fraction(case["angle"])))
        else:
            obj = mocks["radial"](centre=tuple(float(Fraction(v)) for v in centre))
        obj.vec = True
        sizes = {"points": int(len(in_pts)), "frame": list(np.shape(info["mask"])) if "mask" in info else None}
        try:
            ok, detail = self._judge_big(aa, {**case, "funcs": funcs, "centre": centre}, obj, grid, info, in_pts)
        except (aa.exc.ArrayException, aa.exc.GridException, aa.exc.VectorYXException, ValueError, IndexError,
                TypeError, MemoryError, FloatingPointError) as e:
            ok, detail = False, f"implementation raised {type(e).__name__}: {str(e)[:200]}"
        return {"ok": bool(ok), "detail": detail, "sizes": sizes}

    def _oracle_big(self, case, obs):
        if not isinstance(obs, dict) or "ok" not in obs:
            return False, f"implementation raised {obs}"
        return obs["ok"], ("" if obs["ok"] else f"[large case, sizes {obs.get('sizes')}] {obs['detail']}")

    def _judge_big(self, aa, case, obj, grid, info, in_pts):
        """the property on one large case, stated with numpy on the implementation's outputs"""
        kind = case["case"]
        g = case["grid"]
        gt = g["type"]
        close = self._np_close
        if gt in ("irregular", "ndarray") and not np.array_equal(in_pts, info["pts"]):
            return False, "the irregular grid does not hold the coordinates it was built from"
        if kind == "dispatch":
            pair = case["kind"] != "array"
            meth = {"array": obj.array_from, "grid": obj.grid_from, "vector": obj.vector_from}[case["kind"]]
            res = meth(grid)
            if len(obj.seen) != 1:
                return False, f"function called {len(obj.seen)} times"
            tname, seen = obj.seen[0]
            seen = seen.reshape(-1, 2)
            if gt == "oned":
                line = np.stack((np.zeros(len(in_pts)), in_pts), axis=-1)
                ok, d = close(seen, line)
                if tname != "Grid2DIrregular" or not ok:
                    return False, "a Grid1D was not handed to the function as the projected line (0, x_k): " + d
            else:
                want_t = "Grid2D" if gt == "uniform" else "Grid2DIrregular"
                if tname != want_t:
                    return False, f"function received a {tname}, expected {want_t}"
                if not np.array_equal(seen, in_pts):
                    return False, "function did not receive the input grid's coordinates unchanged"
            outs = res if isinstance(res, list) else [res]
            if case["list"] != isinstance(res, list) or len(outs) != len(case["funcs"]):
                return False, "list result not wrapped element by element"
            for c, fn in zip(outs, case["funcs"]):
                exp = _eval_func_np(fn, seen, pair)
                name = type(c).__name__
                if gt == "uniform":
                    want = {"array": "Array2D", "grid": "Grid2D", "vector": "VectorYX2D"}[case["kind"]]
                elif gt == "irregular":
                    want = {"array": "ArrayIrregular", "grid": "Grid2DIrregular", "vector": "VectorYX2DIrregular"}[case["kind"]]
                else:
                    want = {"array": "Array1D", "grid": "Grid2D"}[case["kind"]]
                if name != want:
                    return False, f"container is {name}, expected {want}"
                if gt == "irregular":
                    ok, d = close(_np(c), exp)
                    if not ok:
                        return False, "entries are not f(grid), one per coordinate in input order: " + d
                    if case["kind"] == "vector" and not np.array_equal(_slim_np(c.grid).reshape(-1, 2), in_pts):
                        return False, "irregular vector field's grid is not the input grid"
                    continue
                m = info["mask"]
                cm = np.asarray(c.mask)
                want_m = m if not (gt == "oned" and case["kind"] == "grid") else m.reshape(1, -1)
                if cm.shape != want_m.shape or not np.array_equal(cm, want_m):
                    return False, "container is not on the input grid's mask"
                if not (gt == "oned" and case["kind"] == "grid"):
                    if list(c.mask.pixel_scales) != list(grid.mask.pixel_scales) or \
                            list(c.mask.origin) != list(grid.mask.origin):
                        return False, "container's mask lost the pixel scales / origin of the input grid"
                ok, d = close(np.asarray(c.slim.array, dtype="float64"), exp)
                if not ok:
                    return False, "slim entries are not f(grid) in slim order (entry k <-> coordinate k): " + d
                if not (gt == "oned" and case["kind"] == "grid"):
                    nat = np.zeros(m.shape + ((2,) if pair else ()))
                    nat[~m] = exp
                    ok, d = close(np.asarray(c.native.array, dtype="float64").reshape(nat.shape).reshape(len(m.ravel()), -1),
                                  nat.reshape(len(m.ravel()), -1))
                    if not ok:
                        return False, "native entries are not the values at their pixels with zeros at masked pixels: " + d
                if case["kind"] == "vector" and not np.array_equal(_slim_np(c.grid).reshape(-1, 2), in_pts):
                    return False, "vector field's grid is not the input grid"
            return True, ""
        if kind == "project":
            cy, cx = (float(Fraction(v)) for v in case["centre"])
            a = math.radians(float(Fraction(case["angle"])) + 90.0)
            pair = "cx" in case["func"]
            res = obj.projected_from(grid)
            if len(obj.seen) != 1:
                return False, f"function called {len(obj.seen)} times"
            tname, seen = obj.seen[0]
            seen = seen.reshape(-1, 2)
            if gt == "irregular":
                exp = in_pts
                want = "Grid2DIrregular" if pair else "ArrayIrregular"
            elif gt == "oned":
                exp = np.stack((-in_pts * math.sin(a), in_pts * math.cos(a)), axis=-1)
                want = "Array1D"
            else:
                h, w = info["mask"].shape
                sy, sx = (Fraction(v) for v in g["scales"])
                oy, ox = (Fraction(v) for v in g["origin"])
                fcy, fcx = Fraction(cy), Fraction(cx)
                d = [ox + w * sx / 2 - fcx, oy + h * sy / 2 - fcy, fcx - (ox - w * sx / 2), fcy - (oy - h * sy / 2)]
                dist = max(d)
                ps = sy if dist in (d[1], d[3]) else sx
                n = int(dist / ps) + 1
                if case.get("line_n") and n != case["line_n"]:
                    return False, f"harness: projected line has {n} points, wanted {case['line_n']}"
                k = np.arange(n, dtype="float64")
                exp = np.stack((cy - k * float(ps) * math.sin(a), cx + k * float(ps) * math.cos(a)), axis=-1)
                want = "Array1D"
            if type(res).__name__ != want:
                return False, f"project_grid returned {type(res).__name__}, expected {want}"
            ok, d = close(seen, exp)
            if not ok:
                return False, "function did not receive the radially projected line (centre + k*s rotated by angle): " + d
            vals = _eval_func_np(case["func"], seen, pair)
            ok, d = close(_np(res).reshape(vals.shape) if _np(res).size == vals.size else _np(res), vals, 1e-8)
            return ok, "" if ok else "entry k of the result is not f at projected point k: " + d
        cy, cx = (float(Fraction(v)) for v in case["centre"])
        if kind == "relocate":
            from autoconf import conf

            rmin = float(Fraction(case["rmin"]))
            tbl = conf.instance["grids"]["radial_minimum"]["radial_minimum"]
            old = tbl["MockGridRadialMinimum"]
            tbl["MockGridRadialMinimum"] = rmin
            try:
                obj.relocated_from(grid)
            finally:
                tbl["MockGridRadialMinimum"] = old
            tname, s_ = obj.seen[0]
            s_ = s_.reshape(-1, 2)
            p_ = in_pts - np.array([cy, cx])
            if len(s_) != len(p_):
                return False, "number of coordinates changed"
            if obj.n_transforms != 1:
                return False, f"grid transformed {obj.n_transforms} times"
            if tname != type(grid).__name__:
                return False, f"relocated grid is a {tname}, input was {type(grid).__name__}"
            r = np.sqrt(p_[:, 0] ** 2 + p_[:, 1] ** 2)
            rs_ = np.sqrt(s_[:, 0] ** 2 + s_[:, 1] ** 2)
            on_ray = (np.abs(p_[:, 0] * s_[:, 1] - p_[:, 1] * s_[:, 0]) <= 1e-9 * np.maximum(1e-300, r * rs_)) & \
                     (p_[:, 0] * s_[:, 0] + p_[:, 1] * s_[:, 1] >= 0)
            moved_ok = (np.abs(rs_ - rmin) <= 1e-9 * rmin) & ((r == 0) | on_ray)
            same = (s_[:, 0] == p_[:, 0]) & (s_[:, 1] == p_[:, 1])
            band = np.abs(r - rmin) <= 1e-9 * rmin
            good = np.where(band, same | moved_ok, np.where(r < rmin, moved_ok, same))
            if not good.all():
                k = int(np.argwhere(~good)[0][0])
                what = ("was moved to radius %r" % float(rs_[k])) if r[k] < rmin else "did not reach the function unchanged"
                return False, f"coordinate {k} of {len(r)} at radius {float(r[k])!r} (minimum {rmin!r}) {what}"
            return True, ""
        if kind == "transform":
            meth = {1: obj.level3, 2: obj.level2, 3: obj.level1}[case["depth"]]
            if case["flag"]:
                meth(grid, is_transformed=True)
            else:
                meth(grid)
            tname, seen = obj.seen[0]
            exp = in_pts if case["flag"] else in_pts - np.array([cy, cx])
            if not np.array_equal(seen.reshape(-1, 2), exp):
                return False, "innermost function did not receive the grid transformed exactly once"
            if getattr(obj, "n_transforms", 0) != (0 if case["flag"] else 1):
                return False, f"grid transformed {getattr(obj, 'n_transforms', 0)} times"
            return (obj.flag is True), "is_transformed flag not set for the inner call"
        raise ValueError(kind)

    # ---- history stream: execution on real reused objects
    @staticmethod
    def _derive(obj, shadow, op, val, is_nd, prof=None, funcs=None):
        """(derived object, derived shadow): the same IEEE operation on the library object and on the
        harness's own float64 copy of its slim coordinates"""
        import copy as _copy

        v = float(Fraction(val)) if isinstance(val, str) else val
        if op == "mul":
            return obj * v, shadow * v
        if op == "rmul":
            return v * obj, v * shadow
        if op == "add":
            return obj + v, shadow + v
        if op == "sub":
            return obj - v, shadow - v
        if op == "rsub":
            return v - obj, v - shadow
        if op == "div":
            return obj / v, shadow / v
        if op == "neg":
            return -obj, -shadow
        if op == "abs":
            return abs(obj), np.abs(shadow)
        if op == "pow2":
            return obj ** 2, shadow ** 2
        if op == "gg":
            return obj + obj, shadow + shadow
        if op == "copy":
            return _copy.copy(obj), shadow.copy()
        if op == "deepcopy":
            return _copy.deepcopy(obj), shadow.copy()
        if op == "wna":
            return obj.with_new_array(np.array(obj.array) + v), shadow + v
        if op == "astype":
            return obj.astype("float64"), shadow.copy()
        if op == "slim":
            return obj.slim, shadow.copy()
        if op == "native":
            return obj.native, shadow.copy()
        if op == "slice":
            return obj[val[0]:val[1]], shadow[val[0]:val[1]].copy()
        if op == "via_to_grid":
            prof.funcs, prof.is_list, prof.pair = funcs, False, True
            new = prof.grid_from(obj)
            pts = [(float(a), float(b)) for a, b in shadow.reshape(-1, 2)]
            return new, np.array(_eval_func(funcs[0], pts, float, True), dtype="float64").reshape(-1, 2)
        raise ValueError(op)

    @staticmethod
    def _decoy(grid, prof_angles=()):
        """read every other public derived quantity of a grid and of its mask (results discarded)"""
        import functools

        def props(o):
            for cls in type(o).__mro__:
                for k, v in list(vars(cls).items()):
                    if k.startswith("_") or k in ("hdu_for_output",):
                        continue
                    if isinstance(v, (property, functools.cached_property)) or type(v).__name__ == "cached_property":
                        try:
                            yield getattr(o, k)
                        except Exception:
                            pass

        if isinstance(grid, np.ndarray):
            return
        vals = list(props(grid))
        mask = getattr(grid, "mask", None)
        if mask is not None and not isinstance(mask, np.ndarray):
            vals += list(props(mask))
            for sub in ("geometry", "derive_mask", "derive_grid", "derive_indexes"):
                try:
                    list(props(getattr(mask, sub)))
                except Exception:
                    pass
        # a coordinate of the grid's own world (a far-away centre would make the projected line huge)
        try:
            ps, og = tuple(mask.pixel_scales), tuple(mask.origin)
            near = (og[0] + 0.25 * ps[0], og[1] - 0.5 * ps[1]) if len(ps) == 2 else None
        except Exception:
            near = None
        if near is None:
            try:
                a0 = _slim_np(grid).reshape(-1, 2)
                near = (float(a0[0, 0]), float(a0[-1, 1])) if len(a0) else (0.0, 0.0)
            except Exception:
                near = (0.0, 0.0)
        for meth, kw in (("grid_2d_radial_projected_from", {}),
                         ("grid_2d_radial_projected_from", {"angle": 17.0}),
                         ("distances_to_coordinate_from", {"coordinate": near}),
                         ("squared_distances_to_coordinate_from", {"coordinate": near})):
            fn = getattr(grid, meth, None)
            if callable(fn):
                try:
                    fn(**kw)
                except Exception:
                    pass
        fn = getattr(grid, "grid_2d_radial_projected_from", None)
        if callable(fn):
            for a in prof_angles:
                for kw in ({"angle": a}, {"centre": near, "angle": a}):
                    try:
                        fn(**kw)
                    except Exception:
                        pass

    def _hist_sub(self, st, gstate, pstate, mag):
        """the ordinary single-call case a call step amounts to, for FRESH objects in the current state"""
        what = st["what"]
        spec = gstate["spec"]
        if what == "projline":
            sub = {"case": "projline", "grid": spec, "centre": pstate["centre"],
                   "angle": pstate["angle"] if pstate["angle"] is not None else "0", "tag": "hist_step"}
            if st.get("explicit") is not None:
                sub["explicit"] = bool(st["explicit"])
            elif st.get("explicit_none"):
                sub["explicit_none"] = True
            if mag:
                sub["mag"] = mag
            return sub
        if what in ("array", "grid", "vector"):
            sub = {"case": "dispatch", "kind": what, "grid": spec, "list": st["list"], "funcs": st["funcs"]}
            if st.get("drop_last"):
                sub["drop_last"] = True
        elif what == "project":
            sub = {"case": "project", "grid": spec, "func": st["func"],
                   "attrs": "both" if pstate["angle"] is not None else "centre_only",
                   "centre": pstate["centre"], "angle": pstate["angle"] if pstate["angle"] is not None else "0"}
        elif what == "relocate":
            sub = {"case": "relocate", "grid": spec, "rmin": st["rmin"], "centre": pstate["centre"]}
        else:
            sub = {"case": "transform", "depth": st["depth"], "flag": st["flag"],
                   "explicit_false": st.get("explicit_false", False), "centre": pstate["centre"], "pts": None}
        sub["tag"] = "hist_step"
        for key in ("ret", "fscrib", "xa", "rmin_via", "rmin_others", "pre"):
            if st.get(key) is not None:
                sub[key] = st[key]
        if mag:
            sub["mag"] = mag
        return sub

    def _run_history(self, aa, case):
        mocks = _mocks(aa)
        G, P = {}, {}
        out, subs = [], []
        mag = case.get("mag", 0) or 0
        dead = False
        cstate = {"state": None, "rpc": None}
        try:
            return self._run_history_steps(aa, case, mocks, G, P, out, subs, mag, cstate)
        finally:
            if cstate["state"] is not None:
                cstate["state"].restore()

    def _run_history_steps(self, aa, case, mocks, G, P, out, subs, mag, cstate):
        dead = False
        for st in case["steps"]:
            act = st["act"]
            if dead:
                out.append(None), subs.append(None)
                continue
            o, sub = None, None
            if act == "grid":
                spec = st["grid"]
                grid = self._make_grid(aa, spec)
                if st.get("readonly") and isinstance(grid, np.ndarray):
                    grid.setflags(write=False)
                G[st["to"]] = {"obj": grid, "shadow": _slim_np(grid).copy(), "in_mask": self._in_mask(grid),
                               "spec": spec, "native": bool(spec.get("store_native")),
                               "owned": list(self._inputs)}
            elif act == "profile":
                obj = mocks["radial_other" if st.get("cls") == "other" else "radial"](
                    centre=tuple(float(Fraction(v)) for v in st["centre"]),
                    angle=None if st["angle"] is None else float(Fraction(st["angle"])))
                obj.angle = None if st["angle"] is None else float(Fraction(st["angle"]))
                P[st["to"]] = {"obj": obj, "centre": list(st["centre"]), "angle": st["angle"]}
            elif act == "conf":
                # round 5/6 (R5-D): a configuration value the anchored code reads changes BETWEEN calls
                if cstate["state"] is None:
                    cstate["state"] = self._ConfState()
                self._conf_set(cstate["state"], rpc=st.get("rpc"), via=st.get("via", "item"))
                if st.get("rpc") is not None:
                    cstate["rpc"] = bool(st["rpc"])
            elif act == "scribble":
                # round 5/6 (R5-B): overwrite, in place, every array the API returned or accepted for this slot
                gs = G.pop(st["g"])
                _scribble(gs["obj"])
                _scribble(gs.get("owned"))
                _scribble(gs.get("returned"))
            elif act == "setattr":
                ps = P[st["p"]]
                if "centre" in st:
                    ps["centre"] = list(st["centre"])
                    ps["obj"].centre = tuple(float(Fraction(v)) for v in st["centre"])
                if "angle" in st:
                    ps["angle"] = st["angle"]
                    ps["obj"].angle = None if st["angle"] is None else float(Fraction(st["angle"]))
            elif act == "derive":
                src = G[st["from"]]
                new, sh = self._derive(src["obj"], src["shadow"], st["op"], st.get("val"),
                                       isinstance(src["obj"], np.ndarray),
                                       P[st["p"]]["obj"] if "p" in st else None, st.get("funcs"))
                nat = {"slim": False, "via_to_grid": False,
                       "native": src["spec"]["type"] in ("uniform", "oned")}.get(st["op"], src["native"])
                spec = src["spec"]
                if st["op"] == "slice":
                    spec = {**spec, "pts": spec["pts"][st["val"][0]:st["val"][1]]}
                G[st["to"]] = {"obj": new, "shadow": np.array(sh, dtype="float64"), "in_mask": src["in_mask"],
                               "spec": spec, "native": nat}
            elif act == "mask_edit":
                src = G[st["from"]]
                spec = src["spec"]
                mask = src["obj"].mask
                if spec["type"] == "uniform":
                    bits, w = list(spec["mask"]["bits"]), spec["mask"]["w"]
                    for i, b in st["flips"]:
                        mask[i // w, i % w] = bool(b)
                        bits[i] = "1" if b else "0"
                    nspec = {"type": "uniform", "mask": {**spec["mask"], "bits": "".join(bits)},
                             "scales": spec["scales"], "origin": spec["origin"]}
                    grid = aa.Grid2D.from_mask(mask=mask)
                else:
                    bits = list(spec["bits"])
                    for i, b in st["flips"]:
                        mask[i] = bool(b)
                        bits[i] = "1" if b else "0"
                    nspec = {"type": "oned", "bits": "".join(bits), "scale": spec["scale"], "origin": spec["origin"]}
                    grid = aa.Grid1D.from_mask(mask=mask)
                fresh = self._make_grid(aa, nspec)  # a freshly built equal mask and grid: the expectation
                G[st["to"]] = {"obj": grid, "shadow": _slim_np(fresh).copy(), "in_mask": self._in_mask(fresh),
                               "spec": nspec, "native": False}
            elif act == "edit":
                gs = G[st["g"]]
                grid, spec, k = gs["obj"], gs["spec"], st["k"]
                val = [float(Fraction(v)) for v in st["val"]] if isinstance(st["val"], list) else float(Fraction(st["val"]))
                if st.get("how") == "where":
                    key = np.zeros(np.shape(grid.array), dtype=bool)
                    key[k] = True
                    grid[key] = val
                    gs["shadow"][k] = val
                elif gs["native"] and spec["type"] == "uniform":
                    w = spec["mask"]["w"]
                    idx = [i for i, b in enumerate(spec["mask"]["bits"]) if b == "0"][k]
                    grid[idx // w, idx % w] = val
                    gs["shadow"][k] = val
                elif gs["native"] and spec["type"] == "oned":
                    idx = [i for i, b in enumerate(spec["bits"]) if b == "0"][k]
                    grid[idx] = val
                    gs["shadow"][k] = val
                else:
                    grid[k] = val
                    gs["shadow"][k] = val
            elif act == "decoy":
                ps = P.get(st.get("p"))
                angles = [0.0] + ([ps["obj"].angle + 90.0] if ps and ps["obj"].angle is not None else [])
                self._decoy(G[st["g"]]["obj"], angles)
            elif act in ("call", "fault"):
                gs, ps = G[st["g"]], P[st["p"]]
                sub = self._hist_sub(st, gs, ps, mag)
                if cstate["rpc"] is not None:
                    sub["rpc"] = cstate["rpc"]  # the configuration value in force at THIS call
                sh = gs["shadow"]
                ipts = qlist(sh) if sh.ndim == 1 else [qlist(p_) for p_ in sh.reshape(-1, 2)]
                if sub["case"] == "transform":
                    sub["pts"] = ipts
                if act == "fault":
                    ps["obj"].fault = "raise"
                    try:
                        self._observe(aa, sub, ps["obj"], gs["obj"], in_pts=ipts, in_mask=gs["in_mask"])
                        o = {"raised": None}
                    except UserFault:
                        o = {"raised": "UserFault"}
                    finally:
                        ps["obj"].fault = None
                        ps["obj"].__dict__.pop("_evaluate", None)
                    sub = None
                else:
                    try:
                        o = self._observe(aa, sub, ps["obj"], gs["obj"], in_pts=ipts, in_mask=gs["in_mask"])
                        gs.setdefault("returned", []).append(self._last_result)
                        gs["returned"].append(list(ps["obj"].seen_objs))
                    except Skip:
                        raise
                    except Exception as e:  # an undocumented exception ends the history; it is an observation
                        o = {"err": type(e).__name__, "msg": str(e)[:300]}
                        dead = True
                    if st.get("fscrib"):
                        G.pop(st["g"], None)  # the user function has edited its argument in place
            else:
                raise ValueError(act)
            out.append(o), subs.append(sub)
        return {"steps": out, "_subs": subs}

    def run_impl(self, case):
        aa = load_autoarray()
        kind = case["case"]
        if kind == "history":
            return self._run_history(aa, case)
        if case.get("big"):
            return self._run_big(aa, case)
        obj = self._profile_for(aa, case)
        if kind == "transform":
            grid = self._make_grid(aa, {"type": "irregular", "pts": case["pts"]})
        else:
            grid = self._make_grid(aa, case["grid"])
        if case.get("rpc") is None:
            return self._observe(aa, case, obj, grid)
        # round 5/6 (R5-D): the call under the configuration value `general.grid.remove_projected_centre` = rpc
        state = self._ConfState()
        try:
            self._conf_set(state, rpc=bool(case["rpc"]), via=case.get("rpc_via", "item"))
            return self._observe(aa, case, obj, grid)
        finally:
            state.restore()

    # ------------------------------------------------------------------ model
    def _grid_req(self, g, with_pts=True, obs=None):
        pts = self._grid_pts(g, obs)
        if g["type"] == "uniform":
            return {"type": "uniform", "mask": g["mask"], "pts": [[q(a), q(b)] for a, b in pts] if with_pts else []}
        if g["type"] in ("irregular", "ndarray"):
            return {"type": "irregular", "pts": [[q(a), q(b)] for a, b in pts]}
        return {"type": "oned", "bits": g["bits"], "xs": qlist(pts)}

    _hist_steps = {}

    def model_requests(self, case, impl_obs):
        kind = case["case"]
        if case.get("big"):
            return []  # large cases: judged by the (vectorised) oracle alone
        if kind == "history":
            reqs, idx = [], []
            if isinstance(impl_obs, dict) and "steps" in impl_obs:
                for k, (o, sub) in enumerate(zip(impl_obs["steps"], impl_obs["_subs"])):
                    if sub is None or o is None:
                        continue
                    try:
                        rs = self.model_requests(sub, o)
                    except Skip:
                        rs = []
                    if len(rs) == 1:
                        reqs.append(rs[0])
                        idx.append(k)
            self._hist_steps[id(case)] = (idx, len(case["steps"]))
            return reqs
        if kind == "dispatch":
            funcs = case["funcs"]
            if case.get("drop_last"):
                # the function returns one entry too few: modelled by evaluating on all coordinates but the last
                raise Skip("bad-length function: compared through the oracle only")
            funcs = self._xa_funcs(funcs, case.get("xa"))
            return [{"op": "c17.decorate", "kind": case["kind"], "grid": self._grid_req(case["grid"], obs=impl_obs),
                     "funcs": funcs, "list": case["list"],
                     "num": "float" if case["grid"]["type"] == "oned" else "rat"}]
        if kind == "project":
            g = case["grid"]
            req = {"op": "c17.project", "grid": self._grid_req(g, with_pts=False, obs=impl_obs),
                   "func": self._xa_funcs([case["func"]], case.get("xa"))[0]}
            if case.get("rpc"):
                req["remove_centre"] = True
            attrs = case["attrs"]
            req["centre"] = case["centre"] if attrs in ("both", "centre_only") else ["0", "0"]
            # angle attribute absent / None -> 0.0, and then no +90 is applied
            req["angle"] = case["angle"] if attrs == "both" else "-90"
            if g["type"] == "uniform":
                h, w = g["mask"]["h"], g["mask"]["w"]
                sy, sx = (Fraction(v) for v in g["scales"])
                oy, ox = (Fraction(v) for v in g["origin"])
                req["extent"] = qlist([ox - w * sx / 2, ox + w * sx / 2, oy - h * sy / 2, oy + h * sy / 2])
                req["scales"] = g["scales"]
            return [req]
        if kind == "projline":
            g = case["grid"]
            h, w = g["mask"]["h"], g["mask"]["w"]
            sy, sx = (Fraction(v) for v in g["scales"])
            oy, ox = (Fraction(v) for v in g["origin"])
            req = {"op": "c17.projline", "centre": case["centre"], "angle": case["angle"], "scales": g["scales"],
                   "extent": qlist([ox - w * sx / 2, ox + w * sx / 2, oy - h * sy / 2, oy + h * sy / 2]),
                   "config": bool(case.get("rpc"))}
            if case.get("explicit") is not None:
                req["explicit"] = bool(case["explicit"])
            return [req]
        if kind == "relocate":
            pts = self._grid_pts(case["grid"], impl_obs)
            if case.get("msc"):
                # a world beyond 2^+-500: the model (whose radius function squares) is asked for the world scaled
                # back by the exact power of two; its answer scales back exactly (`_compare_one`)
                f = Fraction(2) ** (-case["msc"])
                return [{"op": "c17.relocate", "pts": [[q(a * f), q(b * f)] for a, b in pts],
                         "centre": [q(Fraction(v) * f) for v in case["centre"]], "rmin": q(Fraction(case["rmin"]) * f)}]
            return [{"op": "c17.relocate", "pts": [[q(a), q(b)] for a, b in pts],
                     "centre": ["0", "0"] if case.get("pre") else case["centre"], "rmin": case["rmin"]}]
        if kind == "transform":
            return [{"op": "c17.transform", "pts": case["pts"], "centre": case["centre"],
                     "depth": case["depth"], "flag": case["flag"]}]
        raise ValueError(kind)

    def model_obs(self, case, responses):
        if case["case"] == "history":
            idx, n = self._hist_steps.get(id(case), ([], len(case["steps"])))
            steps = [None] * n
            for k, r in zip(idx, responses):
                steps[k] = r["ok"] if "ok" in r else {"err": r.get("err")}
            return {"steps": steps}
        return super().model_obs(case, responses)

    _REAL_KEYS = ("seen", "slim", "native", "values")

    @classmethod
    def _rescale(cls, o, f, inside=False):
        """multiply the real-valued parts of an observation by the power of two `f` (exact)"""
        if isinstance(o, dict):
            return {k: cls._rescale(v, f, inside or k in cls._REAL_KEYS) for k, v in o.items()}
        if isinstance(o, list):
            return [cls._rescale(v, f, inside) for v in o]
        if inside and isinstance(o, (str, int, float, Fraction)) and not isinstance(o, bool):
            try:
                return q(Fraction(o) * f)
            except (ValueError, ZeroDivisionError):
                return o
        return o

    def _compare_one(self, case, impl_obs, model_obs, cmp):
        a, b = _strip(impl_obs), model_obs
        k = case.get("mag", 0) or 0
        if k != 0 and isinstance(a, dict) and isinstance(b, dict) and "err" not in a and "err" not in b:
            # decades stream: compare relative to the world's magnitude 2^k, not to 1
            f = Fraction(2) ** (-k)
            a = self._rescale(a, f)
            if not case.get("msc"):  # (with "msc" the model was asked for the world already scaled back)
                b = self._rescale(b, f)
        return cmp.diff(a, b)

    def compare(self, case, impl_obs, model_obs, cmp):
        if case["case"] == "history":
            for k, (o, m) in enumerate(zip(impl_obs["steps"], model_obs["steps"])):
                if m is None or o is None:
                    continue
                d = self._compare_one(impl_obs["_subs"][k], o, m, cmp)
                if d:
                    return f"step {k}: {d}"
            return None
        return self._compare_one(case, impl_obs, model_obs, cmp)

    # ------------------------------------------------------------------ oracle
    @staticmethod
    def _close(a, b, tol=1e-9, floor=1.0):
        """|a-b| <= tol*max(floor, |a|, |b|); `floor` is 1 for ordinary cases and the world's magnitude 2^k
        for the cases of the decades stream (an absolute 1e-9 would hide everything in a tiny world and be
        below the rounding noise of a huge one)"""
        a, b = float(Fraction(a)), float(Fraction(b))
        return abs(a - b) <= tol * max(floor, abs(a), abs(b))

    def _pts_close(self, got, exp, tol=1e-9, floor=1.0):
        if len(got) != len(exp):
            return False
        return all(self._close(g[0], e[0], tol, floor) and self._close(g[1], e[1], tol, floor)
                   for g, e in zip(got, exp))

    @staticmethod
    def _floor(case):
        return 2.0 ** (case.get("mag", 0) or 0)

    @staticmethod
    def _line_2d(g, cy, cx, a):
        """the radially projected line of a uniform grid spec about (cy, cx), rotated by the angle a (radians):
        centre + k*s*(-sin a, cos a), k = 0 .. int(d/s); None when the quotient is negative"""
        h, w = g["mask"]["h"], g["mask"]["w"]
        sy, sx = (Fraction(v) for v in g["scales"])
        oy, ox = (Fraction(v) for v in g["origin"])
        fcy, fcx = (Fraction(cy), Fraction(cx))
        d = [ox + w * sx / 2 - fcx, oy + h * sy / 2 - fcy, fcx - (ox - w * sx / 2), fcy - (oy - h * sy / 2)]
        dist = max(d)
        ps = sy if dist in (d[1], d[3]) else sx
        quo = dist / ps
        if quo < 0:
            return None
        n = int(quo) + 1
        return [(cy - k * float(ps) * math.sin(a), cx + k * float(ps) * math.cos(a)) for k in range(n)]

    def _check_container(self, c, case, fn, pts, exact, in_mask=None):
        S = self._floor(case)
        g = case["grid"]
        if in_mask is None:
            in_mask = ({"scales": g["scales"], "origin": g["origin"]} if g["type"] == "uniform"
                       else {"scales": [g.get("scale", "1")], "origin": [g.get("origin", "0")]})
        kind = case["kind"]
        pair = kind != "array"
        # expectation: exact rational evaluation on the exact values of the input doubles; the code
        # evaluates in double precision, hence the 1e-9 comparison (a permutation / dropped mask moves
        # values by O(1))
        exp = _eval_func(fn, [(Fraction(a), Fraction(b)) for a, b in pts], Fraction, pair)

        def same(got, want):
            if len(got) != len(want):
                return False
            if pair:
                return all((Fraction(a[0]) == Fraction(b[0]) and Fraction(a[1]) == Fraction(b[1])) if exact
                           else (self._close(a[0], b[0], 1e-9, S) and self._close(a[1], b[1], 1e-9, S))
                           for a, b in zip(got, want))
            return all(Fraction(a) == Fraction(b) if exact else self._close(a, b, 1e-9, S)
                       for a, b in zip(got, want))

        zero = [Fraction(0), Fraction(0)] if pair else Fraction(0)
        if g["type"] == "uniform":
            want_cls = {"array": "Array2D", "grid": "Grid2D", "vector": "VectorYX2D"}[kind]
            if c.get("_cls") != want_cls:
                return f"container is {c.get('_cls')}, expected {want_cls}"
            if c["mask"] != g["mask"]:
                return "container is not on the input grid's mask"
            if [Fraction(v) for v in c["_scales"]] != [Fraction(v) for v in in_mask["scales"]] or \
                    [Fraction(v) for v in c["_origin"]] != [Fraction(v) for v in in_mask["origin"]]:
                return "container's mask lost the pixel scales / origin of the input grid"
            if not same(c["slim"], exp):
                return "slim entries are not f(grid) in slim order (entry k <-> coordinate k)"
            bits = g["mask"]["bits"]
            it = iter(exp)
            nat = [zero if b == "1" else next(it) for b in bits]
            if not same(c["native"], nat):
                return "native entries are not the values at their pixels with zeros at masked pixels"
            if kind == "vector" and not self._pts_close(c["_grid"], pts, 0.0):
                return "vector field's grid is not the input grid"
            return None
        if g["type"] == "irregular":
            want_cls = {"array": "ArrayIrregular", "grid": "Grid2DIrregular", "vector": "VectorYX2DIrregular"}[kind]
            if c.get("_cls") != want_cls:
                return f"container is {c.get('_cls')}, expected {want_cls}"
            if not same(c["values"], exp):
                return "entries are not f(grid), one per coordinate in input order"
            if kind == "vector" and not self._pts_close(c["_grid"], pts, 0.0):
                return "irregular vector field's grid is not the input grid"
            return None
        # 1-D input
        if kind == "array":
            if c.get("_cls") != "Array1D":
                return f"container is {c.get('_cls')}, expected Array1D"
            if c["bits"] != g["bits"]:
                return "Array1D is not on the input grid's 1-D mask"
            if [Fraction(v) for v in c["_scales"]] != [Fraction(v) for v in in_mask["scales"]] or \
                    [Fraction(v) for v in c["_origin"]] != [Fraction(v) for v in in_mask["origin"]]:
                return "Array1D's mask lost the pixel scale / origin"
            if not same(c["slim"], exp):
                return "1-D entries are not f evaluated along the projected line, entry k <-> coordinate k"
            it = iter(exp)
            nat = [zero if b == "1" else next(it) for b in g["bits"]]
            if not same(c["native"], nat):
                return "1-D native entries wrong"
            return None
        if kind == "grid":
            if c.get("_cls") != "Grid2D":
                return f"container is {c.get('_cls')}, expected Grid2D"
            if c["mask"] != {"h": 1, "w": len(g["bits"]), "bits": g["bits"]}:
                return "Grid2D of a 1-D input is not on the 1xN mask of the input"
            if not same(c["slim"], exp):
                return "entries are not f evaluated along the projected line"
            return None
        return "to_vector_yx on a Grid1D is documented as unsupported"

    @staticmethod
    def _step_desc(case, k):
        def one(st):
            act = st["act"]
            if act in ("call", "fault"):
                return f"{act} {st['what']}({st['p']},{st['g']})"
            if act == "derive":
                return f"{st['to']}={st['op']}({st['from']})"
            if act == "mask_edit":
                return f"edit mask of {st['from']} in place; {st['to']}=from_mask(that mask)"
            if act in ("grid", "profile"):
                return f"new {st['to']}"
            if act == "conf":
                return f"configuration remove_projected_centre={st.get('rpc')} by {st.get('via', 'item')}"
            if act == "scribble":
                return f"overwrite every array of / returned for {st['g']} in place"
            return f"{act} {st.get('g') or st.get('p')}"
        return " ; ".join(one(st) for st in case["steps"][:k + 1])

    def oracle(self, case, obs):
        kind = case["case"]
        if kind == "history":
            if not isinstance(obs, dict) or "steps" not in obs:
                return False, f"implementation raised {obs}"
            for k, (o, sub) in enumerate(zip(obs["steps"], obs["_subs"])):
                if sub is None or o is None:
                    continue
                try:
                    ok, d = self.oracle(sub, o)
                except Skip:
                    continue
                if not ok:
                    return False, (f"history step {k} [{self._step_desc(case, k)}]: {d} — expected what the same "
                                   f"call gives on freshly built objects in this state")
            return True, ""
        if case.get("big"):
            return self._oracle_big(case, obs)
        if kind == "dispatch":
            g = case["grid"]
            if case.get("drop_last"):
                ok = isinstance(obs, dict) and obs.get("err") == "constructor_raised"
                return ok, "" if ok else "a function returning too few entries was not refused"
            if g["type"] == "oned" and case["kind"] == "vector":
                ok = isinstance(obs, dict) and obs.get("err") == "constructor_raised"
                return ok, "" if ok else "to_vector_yx on Grid1D should be unsupported"
            if isinstance(obs, dict) and "err" in obs:
                return False, f"implementation raised {obs}"
            pts = self._grid_pts(g, obs)
            exact = False
            if g["type"] == "oned":
                line = [(Fraction(0), x) for x in pts]
                if obs["_seen_type"] != "Grid2DIrregular" or not self._pts_close(obs["seen"], line, 1e-9,
                                                                                 self._floor(case)):
                    return False, "a Grid1D was not handed to the function as the projected line (0, x_k)"
                pts = line
            else:
                want_t = "Grid2D" if g["type"] == "uniform" else "Grid2DIrregular"
                if obs["_seen_type"] != want_t:
                    return False, f"function received a {obs['_seen_type']}, expected {want_t}"
                if not self._pts_close(obs["seen"], pts, 0.0):
                    return False, "function did not receive the input grid's coordinates unchanged"
            out = obs["out"]
            if case.get("xa") and not obs.get("_xa_ok"):
                return False, "the user function did not receive its own extra arguments as they were given"
            funcs = self._xa_funcs(case["funcs"], case.get("xa"))
            if case["list"]:
                if not isinstance(out, list) or len(out) != len(funcs):
                    return False, "list result not wrapped element by element"
                for c, fn in zip(out, funcs):
                    d = self._check_container(c, case, fn, pts, exact, obs.get("_in_mask"))
                    if d:
                        return False, "list element: " + d
                return True, ""
            if isinstance(out, list):
                return False, "single result wrapped as a list"
            d = self._check_container(out, case, funcs[0], pts, exact, obs.get("_in_mask"))
            return (d is None), (d or "")
        if isinstance(obs, dict) and "err" in obs:
            return False, f"implementation raised {obs}"
        if kind == "projline":
            # Grid2D.grid_2d_radial_projected_from called directly: the explicit keyword decides, else the
            # configuration value in force at call time
            g = case["grid"]
            cy, cx = (float(Fraction(v)) for v in case["centre"])
            a = math.radians(float(Fraction(case["angle"])))
            exp = self._line_2d(g, cy, cx, a)
            if exp is None:
                raise Skip("centre outside the extent on every side")
            drop = bool(case["explicit"]) if case.get("explicit") is not None else bool(case.get("rpc"))
            if drop:
                exp = exp[1:]
            if obs["_cls"] != "Grid2DIrregular":
                return False, f"projected line is a {obs['_cls']}"
            if not self._pts_close(obs["seen"], exp, 1e-9, self._floor(case)):
                return False, ("the projected line does not follow the remove_projected_centre value in force "
                               f"(explicit={case.get('explicit')}, configuration={bool(case.get('rpc'))})")
            return True, ""
        if kind == "project":
            g = case["grid"]
            attrs = case["attrs"]
            cy, cx = (float(Fraction(v)) for v in case["centre"]) if attrs in ("both", "centre_only") else (0.0, 0.0)
            ang = float(Fraction(case["angle"])) + 90.0 if attrs == "both" else 0.0
            a = math.radians(ang)
            pair = "cx" in case["func"]
            if case.get("xa") and not obs.get("_xa_ok"):
                return False, "the user function did not receive its own extra arguments as they were given"
            if g["type"] == "irregular":
                exp = [(float(p[0]), float(p[1])) for p in self._grid_pts(g, obs)]
                want_cls = "Grid2DIrregular" if pair else "ArrayIrregular"
            elif g["type"] == "oned":
                xs = [float(x) for x in self._grid_pts(g, obs)]
                exp = [(-x * math.sin(a), x * math.cos(a)) for x in xs]
                want_cls = "Array1D"
            else:
                h, w = g["mask"]["h"], g["mask"]["w"]
                sy, sx = (Fraction(v) for v in g["scales"])
                oy, ox = (Fraction(v) for v in g["origin"])
                fcy, fcx = (Fraction(cy), Fraction(cx))
                d = [ox + w * sx / 2 - fcx, oy + h * sy / 2 - fcy, fcx - (ox - w * sx / 2), fcy - (oy - h * sy / 2)]
                dist = max(d)
                ps = sy if dist in (d[1], d[3]) else sx
                quo = dist / ps
                n = int(quo) + 1 if quo >= 0 else None
                if n is None:
                    raise Skip("centre outside the extent on every side")
                exp = [(cy - k * float(ps) * math.sin(a), cx + k * float(ps) * math.cos(a)) for k in range(n)]
                if case.get("rpc"):
                    exp = exp[1:]  # configuration value remove_projected_centre in force: without the centre
                want_cls = "Array1D"
            if obs["_cls"] != want_cls:
                return False, f"project_grid returned {obs['_cls']}, expected {want_cls}"
            S = self._floor(case)
            if not self._pts_close(obs["seen"], exp, 1e-9, S):
                return False, ("function did not receive the radially projected line (centre + k*s rotated by angle)"
                               + (" without its centre point (remove_projected_centre in force)" if case.get("rpc") else ""))
            vals = _eval_func(self._xa_funcs([case["func"]], case.get("xa"))[0], exp, float, pair)
            got = obs["values"]
            ok = len(got) == len(vals) and all(
                (self._close(a[0], b[0], 1e-8, S) and self._close(a[1], b[1], 1e-8, S)) if pair
                else self._close(a, b, 1e-8, S)
                for a, b in zip(got, vals))
            return ok, "" if ok else "entry k of the result is not f at projected point k"
        if kind == "relocate":
            # (worlds beyond 2^+-500: everything scaled back by the exact power of two first, so that the products
            # formed below stay inside the double range; IEEE arithmetic commutes with such a scaling)
            nf = Fraction(2) ** (-case["msc"]) if case.get("msc") else 1
            cy, cx = (float(Fraction(v) * nf) for v in (["0", "0"] if case.get("pre") else case["centre"]))
            rmin = float(Fraction(case["rmin"]) * nf)
            pts = [(float(a * nf) - cy, float(b * nf) - cx) for a, b in self._grid_pts(case["grid"], obs)]
            seen = [(float(Fraction(a) * nf), float(Fraction(b) * nf)) for a, b in obs["seen"]]
            if len(seen) != len(pts):
                return False, "number of coordinates changed"
            if obs["_n_transforms"] != (0 if case.get("pre") else 1):
                return False, f"grid transformed {obs['_n_transforms']} times"
            if case.get("xa") and not obs.get("_xa_ok"):
                return False, "the user function did not receive its own extra positional arguments"
            want_t = {"Grid2D": "Grid2D", "Grid2DIrregular": "Grid2DIrregular", "ndarray": "ndarray"}[obs["_in_type"]]
            if obs["_seen_type"] != want_t:
                return False, f"relocated grid is a {obs['_seen_type']}, input was {want_t}"
            for k, (p, s) in enumerate(zip(pts, seen)):
                r = math.sqrt(p[0] * p[0] + p[1] * p[1])
                rs = math.sqrt(s[0] * s[0] + s[1] * s[1])
                on_ray = (abs(p[0] * s[1] - p[1] * s[0]) <= 1e-9 * max(1e-300, r * rs)
                          and p[0] * s[0] + p[1] * s[1] >= 0)
                moved_ok = abs(rs - rmin) <= 1e-9 * rmin and (r == 0 or on_ray)
                if abs(r - rmin) <= 1e-9 * rmin:
                    if not (s == p or moved_ok):
                        return False, f"coordinate {k} at the minimum radius was displaced"
                elif r < rmin:
                    if not moved_ok:
                        return False, (f"coordinate {k} at radius {r!r} < minimum {rmin!r} was moved to radius "
                                       f"{rs!r}" + ("" if r == 0 or on_ray else " off its ray"))
                elif s != p:
                    return False, f"coordinate {k} at radius {r!r} >= minimum {rmin!r} did not reach the function unchanged"
            return True, ""
        if kind == "transform":
            cy, cx = (Fraction(v) for v in case["centre"])
            pts = [(Fraction(a), Fraction(b)) for a, b in case["pts"]]
            exp = pts if case["flag"] else [(a - cy, b - cx) for a, b in pts]
            if not self._pts_close(obs["seen"], exp, 0.0):
                return False, "innermost function did not receive the grid transformed exactly once"
            if obs["_n_transforms"] != (0 if case["flag"] else 1):
                return False, f"grid transformed {obs['_n_transforms']} times"
            return (obs["flag"] is True), "is_transformed flag not set for the inner call"
        return True, ""

    # ------------------------------------------------------------------ bookkeeping
    def nontrivial(self, case, obs):
        kind = case["case"]
        if kind == "history":
            return sum(1 for st in case["steps"] if st["act"] == "call") >= 2
        if case.get("big"):
            return True
        if kind == "dispatch":
            g = case["grid"]
            if g["type"] == "uniform":
                b = g["mask"]["bits"]
                return "1" in b and b.count("0") >= 2
            if g["type"] == "irregular":
                return len(g["pts"]) >= 2
            return g["bits"].count("0") >= 2
        if kind == "relocate":
            cy, cx = (Fraction(v) for v in (["0", "0"] if case.get("pre") else case["centre"]))
            rmin = Fraction(case["rmin"])
            r2 = [(a - cy) ** 2 + (b - cx) ** 2 for a, b in self._grid_pts(case["grid"])]
            return any(v < rmin * rmin for v in r2) and any(v > rmin * rmin for v in r2)
        return True

    def known_finding(self, case, obs):
        return None

    def shrink(self, case):
        kind = case["case"]
        if case.get("big"):
            return
        if kind == "history":
            steps = case["steps"]
            if any(st["act"] in ("scribble", "conf") or st.get("fscrib") or st.get("rmin_via") == "push" for st in steps):
                # ownership / configuration histories (round 5/6) look for PROCESS-WIDE state (a memo handing out its
                # own array, a configuration value cached at first use).  Once such state is poisoned, every shorter
                # history fails in this process too, but would not fail when replayed in a fresh one: the whole
                # history (observe -> overwrite / reconfigure -> rebuild -> observe) is the replay.
                return
            for i in range(len(steps) - 1, -1, -1):
                cand = steps[:i] + steps[i + 1:]
                if self._hist_ok(cand):
                    yield {**case, "steps": cand}
            for i, st in enumerate(steps):
                if st["act"] == "call" and st.get("list") and len(st.get("funcs", [])) > 1:
                    yield {**case, "steps": steps[:i] + [{**st, "funcs": st["funcs"][:1]}] + steps[i + 1:]}
            return
        if kind == "relocate" and case["grid"]["type"] in ("irregular", "ndarray"):
            pts = case["grid"]["pts"]
            for i in range(len(pts)):
                if len(pts) > 1:
                    yield {**case, "grid": {**case["grid"], "pts": pts[:i] + pts[i + 1:]}}
        if kind == "dispatch":
            if case["list"] and len(case["funcs"]) > 1:
                yield {**case, "funcs": case["funcs"][:1]}
            for i, fn in enumerate(case["funcs"]):
                if fn["mode"] != "poly":
                    fs = list(case["funcs"])
                    fs[i] = {**fn, "mode": "poly"}
                    yield {**case, "funcs": fs}
            g = case["grid"]
            if g["type"] == "irregular" and len(g["pts"]) > 1:
                for i in range(len(g["pts"])):
                    yield {**case, "grid": {**g, "pts": g["pts"][:i] + g["pts"][i + 1:]}}
            if g["type"] == "uniform":
                bits = g["mask"]["bits"]
                for i, c in enumerate(bits):
                    if c == "0" and bits.count("0") > 1:
                        yield {**case, "grid": {**g, "mask": {**g["mask"], "bits": bits[:i] + "1" + bits[i + 1:]}}}

    def theorems_for(self, case):
        if case["case"] == "history":
            kinds = {"array": "dispatch", "grid": "dispatch", "vector": "dispatch"}
            out = []
            for st in case["steps"]:
                if st["act"] == "call":
                    for t in self.theorems_for({"case": kinds.get(st["what"], st["what"])}):
                        if t not in out:
                            out.append(t)
            return out
        return {
            "dispatch": ["C17.dispatch_uniform", "C17.dispatch_irregular", "C17.dispatch_oned",
                         "C17.list_wrapped_elementwise", "C17.pointwise_entry_k"],
            "project": ["C17.projected_line_1d", "C17.projected_line_1d_plain", "C17.projected_line_2d",
                        "C17.projected_line_follows_config"],
            "projline": ["C17.projected_line_2d", "C17.explicit_flag_overrides_config"],
            "relocate": ["C17.relocate_inside", "C17.relocate_outside_unchanged", "C17.relocate_centre",
                         "C17.relocate_entry_k"],
            "transform": ["C17.transform_once"],
        }[case["case"]]

    def sample_view(self, case):
        return {k: v for k, v in case.items() if not k.startswith("_")}


CHECK = C17()
