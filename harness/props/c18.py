"""C18 — border relocation only pulls outliers radially inward to the border; sub-border indices."""
from __future__ import annotations

import math
from fractions import Fraction

import numpy as np

import gen
from common import PropertyCheck, Skip, load_autoarray, mask_json, q, unq

F = Fraction
BAND = F(1, 10**9)          # the 1e-9 band inside which discrete decisions are not compared
POW2 = {1, 2, 4, 8}


# ------------------------------------------------------------------------------------------------
# exact helpers (Fractions) — independent statements used by the generator and the oracle
# ------------------------------------------------------------------------------------------------
def unmasked_pixels(rows):
    return [(y, x) for y, r in enumerate(rows) for x, b in enumerate(r) if not b]


def sub_offsets(sub):
    off, out = 0, []
    for s in sub:
        out.append(off)
        off += s * s
    return out, off


def sub_pos_pixel_units(y, x, s, y1, x1):
    """centre of sub-pixel (y1,x1) of pixel (y,x) in pixel units (y downward, x rightward)."""
    return (F(y) + F(2 * y1 + 1, 2 * s) - F(1, 2), F(x) + F(2 * x1 + 1, 2 * s) - F(1, 2))


def region_centre(rows):
    px = unmasked_pixels(rows)
    ys = [p[0] for p in px]
    xs = [p[1] for p in px]
    return (F(min(ys) + max(ys), 2), F(min(xs) + max(xs), 2))


def farthest_candidates(rows, sub, k):
    """sub-slim indices of slim pixel k whose sub-pixel centre is farthest (exactly) from the centre
    of the bounding box of the unmasked region, in pixel units; in sub-index order."""
    px = unmasked_pixels(rows)
    offs, _ = sub_offsets(sub)
    cy, cx = region_centre(rows)
    y, x = px[k]
    s = sub[k]
    ds = []
    for y1 in range(s):
        for x1 in range(s):
            py, pxx = sub_pos_pixel_units(y, x, s, y1, x1)
            ds.append((py - cy) ** 2 + (pxx - cx) ** 2)
    mx = max(ds)
    return [offs[k] + i for i, d in enumerate(ds) if d == mx]


def scaled_sub_grid(rows, sub, ps, origin):
    """exact scaled (y,x) of every sub-pixel, sub-slim order."""
    h, w = len(rows), len(rows[0])
    out = []
    for k, (y, x) in enumerate(unmasked_pixels(rows)):
        s = sub[k]
        for y1 in range(s):
            for x1 in range(s):
                py, pxx = sub_pos_pixel_units(y, x, s, y1, x1)
                out.append((-(py - F(h - 1, 2)) * ps[0] + origin[0],
                            (pxx - F(w - 1, 2)) * ps[1] + origin[1]))
    return out


def border_pixels_independent(rows):
    """border pixel = unmasked pixel with a masked 8-neighbour from which one of the four axis
    directions runs to the array edge over masked pixels only.  Only used for masks whose outer
    ring is masked (there every reading of the definition coincides)."""
    h, w = len(rows), len(rows[0])
    px = unmasked_pixels(rows)
    out = []
    for k, (y, x) in enumerate(px):
        edge = any(rows[y + dy][x + dx] for dy in (-1, 0, 1) for dx in (-1, 0, 1) if (dy, dx) != (0, 0))
        if not edge:
            continue
        up = all(rows[yy][x] for yy in range(0, y))
        down = all(rows[yy][x] for yy in range(y + 1, h))
        left = all(rows[y][xx] for xx in range(0, x))
        right = all(rows[y][xx] for xx in range(x + 1, w))
        if up or down or left or right:
            out.append(k)
    return out


def ring_masked(rows):
    h, w = len(rows), len(rows[0])
    return all(rows[y][x] for y in range(h) for x in range(w) if y in (0, h - 1) or x in (0, w - 1))


def sq(p, o):
    return (p[0] - o[0]) ** 2 + (p[1] - o[1]) ** 2


def fsqrt(fr):
    """float sqrt of a non-negative Fraction (float(Fraction) is correctly rounded)."""
    return math.sqrt(float(fr))


def radius_leq(a2, b2, tol):
    """sqrt(a2) <= sqrt(b2) + 2*tol, evaluated in floats with a little slack."""
    return fsqrt(a2) <= fsqrt(b2) * (1 + 1e-12) + 2 * float(tol)


class Analysis:
    """exact quantities of one relocation (border point list B, all Fractions)."""

    def __init__(self, border):
        n = len(border)
        self.B = border
        self.o = (sum(b[0] for b in border) / n, sum(b[1] for b in border) / n)
        self.r2 = [sq(b, self.o) for b in border]
        self.rmin2 = min(self.r2)
        self.rmax2 = max(self.r2)
        self.bset = set(border)

    def point(self, p):
        """(rp2, in_band_of_rmin, candidate border radii² of (near-)nearest border points)."""
        rp2 = sq(p, self.o)
        d2 = [sq(p, b) for b in self.B]
        dmin = min(d2)
        cand = [self.r2[i] for i, d in enumerate(d2) if d <= dmin * (1 + 4 * BAND)]
        band = abs(rp2 - self.rmin2) <= 4 * BAND * max(self.rmin2, rp2)
        return rp2, band, cand


GRID_FORMS = ["int64", "int_list", "raw_int64", "float32", "raw_float64", "int_tuple_list"]
MESH_FORMS = ["int64", "int_list", "raw_int64", "float32"]


def is_f32(fr):
    import struct
    x = float(fr)
    try:
        return F(struct.unpack("f", struct.pack("f", x))[0]) == fr
    except OverflowError:
        return False


def as_input(aa, values, form, mask=None):
    """hand a coordinate list to the API in the requested representation; returns (object, float64 copy)."""
    flo = np.array([[float(F(a)), float(F(b))] for a, b in values]).reshape(-1, 2)
    if form in ("int64", "raw_int64"):
        arr = np.array([[int(F(a)), int(F(b))] for a, b in values], dtype=np.int64).reshape(-1, 2)
    elif form == "int_list":
        arr = [[int(F(a)), int(F(b))] for a, b in values]
    elif form == "int_tuple_list":
        arr = [(int(F(a)), int(F(b))) for a, b in values]
    elif form == "float32" and all(is_f32(F(a)) and is_f32(F(b)) for a, b in values):
        arr = flo.astype(np.float32)
    else:
        arr = flo.copy()
    if form.startswith("raw"):
        return arr, flo
    if mask is not None:
        return aa.Grid2D(values=arr, mask=mask), flo
    return aa.Grid2DIrregular(values=arr), flo


def pts(lst):
    return [(F(a), F(b)) for a, b in lst]


# ------------------------------------------------------------------------------------------------
class C18(PropertyCheck):
    pid = "C18"
    title = "border relocation"
    rtol = BAND
    atol = F(0)
    nontrivial_rule = (
        "a case is non-trivial when at least one coordinate is moved and at least one is left unchanged "
        "(or, for sub-border-only cases, when some border pixel has sub-size > 1); distinct = distinct "
        "(mask, sub-size map, pixel scales, origin, grid, mesh)"
    )
    exhaustive_note = {
        "quick": "every mask of a 3x3 interior inside a 5x5 frame (511 border shapes) with sub-size 2: "
                 "sub-border indices and relocation of a stretched grid",
        "thorough": "every mask of a 3x3 interior inside a 5x5 frame with sub-sizes 1,2,3,4 and every mask "
                    "of a 3x4 interior inside a 5x6 frame (4095 shapes) with sub-size 2",
    }
    # loop ties (DESIGN §12): regenerated from the source on every run, tie theorems proved for all sizes
    loop_tie_modules = ["LoopsRelocate"]
    modelled_functions = [
        "autoarray/structures/grids/grid_2d_util.py:relocated_grid_via_jit_from",
        "autoarray/structures/grids/grid_2d_util.py:furthest_grid_2d_slim_index_from",
        "autoarray/structures/grids/grid_2d_util.py:grid_2d_centre_from",
        "autoarray/inversion/pixelization/border_relocator.py:sub_slim_indexes_for_slim_index_via_mask_2d_from",
        "autoarray/inversion/pixelization/border_relocator.py:sub_border_pixel_slim_indexes_from",
        "autoarray/inversion/pixelization/border_relocator.py:BorderRelocator.__init__",
        "autoarray/inversion/pixelization/border_relocator.py:BorderRelocator.sub_border_slim",
        "autoarray/inversion/pixelization/border_relocator.py:BorderRelocator.sub_grid",
        "autoarray/inversion/pixelization/border_relocator.py:BorderRelocator.border_grid",
        "autoarray/inversion/pixelization/border_relocator.py:BorderRelocator.sub_border_grid",
        "autoarray/inversion/pixelization/border_relocator.py:BorderRelocator.relocated_grid_from",
        "autoarray/inversion/pixelization/border_relocator.py:BorderRelocator.relocated_mesh_grid_from",
        "autoarray/operators/over_sampling/over_sample_util.py:total_sub_pixels_2d_from",
        "autoarray/operators/over_sampling/over_sample_util.py:slim_index_for_sub_slim_index_via_mask_2d_from",
        "autoarray/operators/over_sampling/over_sample_util.py:grid_2d_slim_over_sampled_via_mask_from",
        "autoarray/geometry/geometry_util.py:central_pixel_coordinates_2d_from",
        "autoarray/geometry/geometry_util.py:central_scaled_coordinate_2d_from",
        "autoarray/mask/mask_2d_util.py:total_pixels_2d_from",
        "autoarray/mask/mask_2d_util.py:border_slim_indexes_from",
        "autoarray/mask/mask_2d_util.py:check_if_border_pixel",
        "autoarray/mask/mask_2d_util.py:total_border_pixels_from",
        "autoarray/mask/mask_2d_util.py:edge_1d_indexes_from",
        "autoarray/inversion/pixelization/mesh/abstract.py:AbstractMesh.relocated_grid_from",
        "autoarray/inversion/pixelization/mesh/abstract.py:AbstractMesh.relocated_mesh_grid_from",
        "autoarray/inversion/pixelization/mesh/rectangular.py:Rectangular.mapper_grids_from",
        "autoarray/inversion/pixelization/mesh/triangulation.py:Triangulation.mapper_grids_from",
    ]
    trusted_extra = [
        "libm sqrt is a parameter of the model (theorems assume 0<=sqrt x and sqrt x*sqrt x = x for x>=0; "
        "discharged for Real.sqrt); the driver runs IEEE doubles with Float.sqrt",
        "the list of border pixels (mask_2d_util.border_slim_indexes_from, property C10) is an input of the "
        "model; the oracle re-derives it independently for masks whose outer ring is masked",
        "numpy fancy indexing / np.mean / np.argmin / np.min glue is covered by correspondence only",
    ]
    assumptions = [
        "coordinates are finite doubles (no NaN/inf)",
        "decisions within 1e-9 (relative) of r_p = r_min or move factor = 1 are not compared (positions are)",
    ]

    # ------------------------------------------------------------------ generation
    def generate(self, tier, rng):
        quick = tier == "quick"
        # 1. exhaustive small border shapes
        frames = [((3, 3), [2])] if quick else [((3, 3), [1, 2, 3, 4]), ((3, 4), [2])]
        for (ih, iw), subs in frames:
            for inner in gen.all_masks(ih, iw):
                rows = gen.full(ih + 2, iw + 2)
                for y in range(ih):
                    for x in range(iw):
                        rows[y + 1][x + 1] = inner[y][x]
                for s in subs:
                    n = len(unmasked_pixels(rows))
                    yield self._case(rng, rows, [s] * n, (F(1), F(1)), (F(0), F(0)), "exh_stretch",
                                     distortion="stretch", int_sub=True)
        # 2. structured random
        n_cases = 160 if quick else 1500
        kinds = ["block", "blocks", "annulus", "cross", "diagonal", "bernoulli", "all", "single",
                 "lshape", "ring_touching"]
        for i in range(n_cases):
            h, w = rng.randint(3, 9), rng.randint(3, 9)
            kind = kinds[i % len(kinds)]
            if kind == "lshape":
                rows = gen.full(h, w)
                for y in range(1, h - 1):
                    rows[y][1] = False
                for x in range(1, w - 1):
                    rows[h - 2][x] = False
                if h > 4 and w > 4 and rng.random() < 0.5:
                    rows[1][w - 2] = False
            elif kind == "ring_touching":
                rows, _ = gen.random_mask(rng, h, w, margin=0, kind="ring_touching")
                for _ in range(rng.randint(1, 6)):
                    rows[rng.randrange(h)][rng.randrange(w)] = False
            else:
                rows, _ = gen.random_mask(rng, h, w, margin=1, kind=kind)
            npx = len(unmasked_pixels(rows))
            mode = rng.choice(["uniform", "uniform", "pow2", "mixed"])
            if mode == "uniform":
                s = rng.choice([1, 2, 3, 4])
                sub = [s] * npx
            elif mode == "pow2":
                sub = [rng.choice([1, 2, 4]) for _ in range(npx)]
            else:
                sub = [rng.choice([1, 2, 3, 4, 5]) for _ in range(npx)]
            ps = (rng.choice(gen.SCALES), rng.choice(gen.SCALES))
            origin = gen.origin_pair(rng) if rng.random() < 0.7 else (F(0), F(0))
            dist = rng.choice(["identity", "scale", "affine", "radial", "jitter", "affine", "radial",
                               "collapse", "line"])
            # input representation (round-3 hardening): ~1/3 of the cases hand the coordinates over
            # as integer-dtype ndarrays / Python int lists / float32 / bare ndarrays
            gform = GRID_FORMS[i % len(GRID_FORMS)] if i % 3 == 1 else "float64"
            mform = MESH_FORMS[(i // 3) % len(MESH_FORMS)] if i % 3 != 0 else "float64"
            yield self._case(rng, rows, sub, ps, origin, f"rand_{kind}_{dist}", distortion=dist,
                             int_sub=(mode == "uniform" and rng.random() < 0.5),
                             via_mesh=(i % 5 == 0), grid_form=gform, mesh_form=mform)
        # 3. degenerate frames: 1xN, Nx1, 1x1, 2x2, all unmasked / one pixel
        shapes = [(1, 1), (1, 4), (5, 1), (2, 2), (2, 3), (3, 3)]
        for k, (h, w) in enumerate(shapes if quick else shapes * 4):
            for variant in ("all", "one"):
                rows = gen.full(h, w, val=(variant != "all"))
                if variant == "one":
                    rows[rng.randrange(h)][rng.randrange(w)] = False
                npx = len(unmasked_pixels(rows))
                s_ = rng.choice([1, 2, 3])
                yield self._case(rng, rows, [s_] * npx, (F(1), F(1, 2)), (F(0), F(0)), f"degenerate_{variant}",
                                 distortion=rng.choice(["scale", "affine", "jitter"]), int_sub=(k % 2 == 0),
                                 grid_form=GRID_FORMS[k % len(GRID_FORMS)],
                                 mesh_form=MESH_FORMS[k % len(MESH_FORMS)])

    def _case(self, rng, rows, sub, ps, origin, tag, distortion, int_sub=False, via_mesh=False,
              grid_form="float64", mesh_form="float64"):
        base = scaled_sub_grid(rows, sub, ps, origin)
        n = len(base)
        rd = lambda v: F(round(v * 1024), 1024)
        cy = sum(p[0] for p in base) / n
        cx = sum(p[1] for p in base) / n
        piv = (rd(cy) + (gen.dyadic(rng, -1, 1, 2) if distortion != "stretch" else 0),
               rd(cx) + (gen.dyadic(rng, -1, 1, 2) if distortion != "stretch" else 0))
        if distortion == "identity":
            f = lambda p: p
        elif distortion == "stretch":
            # fixed, seed-independent: anisotropic stretch + shear about the grid mean
            f = lambda p: (piv[0] + F(3, 2) * (p[0] - piv[0]) + F(1, 4) * (p[1] - piv[1]),
                           piv[1] + F(5, 4) * (p[1] - piv[1]) - F(1, 2) * (p[0] - piv[0]) + F(1, 8))
        elif distortion == "scale":
            k = rng.choice([F(1, 2), F(3, 4), F(5, 4), F(3, 2), F(3), F(-1)])
            f = lambda p: (piv[0] + k * (p[0] - piv[0]), piv[1] + k * (p[1] - piv[1]))
        elif distortion == "affine":
            a, b, c, d = (gen.dyadic(rng, -2, 2, 2) for _ in range(4))
            ty, tx = gen.dyadic(rng, -3, 3, 2), gen.dyadic(rng, -3, 3, 2)
            f = lambda p: (piv[0] + a * (p[0] - piv[0]) + b * (p[1] - piv[1]) + ty,
                           piv[1] + c * (p[0] - piv[0]) + d * (p[1] - piv[1]) + tx)
        elif distortion == "radial":
            kap = rng.choice([F(1, 16), F(1, 4), F(-1, 32), F(-1, 8), F(1, 64)])
            f = lambda p: (piv[0] + (p[0] - piv[0]) * (1 + kap * sq(p, piv)),
                           piv[1] + (p[1] - piv[1]) * (1 + kap * sq(p, piv)))
        elif distortion == "jitter":
            f = lambda p: (p[0] + gen.dyadic(rng, -1, 1, 4), p[1] + gen.dyadic(rng, -1, 1, 4))
        elif distortion == "collapse":
            f = lambda p: piv
        else:  # line: all points on one line
            a, b = gen.dyadic(rng, -2, 2, 2), gen.dyadic(rng, -2, 2, 2)
            f = lambda p: (piv[0] + a * (p[0] - piv[0] + p[1]), piv[1] + b * (p[0] - piv[0] + p[1]))
        grid = [tuple(rd(v) for v in f(p)) for p in base]
        # post-operations that need the border (seeded cases only)
        mesh = []
        if distortion != "stretch":
            bpx = border_pixels_independent(rows) if ring_masked(rows) else []
            sb = [farthest_candidates(rows, sub, k)[-1] for k in bpx]
            if sb:
                B = [grid[i] for i in sb]
                an = Analysis(B)
                imin = an.r2.index(an.rmin2)
                imax = an.r2.index(an.rmax2)
                free = [i for i in range(n) if i not in set(sb)]
                rng.shuffle(free)

                def hug(b, eps, sign):
                    return tuple(F(float(an.o[c] + sign * (b[c] - an.o[c]) * (1 + eps))) for c in (0, 1))

                specials = []
                e20 = F(1, 2 ** 20)
                for b in (B[imin], B[imax], B[rng.randrange(len(B))]):
                    specials += [b, hug(b, e20, 1), hug(b, -e20, 1), hug(b, e20, -1), hug(b, -e20, -1),
                                 hug(b, F(63), 1), hug(b, F(-1, 2), 1)]
                specials += [tuple(F(float(v)) for v in an.o), (F(1000), F(-2000)), (F(-5, 4), F(10 ** 6))]
                for i, sp in zip(free, rng.sample(specials, min(len(specials), max(1, len(free) // 3)))):
                    grid[i] = sp
                # duplicates
                for _ in range(min(3, len(free))):
                    grid[rng.choice(free)] = grid[rng.randrange(n)]
                # mesh vertices: inside, far outside, on the border, hugging
                for _ in range(rng.randint(3, 12)):
                    c = rng.random()
                    if c < 0.3:
                        mesh.append(rng.choice(specials))
                    elif c < 0.5:
                        mesh.append(grid[rng.randrange(n)])
                    else:
                        mesh.append((an.o[0].__floor__() + gen.dyadic(rng, -12, 12, 3),
                                     an.o[1].__floor__() + gen.dyadic(rng, -12, 12, 3)))
            else:
                for _ in range(rng.randint(0, 6)):
                    mesh.append((gen.dyadic(rng, -12, 12, 3), gen.dyadic(rng, -12, 12, 3)))
        if not mesh and mesh_form != "float64":
            mesh = [(gen.dyadic(rng, -12, 12, 3), gen.dyadic(rng, -12, 12, 3)) for _ in range(rng.randint(1, 5))]
            mesh.append((F(40), F(-3)))
        if "int" in grid_form:
            grid = [(F(round(a)), F(round(b))) for a, b in grid]
        elif "float32" in grid_form and not all(is_f32(a) and is_f32(b) for a, b in grid):
            grid_form = "float64"
        if "int" in mesh_form:
            mesh = [(F(round(a)), F(round(b))) for a, b in mesh]
        if grid_form.startswith("raw"):
            via_mesh = False
        if grid_form != "float64" or mesh_form != "float64":
            tag = f"{tag}|{grid_form}|{mesh_form}"
        return {
            "tag": tag, "mask": mask_json(rows), "sub": list(sub), "int_sub": bool(int_sub),
            "ps": [q(ps[0]), q(ps[1])], "origin": [q(origin[0]), q(origin[1])],
            "grid": [[q(a), q(b)] for a, b in grid], "mesh": [[q(a), q(b)] for a, b in mesh],
            "via_mesh": bool(via_mesh), "grid_form": grid_form, "mesh_form": mesh_form,
        }

    # ------------------------------------------------------------------ implementation
    @staticmethod
    def _rows(case):
        mj = case["mask"]
        bits = [c == "1" for c in mj["bits"]]
        return [bits[y * mj["w"]:(y + 1) * mj["w"]] for y in range(mj["h"])]

    def run_impl(self, case):
        aa = load_autoarray()
        from autoarray.inversion.pixelization.border_relocator import BorderRelocator

        rows = self._rows(case)
        ps = tuple(float(F(v)) for v in case["ps"])
        origin = tuple(float(F(v)) for v in case["origin"])
        mask = aa.Mask2D(mask=np.array(rows, dtype=bool), pixel_scales=ps, origin=origin)
        sub = case["sub"]
        if case.get("int_sub") and len(set(sub)) == 1:
            sub_size = int(sub[0])
        else:
            sub_size = aa.Array2D(values=np.array(sub, dtype=int), mask=mask)
        br = BorderRelocator(mask=mask, sub_size=sub_size)
        border = [int(v) for v in np.asarray(mask.derive_indexes.border_slim)]
        sb = [int(v) for v in np.asarray(br.sub_border_slim)]
        obs = {"border": border, "sub_border": sb}
        if not sb:
            obs["empty_border"] = True
            return obs
        obs["sub_border_grid"] = [[q(a), q(b)] for a, b in np.asarray(br.sub_border_grid)]
        use_grid2d = all(s == 1 for s in sub) and case.get("via_mesh")
        grid, before = as_input(aa, case["grid"], case.get("grid_form", "float64"),
                                mask=mask if use_grid2d else None)
        out = br.relocated_grid_from(grid=grid)
        outa = np.asarray(out.array if hasattr(out, "array") else out, dtype=float).reshape(-1, 2)
        obs["grid"] = [[q(a), q(b)] for a, b in outa]
        obs["moved"] = [bool(not (outa[i, 0] == before[i, 0] and outa[i, 1] == before[i, 1]))
                        for i in range(len(before))]
        obs["input_untouched"] = bool(np.array_equal(
            np.asarray(grid.array if hasattr(grid, "array") else grid, dtype=float).reshape(-1, 2), before))
        if case["mesh"]:
            mesh, _ = as_input(aa, case["mesh"], case.get("mesh_form", "float64"))
            om = br.relocated_mesh_grid_from(grid=grid, mesh_grid=mesh)
            obs["mesh"] = [[q(a), q(b)] for a, b in np.asarray(om.array).reshape(-1, 2)]
            oc = br.relocated_mesh_grid_from(grid=out, mesh_grid=mesh)
            obs["mesh_chained"] = [[q(a), q(b)] for a, b in np.asarray(oc.array).reshape(-1, 2)]
            if case.get("via_mesh"):
                # the documented entry points: mesh.mapper_grids_from(..., border_relocator=...)
                mg = aa.mesh.Delaunay().mapper_grids_from(
                    mask=mask, source_plane_data_grid=grid, border_relocator=br,
                    source_plane_mesh_grid=mesh)
                obs["via_delaunay_grid"] = [[q(a), q(b)] for a, b in
                                            np.asarray(mg.source_plane_data_grid.array).reshape(-1, 2)]
                obs["via_delaunay_mesh"] = [[q(a), q(b)] for a, b in
                                            np.asarray(mg.source_plane_mesh_grid.array).reshape(-1, 2)]
        if case.get("via_mesh"):
            mg = aa.mesh.Rectangular(shape=(3, 3)).mapper_grids_from(
                mask=mask, source_plane_data_grid=grid, border_relocator=br)
            obs["via_rectangular_grid"] = [[q(a), q(b)] for a, b in
                                           np.asarray(mg.source_plane_data_grid.array).reshape(-1, 2)]
        return obs

    # ------------------------------------------------------------------ model
    def model_requests(self, case, impl_obs):
        if "err" in impl_obs:
            return []
        reqs = [{"op": "c18.sub_border", "mask": case["mask"], "sub": case["sub"],
                 "border": impl_obs["border"]}]
        if impl_obs.get("empty_border"):
            return reqs
        reqs.append({"op": "c18.sub_grid", "mask": case["mask"], "sub": case["sub"],
                     "pixel_scales": case["ps"], "origin": case["origin"]})
        r = {"op": "c18.relocate", "grid": case["grid"], "sub_border": impl_obs["sub_border"]}
        if case["mesh"]:
            r["mesh"] = case["mesh"]
        reqs.append(r)
        return reqs

    def model_obs(self, case, responses):
        for r in responses:
            if "err" in r:
                return {"err": r["err"]}
        out = {"sub_border": responses[0]["ok"]["idx"], "ties": responses[0]["ok"]["ties"]}
        if len(responses) > 1:
            out["sub_grid"] = responses[1]["ok"]
            out.update(responses[2]["ok"])
        return out

    def compare(self, case, impl_obs, model_obs, cmp):
        if "err" in impl_obs or "err" in model_obs:
            return cmp.diff(impl_obs, model_obs)
        exact_sub = all(s in POW2 for s in case["sub"])
        sb_i, sb_m, ties = impl_obs["sub_border"], model_obs["sub_border"], model_obs["ties"]
        if len(sb_i) != len(sb_m):
            return f"$.sub_border: length impl={len(sb_i)} model={len(sb_m)}"
        for k, (a, b) in enumerate(zip(sb_i, sb_m)):
            if exact_sub or len(ties[k]) == 1:
                d = cmp.diff(a, b, f"$.sub_border[{k}]")
                if d:
                    return d
            elif a not in ties[k]:
                return f"$.sub_border[{k}]: impl={a} not among the exact maximisers {ties[k]}"
        if impl_obs.get("empty_border"):
            return None
        sg = model_obs["sub_grid"]
        d = cmp.diff(impl_obs["sub_border_grid"], [sg[i] for i in sb_i], "$.sub_border_grid")
        if d:
            return d
        d = cmp.diff(impl_obs["grid"], model_obs["grid"], "$.grid")
        if d:
            return d
        # moved/unchanged flags: exact, except inside the 1e-9 decision band
        grid = pts(case["grid"])
        an = Analysis([grid[i] for i in sb_i])
        for i, p in enumerate(grid):
            rp2, band, cand = an.point(p)
            near_one = any(abs(c - rp2) <= 4 * BAND * rp2 for c in cand)
            if band or near_one:
                continue
            d = cmp.diff(impl_obs["moved"][i], model_obs["moved"][i], f"$.moved[{i}]")
            if d:
                return d
        for key in ("mesh", "mesh_chained"):
            if key in impl_obs:
                d = cmp.diff(impl_obs[key], model_obs.get(key), f"$.{key}")
                if d:
                    return d
        return None

    # ------------------------------------------------------------------ oracle
    def oracle(self, case, obs):
        if "err" in obs:
            return False, f"implementation raised {obs}"
        rows = self._rows(case)
        sub = case["sub"]
        border, sb = obs["border"], obs["sub_border"]
        # (d) sub-border indices
        if ring_masked(rows):
            exp_border = border_pixels_independent(rows)
            if border != exp_border:
                return False, f"border pixels {border} != independently derived {exp_border}"
        if len(sb) != len(border):
            return False, "one sub-border index per border pixel expected"
        for k, (b, s_idx) in enumerate(zip(border, sb)):
            cands = farthest_candidates(rows, sub, b)
            if s_idx not in cands:
                return False, (f"(d) border pixel {b}: sub index {s_idx} is not a sub-pixel of that pixel "
                               f"farthest from the bounding-box centre (farthest: {cands})")
        if obs.get("empty_border"):
            return True, ""
        ps = tuple(F(v) for v in case["ps"])
        origin = tuple(F(v) for v in case["origin"])
        sg = scaled_sub_grid(rows, sub, ps, origin)
        for k, s_idx in enumerate(sb):
            got = pts([obs["sub_border_grid"][k]])[0]
            for c in (0, 1):
                if abs(got[c] - sg[s_idx][c]) > BAND * max(1, abs(sg[s_idx][c])):
                    return False, f"(d) sub_border_grid[{k}] is not the coordinate of sub-pixel {s_idx}"
        # (a)(b)(c) relocation
        grid = pts(case["grid"])
        if not obs["input_untouched"]:
            return False, "relocation modified its input grid"
        B = [grid[i] for i in sb]
        an = Analysis(B)
        ok, why = self._check_relocation(an, grid, pts(obs["grid"]), obs["moved"], "grid")
        if not ok:
            return False, why
        if "mesh" in obs:
            mesh = pts(case["mesh"])
            for key in ("mesh", "mesh_chained", "via_delaunay_mesh"):
                if key in obs:
                    ok, why = self._check_relocation(an, mesh, pts(obs[key]), None, key)
                    if not ok:
                        return False, why + " (mesh vertices must be relocated against the DATA grid's border)"
        for key in ("via_delaunay_grid", "via_rectangular_grid"):
            if key in obs:
                ok, why = self._check_relocation(an, grid, pts(obs[key]), None, key)
                if not ok:
                    return False, why
        return True, ""

    @staticmethod
    def _check_relocation(an, inp, out, moved, name):
        if len(out) != len(inp):
            return False, f"(c) {name}: {len(inp)} coordinates in, {len(out)} out"
        o = an.o
        for i, (p, r) in enumerate(zip(inp, out)):
            rp2, band, cand = an.point(p)
            scale = max(1, abs(p[0]), abs(p[1]), abs(o[0]), abs(o[1]))
            tol = 4 * BAND * scale
            same = (r == p)
            close_same = abs(r[0] - p[0]) <= tol and abs(r[1] - p[1]) <= tol
            ro2 = sq(r, o)
            # global inequalities: never outward, never beyond the farthest border point
            if not radius_leq(ro2, rp2, tol):
                return False, f"(b) {name}[{i}] moved outward: radius² {float(rp2)} -> {float(ro2)}"
            if not radius_leq(ro2, an.rmax2, tol):
                return False, (f"(c) {name}[{i}] ends at radius² {float(ro2)} beyond the farthest border "
                               f"point ({float(an.rmax2)})")
            if rp2 <= an.rmin2 and (not band or p in an.bset):
                # (a) inside the smallest border radius (strictly, or exactly a min-radius border point)
                if not same:
                    return False, (f"(a) {name}[{i}] has radius <= the smallest border radius but is not "
                                   f"bit-for-bit unchanged: {tuple(map(float, p))} -> {tuple(map(float, r))}")
                continue
            if p in an.bset:
                # its nearest border point is itself: the radius is not smaller, so it stays
                if not close_same:
                    return False, f"(b) {name}[{i}] coincides with a border point but was moved"
                continue
            # expected outcomes for each (near-)nearest border point
            outcomes = []
            if band and rp2 <= an.rmin2 * (1 + 4 * BAND):
                outcomes.append(p)
            for rb2 in cand:
                if rb2 < rp2:
                    t = fsqrt(rb2 / rp2)
                    tF = F(t)
                    outcomes.append((o[0] + tF * (p[0] - o[0]), o[1] + tF * (p[1] - o[1])))
                    if rb2 >= rp2 * (1 - 4 * BAND):
                        outcomes.append(p)
                else:
                    outcomes.append(p)
            hit = any(abs(r[0] - e[0]) <= tol and abs(r[1] - e[1]) <= tol for e in outcomes)
            if not hit:
                return False, (f"(b) {name}[{i}]: {tuple(map(float, p))} -> {tuple(map(float, r))}, expected "
                               f"{[tuple(map(float, e)) for e in outcomes]} (centroid {tuple(map(float, o))})")
            # same ray: cross product zero, dot product non-negative
            cr = (r[0] - o[0]) * (p[1] - o[1]) - (r[1] - o[1]) * (p[0] - o[0])
            dt = (r[0] - o[0]) * (p[0] - o[0]) + (r[1] - o[1]) * (p[1] - o[1])
            if abs(cr) > tol * (abs(p[0] - o[0]) + abs(p[1] - o[1]) + tol) * 2 or dt < -tol * tol:
                return False, f"(b) {name}[{i}] left its ray from the centroid"
        return True, ""

    def nontrivial(self, case, obs):
        if "moved" in obs:
            return any(obs["moved"]) and not all(obs["moved"])
        return False

    def shrink(self, case):
        g = case["grid"]
        # drop mesh points, then simplify non-border grid points
        if case["mesh"]:
            for i in range(len(case["mesh"])):
                yield {**case, "mesh": case["mesh"][:i] + case["mesh"][i + 1:]}
        if case.get("via_mesh"):
            yield {**case, "via_mesh": False}

    def theorems_for(self, case):
        return ["C18.a_inside_unchanged", "C18.b_moved_along_ray", "C18.b_nearest_border_point",
                "C18.c_within_max_radius", "C18.c_length_order", "C18.c_mesh_uses_data_border",
                "C18.c_border_fixed_and_chained", "C18.d_sub_border_slim",
                "C18.d_sub_border_farthest_from_region_centre"]


CHECK = C18()
