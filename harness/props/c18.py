"""C18 — border relocation only pulls outliers radially inward to the border; sub-border indices."""
from __future__ import annotations

import math
from fractions import Fraction

import numpy as np

import gen
from common import PropertyCheck, Skip, load_autoarray, mask_json, q, unq

F = Fraction
BAND = F(1, 10**9)          # the 1e-9 band inside which discrete decisions are not compared
POW2 = {1, 2, 4, 8}


# ------------------------------------------------------------------------------------------------
# exact helpers (Fractions) — independent statements used by the generator and the oracle
# ------------------------------------------------------------------------------------------------
def unmasked_pixels(rows):
    return [(y, x) for y, r in enumerate(rows) for x, b in enumerate(r) if not b]


def sub_offsets(sub):
    off, out = 0, []
    for s in sub:
        out.append(off)
        off += s * s
    return out, off


def sub_pos_pixel_units(y, x, s, y1, x1):
    """centre of sub-pixel (y1,x1) of pixel (y,x) in pixel units (y downward, x rightward)."""
    return (F(y) + F(2 * y1 + 1, 2 * s) - F(1, 2), F(x) + F(2 * x1 + 1, 2 * s) - F(1, 2))


def region_centre(rows):
    px = unmasked_pixels(rows)
    ys = [p[0] for p in px]
    xs = [p[1] for p in px]
    return (F(min(ys) + max(ys), 2), F(min(xs) + max(xs), 2))


def farthest_candidates(rows, sub, k):
    """sub-slim indices of slim pixel k whose sub-pixel centre is farthest (exactly) from the centre
    of the bounding box of the unmasked region, in pixel units; in sub-index order."""
    px = unmasked_pixels(rows)
    offs, _ = sub_offsets(sub)
    cy, cx = region_centre(rows)
    y, x = px[k]
    s = sub[k]
    ds = []
    for y1 in range(s):
        for x1 in range(s):
            py, pxx = sub_pos_pixel_units(y, x, s, y1, x1)
            ds.append((py - cy) ** 2 + (pxx - cx) ** 2)
    mx = max(ds)
    return [offs[k] + i for i, d in enumerate(ds) if d == mx]


def scaled_sub_grid(rows, sub, ps, origin):
    """exact scaled (y,x) of every sub-pixel, sub-slim order."""
    h, w = len(rows), len(rows[0])
    out = []
    for k, (y, x) in enumerate(unmasked_pixels(rows)):
        s = sub[k]
        for y1 in range(s):
            for x1 in range(s):
                py, pxx = sub_pos_pixel_units(y, x, s, y1, x1)
                out.append((-(py - F(h - 1, 2)) * ps[0] + origin[0],
                            (pxx - F(w - 1, 2)) * ps[1] + origin[1]))
    return out


def border_pixels_independent(rows):
    """border pixel = unmasked pixel with a masked 8-neighbour from which one of the four axis
    directions runs to the array edge over masked pixels only.  Only used for masks whose outer
    ring is masked (there every reading of the definition coincides)."""
    h, w = len(rows), len(rows[0])
    px = unmasked_pixels(rows)
    out = []
    for k, (y, x) in enumerate(px):
        edge = any(rows[y + dy][x + dx] for dy in (-1, 0, 1) for dx in (-1, 0, 1) if (dy, dx) != (0, 0))
        if not edge:
            continue
        up = all(rows[yy][x] for yy in range(0, y))
        down = all(rows[yy][x] for yy in range(y + 1, h))
        left = all(rows[y][xx] for xx in range(0, x))
        right = all(rows[y][xx] for xx in range(x + 1, w))
        if up or down or left or right:
            out.append(k)
    return out


def ring_masked(rows):
    h, w = len(rows), len(rows[0])
    return all(rows[y][x] for y in range(h) for x in range(w) if y in (0, h - 1) or x in (0, w - 1))


def sq(p, o):
    return (p[0] - o[0]) ** 2 + (p[1] - o[1]) ** 2


def fsqrt(fr):
    """float sqrt of a non-negative Fraction (float(Fraction) is correctly rounded)."""
    return math.sqrt(float(fr))


def radius_leq(a2, b2, tol):
    """sqrt(a2) <= sqrt(b2) + 2*tol, evaluated in floats with a little slack."""
    return fsqrt(a2) <= fsqrt(b2) * (1 + 1e-12) + 2 * float(tol)


class Analysis:
    """exact quantities of one relocation (border point list B, all Fractions)."""

    def __init__(self, border):
        n = len(border)
        self.B = border
        self.o = (sum(b[0] for b in border) / n, sum(b[1] for b in border) / n)
        self.r2 = [sq(b, self.o) for b in border]
        self.rmin2 = min(self.r2)
        self.rmax2 = max(self.r2)
        self.bset = set(border)
        self._memo = {}
        self._good = set()
        self.Bf = [(float(b[0]), float(b[1])) for b in border]

    def point(self, p):
        """(rp2, in_band_of_rmin, candidate border radii² of (near-)nearest border points).  Memoised per
        point: the same coordinate is judged for several entry points / history steps against one border."""
        hit = self._memo.get(p)
        if hit is not None:
            return hit
        rp2 = sq(p, self.o)
        # float screen (only ever widens the set that is then measured exactly): a border point whose float
        # squared distance exceeds the float minimum by more than 1e-6 relative (+ an absolute floor far above
        # any rounding of the inputs) cannot be within 4e-9 of the exact minimum
        py, px = float(p[0]), float(p[1])
        df = [(py - by) * (py - by) + (px - bx) * (px - bx) for by, bx in self.Bf]
        lim = min(df) * (1 + 1e-6) + 1e-11 * (py * py + px * px + 1.0)
        near = [i for i, d in enumerate(df) if d <= lim] if lim == lim and lim != float("inf") else range(len(df))
        d2 = [(i, sq(p, self.B[i])) for i in near]
        dmin = min(d for _, d in d2)
        cand = [self.r2[i] for i, d in d2 if d <= dmin * (1 + 4 * BAND)]
        band = abs(rp2 - self.rmin2) <= 4 * BAND * max(self.rmin2, rp2)
        self._memo[p] = (rp2, band, cand)
        return rp2, band, cand


GRID_FORMS = ["int64", "int_list", "raw_int64", "float32", "raw_float64", "int_tuple_list"]
MESH_FORMS = ["int64", "int_list", "raw_int64", "float32"]
# Round 5/6 (R5-C): equal-valued inputs in other memory layouts / containers / constructors.  Every one of them
# was checked to be accepted by the unchanged tree; NOT legal there (and therefore never generated): natively
# stored grids / sub-size maps, tuple-of-tuples and bare Python lists for the data grid, float sub-size maps,
# numpy integer scalars as sub-size, `general.structures.native_binned_only = True`.
LAYOUTS = ["f_order", "tview", "strided", "readonly"]
GRID_LAYOUT_FORMS = (LAYOUTS + ["raw_" + l for l in LAYOUTS]
                     + ["float_list", "tuple_list", "from_irregular", "int32", "raw_int32", "raw_float64"])
MESH_LAYOUT_FORMS = GRID_LAYOUT_FORMS + ["raw_float_list", "alias_grid"]
MASK_FORMS = ["fortran", "tview", "from_mask2d_reset", "strided", "readonly", "list", "int", "from_mask2d",
              "from_mask2d_reset", "invert", "ps_float"]
SUB_FORMS = ["list", "int32", "from_array2d", "readonly", "strided", "int"]


def is_f32(fr):
    import struct
    x = float(fr)
    try:
        return F(struct.unpack("f", struct.pack("f", x))[0]) == fr
    except OverflowError:
        return False


def relayout(arr, how):
    """an equal-valued ndarray with another memory layout (Fortran order, a transposed view of a C array of the
    transposed shape, a strided window into a bigger buffer, read-only)."""
    if how == "f_order" or how == "fortran":
        return np.asfortranarray(arr)
    if how == "tview":
        return np.ascontiguousarray(arr.T).T
    if how == "strided":
        fill = True if arr.dtype == bool else 7
        big = np.full((2 * arr.shape[0] + 1, 2 * arr.shape[1] + 1), fill, dtype=arr.dtype)
        big[1::2, 1::2] = arr
        return big[1::2, 1::2]
    if how == "readonly":
        a = arr.copy()
        a.setflags(write=False)
        return a
    return arr


def as_input(aa, values, form, mask=None, keep=None):
    """hand a coordinate list to the API in the requested representation; returns (object, float64 copy).
    `keep` (a list) receives every array / object created on the way (ownership histories scribble over them)."""
    flo = np.array([[float(F(a)), float(F(b))] for a, b in values]).reshape(-1, 2)
    raw = form.startswith("raw")
    base = form[4:] if raw else form
    if base in ("int64", "int32"):
        arr = np.array([[int(F(a)), int(F(b))] for a, b in values], dtype=base).reshape(-1, 2)
    elif base == "int_list":
        arr = [[int(F(a)), int(F(b))] for a, b in values]
    elif base == "int_tuple_list":
        arr = [(int(F(a)), int(F(b))) for a, b in values]
    elif base == "float_list":
        arr = [[float(a), float(b)] for a, b in flo]
    elif base == "tuple_list":
        arr = [(float(a), float(b)) for a, b in flo]
    elif base == "float32" and all(is_f32(F(a)) and is_f32(F(b)) for a, b in values):
        arr = flo.astype(np.float32)
    elif base in LAYOUTS:
        arr = relayout(flo.copy(), base)
    else:
        arr = flo.copy()
    if keep is not None and isinstance(arr, np.ndarray):
        keep.append(arr)
    if raw:
        return arr, flo
    if mask is not None:
        g = aa.Grid2D(values=arr, mask=mask)
        if base == "from_irregular":
            if keep is not None:
                keep.append(g)
            g = aa.Grid2D(values=g, mask=mask)
    else:
        g = aa.Grid2DIrregular(values=arr)
        if base == "from_irregular":
            if keep is not None:
                keep.append(g)
            g = aa.Grid2DIrregular(values=g)
    if keep is not None:
        keep.append(g)
    return g, flo


def make_mask(aa, rows, ps, origin, form="plain", keep=None):
    """the same mask (values, pixel scales, origin) through another constructor path / container / layout."""
    a = np.array(rows, dtype=bool)
    kw = dict(pixel_scales=ps, origin=origin)
    if form in ("fortran", "tview", "strided", "readonly"):
        a = relayout(a, form)
    elif form == "list":
        a = [[bool(v) for v in r] for r in rows]
    elif form == "int":
        a = a.astype(int)
    elif form == "invert":
        a = ~a
        kw["invert"] = True
    elif form == "ps_float" and ps[0] == ps[1]:
        kw["pixel_scales"] = float(ps[0])
        if origin == (0.0, 0.0):
            del kw["origin"]
    elif form == "from_mask2d":
        a = aa.Mask2D(mask=a, **kw)
    elif form == "from_mask2d_reset":
        # built from a Mask2D that has ANOTHER geometry: the explicit arguments of the new one are what count
        # (also an explicit origin of exactly (0.0, 0.0))
        a = aa.Mask2D(mask=a, pixel_scales=(ps[0] * 2.0, ps[1] * 0.5 + 0.125), origin=(origin[0] + 1.5, origin[1] - 0.75))
    if keep is not None:
        keep.append(a)
    m = aa.Mask2D(mask=a, **kw)
    if keep is not None:
        keep.append(m)
    return m


def make_sub(aa, sub, mask, form="auto", int_sub=False, keep=None):
    """the sub-size map as a Python int (uniform maps) or an Array2D built from another container / dtype / layout."""
    if (int_sub or form == "int") and len(set(sub)) == 1:
        return int(sub[0])
    v = np.array(sub, dtype=int)
    if form == "list":
        v = [int(x) for x in sub]
    elif form == "int32":
        v = v.astype(np.int32)
    elif form == "readonly":
        v.setflags(write=False)
    elif form == "strided":
        big = np.full(2 * len(sub) + 1, 9, dtype=int)
        big[1::2] = v
        v = big[1::2]
    elif form == "from_array2d":
        v = aa.Array2D(values=v, mask=mask)
    if keep is not None:
        keep.append(v)
    a = aa.Array2D(values=v, mask=mask)
    if keep is not None:
        keep.append(a)
    return a


def scribble(objs, mode):
    """overwrite, in place, every writeable array among `objs` (objects of the library are reached through
    `_array`): floats -> nan / +1, integers -> -7 / +1, bools flipped."""
    seen = set()
    for o in objs:
        a = getattr(o, "_array", o)
        if not isinstance(a, np.ndarray) or a.size == 0 or id(a) in seen:
            continue
        seen.add(id(a))
        if not a.flags.writeable:
            continue
        try:
            if a.dtype == bool:
                a[...] = ~a
            elif np.issubdtype(a.dtype, np.integer):
                a[...] = a + 1 if mode == "inc" else -7
            elif np.issubdtype(a.dtype, np.floating):
                a[...] = a + 1.0 if mode == "inc" else np.nan
        except (ValueError, TypeError):
            pass


# Round 5/6 (R5-D): the configuration values read on the C18 call paths (`conf.instance[...]`): only
# `general.profiling.repeats` (numba_util.profile_func around AbstractMesh.relocated_grid_from /
# relocated_mesh_grid_from / mesh_grid_from, active when `run_time_dict` is given).
CONF_KEYS = {"repeats": ("general", "profiling", "repeats")}


def conf_get():
    from autoconf import conf
    return {k: conf.instance[a][b][c] for k, (a, b, c) in CONF_KEYS.items()}


def conf_set(state):
    from autoconf import conf
    for k, v in state.items():
        a, b, c = CONF_KEYS[k]
        conf.instance[a][b][c] = v


def pts(lst):
    return [(F(a), F(b)) for a, b in lst]


# ------------------------------------------------------------------------------------------------
# Round 4 (L1): large cases are described by a RECIPE (mask ops, sub-size spec, source-plane map, explicit
# outliers) and materialised with numpy; they are judged by a vectorised statement of the property
# (exact fall-back on every coordinate the float screen cannot clear), never by the model.
# ------------------------------------------------------------------------------------------------
MAX_HINT = 70000            # 2c+1 coordinates must stay feasible in pure Python
EXPLICIT_MAX = 400          # recipe cases up to this many coordinates are turned into ordinary (modelled) cases


def spec_mask(spec):
    m = np.ones((spec["H"], spec["W"]), dtype=bool)
    for op in spec["ops"]:
        _, y0, y1, x0, x1, v = op
        m[y0:y1, x0:x1] = bool(v)
    return m


def spec_sub(npix, spec):
    """per-pixel sub-size list from {"base": s0, "alts": [[s, count], ...], "first": k, "stride": p}:
    the j-th alternative pixel (counted through all alts) is slim pixel (first + j*stride) mod npix."""
    sub = np.full(npix, int(spec["base"]), dtype=int)
    j = 0
    for s, count in spec.get("alts", []):
        for _ in range(count):
            sub[(spec.get("first", 0) + j * spec.get("stride", 1)) % npix] = s
            j += 1
    return sub


def coprime_stride(n):
    for p in (7, 11, 13, 17, 19, 23, 29, 31, 37):
        if math.gcd(p, max(n, 1)) == 1:
            return p
    return 1


def np_sub_grid(maskb, sub, ps, origin):
    """(total_sub, 2) float64 scaled coordinates of every sub-pixel (own vectorised statement)."""
    H, W = maskb.shape
    ys, xs = np.nonzero(~maskb)
    cnt = sub * sub
    off = np.concatenate([[0], np.cumsum(cnt)])
    pix = np.repeat(np.arange(len(sub)), cnt)
    j = np.arange(int(off[-1])) - off[pix]
    s = sub[pix]
    py = ys[pix] + (2 * (j // s) + 1) / (2.0 * s) - 0.5
    px = xs[pix] + (2 * (j % s) + 1) / (2.0 * s) - 0.5
    return np.stack([-(py - (H - 1) / 2.0) * ps[0] + origin[0], (px - (W - 1) / 2.0) * ps[1] + origin[1]], axis=1), off


def farthest_candidates_int(px, offs, c2, sub, k):
    """as farthest_candidates, in exact integer arithmetic (distances scaled by (2s)^2); `c2` = twice the
    region centre (integers)."""
    y, x = px[k]
    s = sub[k]
    by, bx = s * (2 * y - c2[0]) - s, s * (2 * x - c2[1]) - s
    best, out = -1, []
    for y1 in range(s):
        dy2 = (by + 2 * y1 + 1) ** 2
        for x1 in range(s):
            d = dy2 + (bx + 2 * x1 + 1) ** 2
            if d > best:
                best, out = d, [offs[k] + y1 * s + x1]
            elif d == best:
                out.append(offs[k] + y1 * s + x1)
    return out


def indep_sub_border(rows, sub):
    """(border pixels, exact farthest-candidate lists per border pixel, px, offs) for a ring-masked mask."""
    px = unmasked_pixels(rows)
    offs, _ = sub_offsets(sub)
    ys = [p[0] for p in px]
    xs = [p[1] for p in px]
    c2 = (min(ys) + max(ys), min(xs) + max(xs))
    bp = border_pixels_independent(rows)
    return bp, [farthest_candidates_int(px, offs, c2, sub, k) for k in bp], px, offs


# ------------------------------------------------------------------------------------------------
class C18(PropertyCheck):
    pid = "C18"
    title = "border relocation"
    rtol = BAND
    atol = F(0)
    nontrivial_rule = (
        "a case is non-trivial when at least one coordinate is moved and at least one is left unchanged "
        "(or, for sub-border-only cases, when some border pixel has sub-size > 1; for a history: in at least one "
        "observing step); distinct = distinct (mask, sub-size map, pixel scales, origin, grid, mesh[, steps])"
    )
    exhaustive_note = {
        "quick": "every mask of a 3x3 interior inside a 5x5 frame (511 border shapes) with sub-size 2: "
                 "sub-border indices and relocation of a stretched grid",
        "thorough": "every mask of a 3x3 interior inside a 5x5 frame with sub-sizes 1,2,3,4 and every mask "
                    "of a 3x4 interior inside a 5x6 frame (4095 shapes) with sub-size 2",
    }
    # loop ties (DESIGN §12): regenerated from the source on every run, tie theorems proved for all sizes
    loop_tie_modules = ["LoopsRelocate"]
    modelled_functions = [
        "autoarray/structures/grids/grid_2d_util.py:relocated_grid_via_jit_from",
        "autoarray/structures/grids/grid_2d_util.py:furthest_grid_2d_slim_index_from",
        "autoarray/structures/grids/grid_2d_util.py:grid_2d_centre_from",
        "autoarray/inversion/pixelization/border_relocator.py:sub_slim_indexes_for_slim_index_via_mask_2d_from",
        "autoarray/inversion/pixelization/border_relocator.py:sub_border_pixel_slim_indexes_from",
        "autoarray/inversion/pixelization/border_relocator.py:BorderRelocator.__init__",
        "autoarray/inversion/pixelization/border_relocator.py:BorderRelocator.sub_border_slim",
        "autoarray/inversion/pixelization/border_relocator.py:BorderRelocator.sub_grid",
        "autoarray/inversion/pixelization/border_relocator.py:BorderRelocator.border_grid",
        "autoarray/inversion/pixelization/border_relocator.py:BorderRelocator.sub_border_grid",
        "autoarray/inversion/pixelization/border_relocator.py:BorderRelocator.relocated_grid_from",
        "autoarray/inversion/pixelization/border_relocator.py:BorderRelocator.relocated_mesh_grid_from",
        "autoarray/operators/over_sampling/over_sample_util.py:total_sub_pixels_2d_from",
        "autoarray/operators/over_sampling/over_sample_util.py:slim_index_for_sub_slim_index_via_mask_2d_from",
        "autoarray/operators/over_sampling/over_sample_util.py:grid_2d_slim_over_sampled_via_mask_from",
        "autoarray/geometry/geometry_util.py:central_pixel_coordinates_2d_from",
        "autoarray/geometry/geometry_util.py:central_scaled_coordinate_2d_from",
        "autoarray/mask/mask_2d_util.py:total_pixels_2d_from",
        "autoarray/mask/mask_2d_util.py:border_slim_indexes_from",
        "autoarray/mask/mask_2d_util.py:check_if_border_pixel",
        "autoarray/mask/mask_2d_util.py:total_border_pixels_from",
        "autoarray/mask/mask_2d_util.py:edge_1d_indexes_from",
        "autoarray/inversion/pixelization/mesh/abstract.py:AbstractMesh.relocated_grid_from",
        "autoarray/inversion/pixelization/mesh/abstract.py:AbstractMesh.relocated_mesh_grid_from",
        "autoarray/inversion/pixelization/mesh/rectangular.py:Rectangular.mapper_grids_from",
        "autoarray/inversion/pixelization/mesh/triangulation.py:Triangulation.mapper_grids_from",
    ]
    trusted_extra = [
        "libm sqrt is a parameter of the model (theorems assume 0<=sqrt x and sqrt x*sqrt x = x for x>=0; "
        "discharged for Real.sqrt); the driver runs IEEE doubles with Float.sqrt",
        "the list of border pixels (mask_2d_util.border_slim_indexes_from, property C10) is an input of the "
        "model; the oracle re-derives it independently for masks whose outer ring is masked",
        "numpy fancy indexing / np.mean / np.argmin / np.min glue is covered by correspondence only",
    ]
    assumptions = [
        "coordinates are finite doubles (no NaN/inf)",
        "decisions within 1e-9 (relative) of r_p = r_min or move factor = 1 are not compared (positions are)",
    ]

    # ------------------------------------------------------------------ generation
    def generate(self, tier, rng):
        quick = tier == "quick"
        # 0. Round 4 (L2): typed histories on REAL reused objects (relocator, grids, meshes, mask); every observing
        #    step is compared with the model / judged by the oracle for a FRESH relocator on the current values.
        #    The thorough stream starts with a slice of them so that the time-boxed searches reach them.
        if not quick:
            yield from self.history_cases(rng, 60)
            yield from self.decade_cases(rng, 1)
            yield from self.ownership_cases(rng, 8)
            yield from self.option_cases(rng, 1)
            yield from self.layout_cases(rng, 30)
        # 1. exhaustive small border shapes
        frames = [((3, 3), [2])] if quick else [((3, 3), [1, 2, 3, 4]), ((3, 4), [2])]
        for (ih, iw), subs in frames:
            for inner in gen.all_masks(ih, iw):
                rows = gen.full(ih + 2, iw + 2)
                for y in range(ih):
                    for x in range(iw):
                        rows[y + 1][x + 1] = inner[y][x]
                for s in subs:
                    n = len(unmasked_pixels(rows))
                    yield self._case(rng, rows, [s] * n, (F(1), F(1)), (F(0), F(0)), "exh_stretch",
                                     distortion="stretch", int_sub=True)
        # 2. structured random
        n_cases = 160 if quick else 1500
        kinds = ["block", "blocks", "annulus", "cross", "diagonal", "bernoulli", "all", "single",
                 "lshape", "ring_touching"]
        for i in range(n_cases):
            h, w = rng.randint(3, 9), rng.randint(3, 9)
            kind = kinds[i % len(kinds)]
            if kind == "lshape":
                rows = gen.full(h, w)
                for y in range(1, h - 1):
                    rows[y][1] = False
                for x in range(1, w - 1):
                    rows[h - 2][x] = False
                if h > 4 and w > 4 and rng.random() < 0.5:
                    rows[1][w - 2] = False
            elif kind == "ring_touching":
                rows, _ = gen.random_mask(rng, h, w, margin=0, kind="ring_touching")
                for _ in range(rng.randint(1, 6)):
                    rows[rng.randrange(h)][rng.randrange(w)] = False
            else:
                rows, _ = gen.random_mask(rng, h, w, margin=1, kind=kind)
            npx = len(unmasked_pixels(rows))
            mode = rng.choice(["uniform", "uniform", "pow2", "mixed"])
            if mode == "uniform":
                s = rng.choice([1, 2, 3, 4])
                sub = [s] * npx
            elif mode == "pow2":
                sub = [rng.choice([1, 2, 4]) for _ in range(npx)]
            else:
                sub = [rng.choice([1, 2, 3, 4, 5]) for _ in range(npx)]
            ps = (rng.choice(gen.SCALES), rng.choice(gen.SCALES))
            origin = gen.origin_pair(rng) if rng.random() < 0.7 else (F(0), F(0))
            dist = rng.choice(["identity", "scale", "affine", "radial", "jitter", "affine", "radial",
                               "collapse", "line"])
            # input representation (round-3 hardening): ~1/3 of the cases hand the coordinates over
            # as integer-dtype ndarrays / Python int lists / float32 / bare ndarrays
            gform = GRID_FORMS[i % len(GRID_FORMS)] if i % 3 == 1 else "float64"
            mform = MESH_FORMS[(i // 3) % len(MESH_FORMS)] if i % 3 != 0 else "float64"
            yield self._case(rng, rows, sub, ps, origin, f"rand_{kind}_{dist}", distortion=dist,
                             int_sub=(mode == "uniform" and rng.random() < 0.5),
                             via_mesh=(i % 5 == 0), grid_form=gform, mesh_form=mform)
        # 3. degenerate frames: 1xN, Nx1, 1x1, 2x2, all unmasked / one pixel
        shapes = [(1, 1), (1, 4), (5, 1), (2, 2), (2, 3), (3, 3)]
        for k, (h, w) in enumerate(shapes if quick else shapes * 4):
            for variant in ("all", "one"):
                rows = gen.full(h, w, val=(variant != "all"))
                if variant == "one":
                    rows[rng.randrange(h)][rng.randrange(w)] = False
                npx = len(unmasked_pixels(rows))
                s_ = rng.choice([1, 2, 3])
                yield self._case(rng, rows, [s_] * npx, (F(1), F(1, 2)), (F(0), F(0)), f"degenerate_{variant}",
                                 distortion=rng.choice(["scale", "affine", "jitter"]), int_sub=(k % 2 == 0),
                                 grid_form=GRID_FORMS[k % len(GRID_FORMS)],
                                 mesh_form=MESH_FORMS[k % len(MESH_FORMS)])
        # 4. Round 5/6 streams (DESIGN §14): decades / near-degenerate ingredients (R5-A, R5-E), containers and
        #    layouts (R5-C), options of mapper_grids_from crossed pairwise (R5-F), ownership histories (R5-B),
        #    always-on sizes beyond 2^15 / 46341 / 2^16 (R5-E); configuration histories (R5-D) are a template of 5.
        yield from self.decade_cases(rng, 2 if quick else 8)
        yield from self.layout_cases(rng, 60 if quick else 400)
        yield from self.option_cases(rng, 1 if quick else 8)
        yield from self.ownership_cases(rng, 14 if quick else 90)
        yield from self.big_cases(rng, quick)
        # 5. history stream (see 0.)
        yield from self.history_cases(rng, 156 if quick else 740)

    def _case(self, rng, rows, sub, ps, origin, tag, distortion, int_sub=False, via_mesh=False,
              grid_form="float64", mesh_form="float64", hug_eps=None):
        base = scaled_sub_grid(rows, sub, ps, origin)
        n = len(base)
        rd = lambda v: F(round(v * 1024), 1024)
        cy = sum(p[0] for p in base) / n
        cx = sum(p[1] for p in base) / n
        piv = (rd(cy) + (gen.dyadic(rng, -1, 1, 2) if distortion != "stretch" else 0),
               rd(cx) + (gen.dyadic(rng, -1, 1, 2) if distortion != "stretch" else 0))
        if distortion == "identity":
            f = lambda p: p
        elif distortion == "stretch":
            # fixed, seed-independent: anisotropic stretch + shear about the grid mean
            f = lambda p: (piv[0] + F(3, 2) * (p[0] - piv[0]) + F(1, 4) * (p[1] - piv[1]),
                           piv[1] + F(5, 4) * (p[1] - piv[1]) - F(1, 2) * (p[0] - piv[0]) + F(1, 8))
        elif distortion == "scale":
            k = rng.choice([F(1, 2), F(3, 4), F(5, 4), F(3, 2), F(3), F(-1)])
            f = lambda p: (piv[0] + k * (p[0] - piv[0]), piv[1] + k * (p[1] - piv[1]))
        elif distortion == "affine":
            a, b, c, d = (gen.dyadic(rng, -2, 2, 2) for _ in range(4))
            ty, tx = gen.dyadic(rng, -3, 3, 2), gen.dyadic(rng, -3, 3, 2)
            f = lambda p: (piv[0] + a * (p[0] - piv[0]) + b * (p[1] - piv[1]) + ty,
                           piv[1] + c * (p[0] - piv[0]) + d * (p[1] - piv[1]) + tx)
        elif distortion == "radial":
            kap = rng.choice([F(1, 16), F(1, 4), F(-1, 32), F(-1, 8), F(1, 64)])
            f = lambda p: (piv[0] + (p[0] - piv[0]) * (1 + kap * sq(p, piv)),
                           piv[1] + (p[1] - piv[1]) * (1 + kap * sq(p, piv)))
        elif distortion == "jitter":
            f = lambda p: (p[0] + gen.dyadic(rng, -1, 1, 4), p[1] + gen.dyadic(rng, -1, 1, 4))
        elif distortion == "collapse":
            f = lambda p: piv
        else:  # line: all points on one line
            a, b = gen.dyadic(rng, -2, 2, 2), gen.dyadic(rng, -2, 2, 2)
            f = lambda p: (piv[0] + a * (p[0] - piv[0] + p[1]), piv[1] + b * (p[0] - piv[0] + p[1]))
        grid = [tuple(rd(v) for v in f(p)) for p in base]
        # post-operations that need the border (seeded cases only)
        mesh = []
        if distortion != "stretch":
            bpx = border_pixels_independent(rows) if ring_masked(rows) else []
            sb = [farthest_candidates(rows, sub, k)[-1] for k in bpx]
            if sb:
                B = [grid[i] for i in sb]
                an = Analysis(B)
                imin = an.r2.index(an.rmin2)
                imax = an.r2.index(an.rmax2)
                free = [i for i in range(n) if i not in set(sb)]
                rng.shuffle(free)

                def hug(b, eps, sign):
                    return tuple(F(float(an.o[c] + sign * (b[c] - an.o[c]) * (1 + eps))) for c in (0, 1))

                specials = []
                e20 = hug_eps or F(1, 2 ** 20)
                for b in (B[imin], B[imax], B[rng.randrange(len(B))]):
                    specials += [b, hug(b, e20, 1), hug(b, -e20, 1), hug(b, e20, -1), hug(b, -e20, -1),
                                 hug(b, F(63), 1), hug(b, F(-1, 2), 1)]
                specials += [tuple(F(float(v)) for v in an.o), (F(1000), F(-2000)), (F(-5, 4), F(10 ** 6))]
                for i, sp in zip(free, rng.sample(specials, min(len(specials), max(1, len(free) // 3)))):
                    grid[i] = sp
                # duplicates
                for _ in range(min(3, len(free))):
                    grid[rng.choice(free)] = grid[rng.randrange(n)]
                # mesh vertices: inside, far outside, on the border, hugging
                for _ in range(rng.randint(3, 12)):
                    c = rng.random()
                    if c < 0.3:
                        mesh.append(rng.choice(specials))
                    elif c < 0.5:
                        mesh.append(grid[rng.randrange(n)])
                    else:
                        mesh.append((an.o[0].__floor__() + gen.dyadic(rng, -12, 12, 3),
                                     an.o[1].__floor__() + gen.dyadic(rng, -12, 12, 3)))
            else:
                for _ in range(rng.randint(0, 6)):
                    mesh.append((gen.dyadic(rng, -12, 12, 3), gen.dyadic(rng, -12, 12, 3)))
        if not mesh and mesh_form != "float64":
            mesh = [(gen.dyadic(rng, -12, 12, 3), gen.dyadic(rng, -12, 12, 3)) for _ in range(rng.randint(1, 5))]
            mesh.append((F(40), F(-3)))
        if "int" in grid_form:
            grid = [(F(round(a)), F(round(b))) for a, b in grid]
        elif "float32" in grid_form and not all(is_f32(a) and is_f32(b) for a, b in grid):
            grid_form = "float64"
        if "int" in mesh_form:
            mesh = [(F(round(a)), F(round(b))) for a, b in mesh]
        if grid_form.startswith("raw"):
            via_mesh = False
        if grid_form != "float64" or mesh_form != "float64":
            tag = f"{tag}|{grid_form}|{mesh_form}"
        return {
            "tag": tag, "mask": mask_json(rows), "sub": list(sub), "int_sub": bool(int_sub),
            "ps": [q(ps[0]), q(ps[1])], "origin": [q(origin[0]), q(origin[1])],
            "grid": [[q(a), q(b)] for a, b in grid], "mesh": [[q(a), q(b)] for a, b in mesh],
            "via_mesh": bool(via_mesh), "grid_form": grid_form, "mesh_form": mesh_form,
        }

    # ------------------------------------------------------------------ Round 5/6 streams
    # exponents of the decades stream.  Source-plane coordinates reach ~2^20 (far outliers) and their differences
    # are SQUARED by the code, so |k| <= 480 keeps every intermediate inside the normal double range
    # (2^(2*(20+480)) = 2^1000 < 2^1024; 2^-10 grid spacing -> (2^-490)^2 = 2^-980 > 2^-1022).
    DECADES = [-480, -440, -400, -300, -150, -100, -45, -30, -20, -10, 10, 20, 30, 45, 100, 150, 300, 400, 440, 480]
    SMOOTH = ["affine", "scale", "radial", "jitter", "identity", "affine"]

    def _small_world(self, rng, uniform1=False):
        while True:
            rows, sub, ps, origin, sb, int_sub = self._history_world(rng)
            if uniform1:
                sub = [1] * len(sub)
                sb = [farthest_candidates(rows, sub, k)[-1] for k in border_pixels_independent(rows)]
            return rows, sub, ps, origin, sb, int_sub

    @staticmethod
    def _ensure_outliers(case, sb, rng, key="grid"):
        """make sure the relocation has something to do: up to two non-border coordinates are pushed far outside
        along their ray from the border centroid (x6, x40) unless one already lies beyond every border point."""
        g = pts(case[key])
        if not sb or max(sb) >= len(g):
            return case
        an = Analysis([g[i] for i in sb])
        free = [i for i in range(len(g)) if i not in set(sb)]
        if not free or any(sq(g[i], an.o) > an.rmax2 for i in free):
            return case
        for i, f in zip(rng.sample(free, min(2, len(free))), (6, 40)):
            p = g[i]
            if p == an.o:
                p = (an.o[0] + F(3, 8), an.o[1] - F(1, 4))
            g[i] = tuple(F(float(an.o[c] + f * (p[c] - an.o[c]))) for c in (0, 1))
        if "int" in str(case.get("grid_form", "")):
            g = [(F(round(a)), F(round(b))) for a, b in g]
        case[key] = [[q(a), q(b)] for a, b in g]
        return case

    def decade_cases(self, rng, rounds):
        """R5-A / R5-E.  `dec_world`: an ordinary world handed over at 2^k times its size (source plane) and /
        or 2^j (image plane) — the observation is scaled back exactly, so model, oracle and the 1e-9 tolerance
        all work relative to the world's own magnitude; `dec_mesh`: only the mesh vertices live at another
        magnitude; `dec_far`: the whole world sits 2^15..2^17 away from zero; `dec_circle`: all border radii
        equal to within 2^-20..2^-40 with coordinates hugging the common radius; `dec_tiny`: the border collapsed
        to a cluster of extent 2^-26 (smallest border radius < 1e-8) in a world of unit size; `dec_near`: pixel
        scales equal to within 2^-20..2^-27, mask origin 2^-20..2^-27 from zero, coordinates hugging their
        nearest border point's radius at 2^-30 / 2^-40."""
        for r in range(rounds):
            ks = list(self.DECADES)
            rng.shuffle(ks)
            for j, k in enumerate(ks):
                rows, sub, ps, origin, sb, int_sub = self._small_world(rng)
                kind = ["world", "world", "circle", "tiny", "world"][j % 5]
                moderate = abs(k) <= 45
                if kind == "world":
                    c = self._ensure_outliers(self._case(rng, rows, sub, ps, origin, "x", distortion=rng.choice(self.SMOOTH),
                                                         int_sub=int_sub, via_mesh=moderate and rng.random() < 0.5), sb, rng)
                else:
                    c = self._special_case(rng, rows, sub, ps, origin, sb, kind, int_sub)
                c["scale_k"] = k
                if rng.random() < 0.4:
                    c["img_k"] = rng.choice([-45, -45, -30, 20, 45, k if abs(k) <= 150 else -45])
                c["tag"] = f"dec_{kind}_k{'+' if k > 0 else '-'}{'45' if moderate else '150' if abs(k) <= 150 else '480'}"
                yield c
            # one ingredient at another magnitude: the mesh vertices only
            for k in rng.sample([-150, -100, -45, -20, 20, 45, 100, 150], 4):
                rows, sub, ps, origin, sb, int_sub = self._small_world(rng)
                c = self._case(rng, rows, sub, ps, origin, "x", distortion=rng.choice(self.SMOOTH), int_sub=int_sub,
                               via_mesh=abs(k) <= 45 and rng.random() < 0.5)
                sc = F(2) ** k
                c["mesh"] = [[q(F(a) * sc), q(F(b) * sc)] for a, b in c["mesh"]] + c["mesh"][:2]
                c["tag"] = f"dec_mesh_k{'+' if k > 0 else '-'}"
                yield c
            # the world far from zero (mask origin and with it the source-plane coordinates)
            for _ in range(5):
                rows, sub, ps, origin, sb, int_sub = self._small_world(rng)
                T = 2 ** rng.choice([12, 15, 16, 17])
                my, mx = rng.choice([1, -1, 3]), rng.choice([1, -2, 5]) if rng.random() < 0.8 else 0
                dist, via = rng.choice(["identity", "jitter", "affine", "scale"]), rng.random() < 0.5
                while True:
                    c = self._case(rng, rows, sub, ps, (F(T * my) + origin[0], F(T * mx) + origin[1]), "dec_far",
                                   distortion=dist, int_sub=int_sub, via_mesh=via)
                    # the code's centroid carries a rounding error of about an ulp of the offset: keep it 10x below
                    # the 1e-9 band of the decisions, measured against the smallest border radius of THIS case
                    # (centroid = exact sum / n: one rounding <= ulp(C)/2 per axis, C the largest |coordinate|; the
                    # radii r_p and r_min then carry <= 0.71 ulp(C) each: 1.5 * C * 2^-52 <= band / 8)
                    g = pts(c["grid"])
                    rmin = fsqrt(Analysis([g[i] for i in sb]).rmin2)
                    C = max(abs(float(v)) for i in sb for v in g[i])
                    if 1.5 * C * 2.0 ** -52 <= 2.5e-10 * rmin or T <= 64:
                        break
                    T //= 4
                yield self._ensure_outliers(c, sb, rng)
            # near-degenerate ingredients at unit size
            for j in range(6):
                rows, sub, ps, origin, sb, int_sub = self._small_world(rng)
                e = rng.choice([20, 24, 27])
                p0 = rng.choice(gen.SCALES)
                ps = (p0, p0 * (1 + F(rng.choice([1, -1]), 2 ** e)))
                # |origin| < 1e-8 (inside np.allclose's absolute tolerance of zero), >= 3.7e-9 (outside the 1e-9 comparison)
                origin = (F(rng.choice([1, -1]), 2 ** rng.choice([27, 28])), F(rng.choice([0, 1, -5]), 2 ** rng.choice([20, 24, 28])))
                c = self._case(rng, rows, sub, ps, origin, "dec_near", distortion=rng.choice(self.SMOOTH), int_sub=int_sub,
                               via_mesh=(j % 2 == 0), hug_eps=F(1, 2 ** rng.choice([30, 40, 25])))
                yield self._ensure_outliers(c, sb, rng)

    def _special_case(self, rng, rows, sub, ps, origin, sb, kind, int_sub):
        """`circle`: border points on a circle of radius R about a dyadic centre, each radius perturbed by 2^-20..2^-40
        (relative), the other coordinates inside / hugging R at 2^-12..2^-40 / outside; `tiny`: border points in a
        cluster of extent 2^-26 about the centre, everything else at distance 0.5..5."""
        n = sum(s_ * s_ for s_ in sub)
        nb = len(sb)
        Q = 2 ** 30
        c = (gen.dyadic(rng, -4, 4, 2), gen.dyadic(rng, -4, 4, 2))
        R = rng.choice([F(1), F(3, 2), F(5), F(1, 4)])
        phi = rng.random()

        def polar(rad, th):
            return (F(round((c[0] + F(rad) * F(math.sin(th))) * Q), Q), F(round((c[1] + F(rad) * F(math.cos(th))) * Q), Q))

        ang = [2 * math.pi * (j + phi) / nb for j in range(nb)]

        def other():
            u = rng.random()
            th = rng.choice(ang) if rng.random() < 0.5 else rng.random() * 2 * math.pi
            if kind == "tiny":
                return (c if u < 0.1 else (c[0] + F(rng.randint(-3, 3), Q), c[1] + F(1, Q)) if u < 0.2
                        else polar(F(rng.randint(4, 40), 8), th))
            if u < 0.35:
                return polar(R * F(rng.randint(1, 9), 10), th)
            if u < 0.65:
                return polar(R * (1 + F(rng.choice([1, -1]), 2 ** rng.choice([12, 20, 25, 30, 40]))), th)
            return polar(R * F(rng.randint(12, 120), 10), th)

        grid = [other() for _ in range(n)]
        for j, i in enumerate(sb):
            if kind == "tiny":
                grid[i] = (c[0] + F(rng.randint(-8, 8), Q), c[1] + F(rng.randint(-8, 8), Q))
            else:
                grid[i] = polar(R * (1 + F(rng.choice([1, -1]), 2 ** rng.randint(20, 40))), ang[j])
        if kind == "tiny" and len({grid[i] for i in sb}) == 1 and nb > 1:
            grid[sb[0]] = (grid[sb[0]][0] + F(5, Q), grid[sb[0]][1])
        mesh = [other() for _ in range(rng.randint(4, 9))] + [grid[rng.choice(sb)]]
        return {"tag": "x", "mask": mask_json(rows), "sub": list(sub), "int_sub": bool(int_sub),
                "ps": [q(ps[0]), q(ps[1])], "origin": [q(origin[0]), q(origin[1])],
                "grid": [[q(a), q(b)] for a, b in grid], "mesh": [[q(a), q(b)] for a, b in mesh],
                "via_mesh": False, "grid_form": "float64", "mesh_form": "float64"}

    def layout_cases(self, rng, n_cases):
        """R5-C: equal values through other memory layouts (Fortran order, transposed views, strided windows,
        read-only buffers), containers (lists of lists / tuples, int32), constructors (a structure built from a
        structure: Mask2D from a Mask2D with another geometry and an explicit origin, Array2D from Array2D,
        Grid2DIrregular from Grid2DIrregular, Grid2D from Grid2D; `invert=True`; a float pixel scale), the same
        object as data grid and as mesh grid, one-vertex meshes — for the mask, the sub-size map, the data grid and
        the mesh vertices independently."""
        for i in range(n_cases):
            uniform1 = i % 4 == 3
            rows, sub, ps, origin, sb, int_sub = self._small_world(rng, uniform1=uniform1)
            gform = GRID_LAYOUT_FORMS[i % len(GRID_LAYOUT_FORMS)]
            mform = MESH_LAYOUT_FORMS[(i * 5 + 3) % len(MESH_LAYOUT_FORMS)] if i % 3 else "float64"
            kform = MASK_FORMS[(i * 3 + 1) % len(MASK_FORMS)] if i % 4 != 1 else "plain"
            sform = SUB_FORMS[(i * 7) % len(SUB_FORMS)] if i % 3 != 1 else "auto"
            if kform == "ps_float":
                ps = (ps[0], ps[0])
                if i % 8 < 4:
                    origin = (F(0), F(0))
            if kform == "from_mask2d_reset" and i % 2:
                origin = (F(0), F(0))           # the new mask states an origin of exactly (0.0, 0.0)
            c = self._case(rng, rows, sub, ps, origin, "x", distortion=rng.choice(self.SMOOTH + ["collapse", "line"]),
                           int_sub=int_sub and sform == "auto", via_mesh=(i % 3 == 0),
                           grid_form=gform, mesh_form="float64" if mform == "alias_grid" else mform)
            c["tag"] = f"lay_{gform}"             # the other three forms are in the case (mask_form, sub_form, mesh_form)
            self._ensure_outliers(c, sb, rng)
            if mform == "alias_grid" and not gform.startswith("raw"):
                c["mesh_form"] = "alias_grid"
                c["mesh"] = c["grid"]
            elif i % 11 == 5 and c["mesh"]:
                c["mesh"] = c["mesh"][:1]                      # a one-vertex mesh
            c["mask_form"], c["sub_form"] = kform, sform
            if uniform1 and not gform.startswith("raw") and rng.random() < 0.7:
                c["uniform_grid"] = True                       # aa.Grid2D on the mask instead of Grid2DIrregular
            yield c

    @staticmethod
    def _pairwise(rng, levels):
        """a small set of full assignments covering every pair of values of every two options (greedy)."""
        names = sorted(levels)
        pairs = lambda a: {((x, a[x]), (y, a[y])) for i_, x in enumerate(names) for y in names[i_ + 1:]}
        need = {((x, vx), (y, vy)) for i_, x in enumerate(names) for y in names[i_ + 1:]
                for vx in levels[x] for vy in levels[y]}
        out = []
        while need:
            (x, vx), (y, vy) = min(need)
            best = None
            for _ in range(24):
                cand = {n_: rng.choice(levels[n_]) for n_ in names}
                cand[x], cand[y] = vx, vy
                cov = pairs(cand) & need
                if best is None or len(cov) > len(best[1]):
                    best = (cand, cov)
            out.append(best[0])
            need -= best[1]
        return out

    def option_cases(self, rng, rounds):
        """R5-F: the keyword options of `mesh.mapper_grids_from` (names from `inspect.signature` of the real
        classes) crossed pairwise — each value of one with each value of every other, including set-but-falsy
        values (`None`, `{}`, `Preloads()` with nothing in it, an all-zero `adapt_data`, no relocator) — for the
        Rectangular, Delaunay and Voronoi meshes."""
        import inspect
        aa = load_autoarray()
        have = set()
        for cls in (aa.mesh.Rectangular, aa.mesh.Delaunay, aa.mesh.Voronoi):
            have |= set(inspect.signature(cls.mapper_grids_from).parameters)
        levels = {k: v for k, v in self.OPT_VALUES.items() if k in have and k != "border_relocator"}
        for r in range(rounds):
            plan = []
            for kind in ("delaunay", "rect", "voronoi"):
                lv = {k: v for k, v in levels.items() if kind == "rect" or k != "source_plane_mesh_grid"}
                asg = self._pairwise(rng, lv)
                if kind == "voronoi" and rounds == 1:
                    asg = rng.sample(asg, max(1, len(asg) // 3))     # quick tier: a third of the Voronoi crossings
                plan += [(kind, a) for a in asg]
            for j, (kind, kw) in enumerate(plan):
                uniform1 = rng.random() < 0.3
                rows, sub, ps, origin, sb, int_sub = self._small_world(rng, uniform1=uniform1)
                c = self._case(rng, rows, sub, ps, origin, "x", distortion=rng.choice(self.SMOOTH), int_sub=int_sub)
                c1 = self._case(rng, rows, sub, ps, origin, "x", distortion=rng.choice(self.SMOOTH))
                if not c["mesh"]:
                    c["mesh"] = c1["mesh"] or [[q(F(40)), q(F(-3))], [q(F(1, 2)), q(F(1, 4))]]
                kw = dict(kw)
                # the relocator itself: given (the rule applies) in five of six cases, None / omitted otherwise
                kw["border_relocator"] = "br" if j % 6 != 4 else rng.choice(["none", "omit"])
                if kind != "rect":
                    kw["source_plane_mesh_grid"] = "mesh"
                self._ensure_outliers(c, sb, rng)
                self._ensure_outliers(c1, sb, rng)
                c["preload"] = c1["grid"]
                c["opts"] = {"mesh": kind, "shape": rng.choice([[3, 3], [4, 3], [3, 5]]), "kw": kw}
                if uniform1 and rng.random() < 0.5:
                    c["uniform_grid"] = True
                c["tag"] = f"opt_{kind}_{self._opt_branch(c)}"
                yield c

    def ownership_cases(self, rng, n_cases):
        """R5-B: see `_run_own`."""
        for i in range(n_cases):
            rows, sub, ps, origin, sb, int_sub = self._small_world(rng, uniform1=(i % 3 == 2))
            base = self._case(rng, rows, sub, ps, origin, "x", distortion=rng.choice(self.SMOOTH), int_sub=int_sub,
                              via_mesh=True, grid_form=["float64", "f_order", "float64", "from_irregular"][i % 4],
                              mesh_form=["float64", "float64", "readonly", "float_list"][i % 4])
            if i % 2:
                base["mask_form"] = ["from_mask2d", "list", "fortran"][i % 3]
                base["sub_form"] = ["from_array2d", "list"][i % 2]
            base.pop("tag")
            self._ensure_outliers(base, sb, rng)
            yield {"tag": "own_" + ("nan" if i % 2 == 0 else "inc"), "kind": "own", "base": base, "rounds": 3 + (i % 4 == 1),
                   "scribble": "nan" if i % 2 == 0 else "inc"}

    def big_cases(self, rng, quick):
        """R5-E: always-on sizes beyond the implicit limits of narrow integer types (2^15, 46341 = sqrt(2^31), 2^16)
        in the size dimensions a Python-speed run affords; recipes of the large stream, judged by its vectorised
        statement of the property (no model comparison)."""
        plan = [("points", 65536, 65536 + 2 * rng.randint(230, 900) + 1), ("mesh", 46341, 65536 + 2 * rng.randint(230, 900) + 1)]
        if not quick:
            plan += [("pixels", 32768, 32768 + rng.randint(200, 600)), ("frame", 65536, 65536 + rng.randint(300, 2000)),
                     ("border", 2048, 2048 + rng.randint(100, 300)), ("subsize", 32768, 32768 + 700),
                     ("points", 46341, 46341 + rng.randint(100, 600)), ("mesh", 65536, 2 * 65536 + 1 + 2 * rng.randint(5, 50))]
        for dim, c0, t in plan:
            case = self._large_recipe(rng, dim, "nonmult", c0, t)
            if case is None:
                continue
            case.pop("_n_est", None)
            case["tag"] = f"big_{dim}"
            yield case

    # ------------------------------------------------------------------ Round 4 (L1): large stream
    def generate_large(self, hints, rng):
        """sizes straddling every new integer constant c (c-1, c, c+1, c+c//3+1, 2c+1) in every size dimension
        the C18 code loops over: `points` (total sub-pixels = data-grid coordinates, mixed odd sub-size maps on a
        non-square notched frame), `mesh` (mesh vertices), `pixels` (unmasked pixels, sub-size 1), `frame`
        (H*W, non-square), `subsize` (sub-pixels of ONE pixel, s*s), `border` (border pixels / border points).
        Every case has far outliers at the head, around index c, at the first entry of the last partial block
        and at the very tail, an anisotropic off-origin geometry and a sheared source-plane map."""
        order = ["nonmult", "at", "above", "below", "double"]
        dims = ["points", "mesh", "pixels", "frame", "subsize", "subsize2", "border"]
        for c in hints:
            if c < 8 or c > MAX_HINT:
                continue
            T = {"below": c - 1, "at": c, "above": c + 1, "nonmult": c + c // 3 + 1, "double": 2 * c + 1}
            for where in order:
                for dim in dims:
                    case = self._large_recipe(rng, dim, where, c, T[where])
                    if case is None:
                        continue
                    if case.pop("_n_est") <= EXPLICIT_MAX and case.get("mesh_spec", {}).get("n", 0) <= EXPLICIT_MAX:
                        case = self._explicit_from_large(case)
                    yield case

    @staticmethod
    def _block_mask_spec(n_pix, rng, notch=True):
        """ring-masked frame with exactly n_pix unmasked pixels: full rows + a partial last row, a notch cut out
        of the top-left corner (non-convex border), off-centre margins; non-square."""
        nh = nw = 0
        if notch and n_pix >= 60:
            nh, nw = rng.randint(1, 3), rng.randint(2, 4)
        tot = n_pix + nh * nw
        w = max(nw + 2, int(round(math.sqrt(tot * rng.choice([0.55, 1.6, 2.3])))))
        w = max(1, min(w, tot))
        hfull, rem = divmod(tot, w)
        if hfull <= nh or w <= nw:
            nh = nw = 0
            tot = n_pix
            w = max(1, min(w, tot))
            hfull, rem = divmod(tot, w)
        top, left = 1, 2
        H = top + hfull + (1 if rem else 0) + 2
        W = left + w + 1
        ops = [["rect", top, top + hfull, left, left + w, 0]]
        if rem:
            off = 1 if rem + 1 <= w else 0
            ops.append(["rect", top + hfull, top + hfull + 1, left + off, left + off + rem, 0])
        if nh:
            ops.append(["rect", top, top + nh, left, left + nw, 1])
        return {"H": H, "W": W, "ops": ops}

    @staticmethod
    def _tail_indices(n, c):
        idx = {0, 1, n // 2, n - 1, n - 2, c - 1, c, c + 1, (n // c) * c, (n // c) * c - 1,
               n - 1 - ((n % c) // 2), c // 2, c + c // 2}
        return sorted(i for i in idx if 0 <= i < n)

    def _large_recipe(self, rng, dim, where, c, t):
        far = [(F(623, 2), F(-309, 4)), (F(-1157, 8), F(40)), (F(77, 4), F(2001, 2)), (F(-3000), F(-125, 2)),
               (F(35, 2), F(-33, 4)), (F(-12), F(55, 4))]
        ps = rng.choice([(F(1, 2), F(3, 4)), (F(1, 4), F(1, 2)), (F(3, 2), F(1)), (F(1), F(1, 4))])
        origin = (gen.dyadic(rng, -3, 3, 2) or F(1, 4), gen.dyadic(rng, -3, 3, 2) or F(-1, 2))
        src = {"kind": "affine",
               "A": [q(rng.choice([F(3, 4), F(5, 4), F(3, 2), F(-1), F(-5, 4)])), q(rng.choice([F(1, 4), F(-1, 4), F(1, 2)])),
                     q(rng.choice([F(-1, 2), F(1, 4), F(0)])), q(rng.choice([F(3, 4), F(1), F(7, 4), F(-3, 2)]))],
               "t": [q(gen.dyadic(rng, -2, 2, 2)), q(gen.dyadic(rng, -2, 2, 2))],
               "push": {"mul": rng.choice([7919, 104729, 613]), "mod": 13, "lt": 3,
                        "factor": q(rng.choice([F(3, 2), F(3), F(12)]))}}
        mesh_n, via, sub_spec, int_sub = 24, None, {"base": 2}, False
        if dim == "points":
            s0 = 2 if t >= 40 else 1
            n0 = t if s0 == 1 else t // 4 - 3
            if n0 < 1:
                return None
            r = t - s0 * s0 * n0
            alts = []
            if r:
                sol = [(a, b) for a in range(16) for b in range(16) if 5 * a - 3 * b == r]
                if not sol:
                    return None
                a, b = min(sol, key=lambda ab: ab[0] + ab[1])
                if a + b >= n0:
                    return None
                alts = [[3, a], [1, b]]
            mask_spec = self._block_mask_spec(n0, rng)
            sub_spec = {"base": s0, "alts": alts, "first": 2, "stride": coprime_stride(n0)}
            n_est = t
            via = "rect" if where in ("nonmult", "at") else None
        elif dim == "mesh":
            mask_spec = self._block_mask_spec(rng.randint(20, 34), rng, notch=False)
            mask_spec["ops"].append(["rect", 2, 3, 3, 5, 1])          # a dent / hole in the block
            sub_spec = {"base": rng.choice([1, 2, 3])}
            mesh_n, n_est = t, 34 * 9
            via = "delaunay" if where in ("nonmult", "above") else None
        elif dim == "pixels":
            mask_spec = self._block_mask_spec(t, rng)
            sub_spec, int_sub, n_est = {"base": 1}, where in ("at", "double"), t
        elif dim == "frame":
            cand = []
            for dt in range(0, 24):
                tt = t - dt if where == "below" else t + dt
                if (where == "at" and dt) or tt < 49:
                    break
                lo = max(7, int(math.isqrt(tt) / 2.6))
                fs = [h for h in range(lo, math.isqrt(tt) + 1) if tt % h == 0 and tt // h != h]
                if fs:
                    cand = [(rng.choice(fs), tt)]
                    break
            if not cand:
                return None
            h, tt = cand[0]
            H, W = (h, tt // h) if rng.random() < 0.5 else (tt // h, h)
            bh, bw = min(9, H - 4), min(13, W - 5)
            if bh < 2 or bw < 2:
                return None
            y0, x0 = rng.randint(1, H - bh - 2), rng.randint(2, W - bw - 2)
            ops = [["rect", y0, y0 + bh, x0, x0 + bw, 0], ["rect", y0, y0 + 1, x0, x0 + 2, 1]]
            if bh >= 5 and bw >= 5:
                ops.append(["rect", y0 + 2, y0 + 3, x0 + 2, x0 + 4, 1])     # a hole
            mask_spec = {"H": H, "W": W, "ops": ops}
            n_est = bh * bw * 4
        elif dim in ("subsize", "subsize2"):
            # the sub-pixels of ONE pixel (s*s) straddle c: largest s*s <= c-1, largest s*s <= c, smallest s*s > c, ...
            # two such pixels sit on opposite corners of a 3x3 unmasked block (one diagonal per dim value), so that
            # the farthest sub-pixel is each of the four corners of a pixel in turn
            s = {"below": math.isqrt(c - 1), "at": math.isqrt(c), "above": math.isqrt(c) + 1,
                 "nonmult": math.isqrt(t), "double": math.isqrt(t) + 1}[where]
            if 2 * s * s > 2 * MAX_HINT + 2:
                return None
            mask_spec = {"H": 6, "W": 6, "ops": [["rect", 1, 4, 2, 5, 0]]}
            first, stride = (0, 8) if dim == "subsize" else (2, 4)
            sub_spec = {"base": rng.choice([1, 1, 2]), "alts": [[s, 2]], "first": first, "stride": stride}
            n_est = 2 * s * s + 7 * 4
        elif dim == "border":
            if t * t > 1.3e8 or t < 8:
                return None
            mask_spec = {"H": 3, "W": t + 2, "ops": [["rect", 1, 2, 1, t + 1, 0]]}
            k2 = min(40, t // 3)
            sub_spec = {"base": 1, "alts": [[2, k2]], "first": 1, "stride": coprime_stride(t)}
            src = {"kind": "curve", "ry": q(F(7, 2)), "rx": q(F(9, 4)), "c": [q(gen.dyadic(rng, -2, 2, 2)), q(gen.dyadic(rng, -2, 2, 2))],
                   "push": {"mul": 7919, "mod": 4, "lt": 2, "factor": q(F(3, 2))}}
            mesh_n, n_est = 96, t + 3 * k2
        else:
            return None
        tail_g = self._tail_indices(n_est, c) if dim in ("points", "pixels") else \
            [0, 1, c - 1, c, c + 1, -1, -2] if dim.startswith("subsize") else [0, n_est // 2]
        tail_m = self._tail_indices(mesh_n, c) if dim == "mesh" else [0, mesh_n // 2, mesh_n - 1]
        outl = [[i, q(far[k % len(far)][0] * (1 + k // len(far))), q(far[k % len(far)][1])] for k, i in enumerate(tail_g)]
        outm = [[i, q(far[(k + 2) % len(far)][0]), q(far[(k + 2) % len(far)][1] * (1 + k // len(far)))]
                for k, i in enumerate(tail_m)]
        return {"tag": f"large_{dim}_{where}", "kind": "large", "hint": c, "dim": dim, "where": where,
                "mask_spec": mask_spec, "sub_spec": sub_spec, "int_sub": bool(int_sub),
                "ps": [q(ps[0]), q(ps[1])], "origin": [q(origin[0]), q(origin[1])], "src": src,
                "outliers": outl if dim != "border" else [],
                "mesh_spec": {"n": mesh_n, "seed": rng.randrange(1 << 30), "outliers": outm},
                "via": via, "form": rng.choice(["irregular", "irregular", "raw"]) if via is None else "irregular",
                "_n_est": n_est}

    _mat_cache = None

    def _materialise(self, case):
        """numpy arrays of a recipe case (deterministic; cached)."""
        import json as _json
        key = _json.dumps({k: v for k, v in case.items() if not k.startswith("_")}, sort_keys=True)
        if self._mat_cache is None:
            self._mat_cache = {}
        if key in self._mat_cache:
            return self._mat_cache[key]
        maskb = spec_mask(case["mask_spec"])
        rows = maskb.tolist()
        npix = int((~maskb).sum())
        sub = spec_sub(npix, case["sub_spec"])
        ps = tuple(float(F(v)) for v in case["ps"])
        origin = tuple(float(F(v)) for v in case["origin"])
        base, off = np_sub_grid(maskb, sub, ps, origin)
        n = len(base)
        bp, cands, px, offs = indep_sub_border(rows, sub.tolist())
        sb = np.array([cd[-1] for cd in cands], dtype=int)
        src = case["src"]
        ar = np.arange(n)
        if src["kind"] == "affine":
            piv = np.round(base.mean(axis=0) * 4) / 4
            A = np.array([float(F(v)) for v in src["A"]]).reshape(2, 2)
            tvec = np.array([float(F(v)) for v in src["t"]])
            g = piv + (base - piv) @ A.T + tvec
            centre = piv + tvec
        else:
            th = 2 * np.pi * ar / n
            rad = 1 + 0.3 * np.sin(5 * th) + 0.1 * np.cos(3 * th)
            centre = np.array([float(F(v)) for v in src["c"]])
            g = centre + np.stack([float(F(src["ry"])) * rad * np.sin(th), float(F(src["rx"])) * rad * np.cos(th)], axis=1)
        p = src.get("push")
        if p:
            sel = ((ar * p["mul"]) % p["mod"]) < p["lt"]
            sel[sb] = False
            g[sel] = centre + float(F(p["factor"])) * (g[sel] - centre)
            if src["kind"] == "curve":      # the other non-border points go inside
                ins = np.ones(n, dtype=bool)
                ins[sb] = False
                ins &= ~sel
                g[ins] = centre + 0.5 * (g[ins] - centre)
        g = np.round(g * 1024) / 1024
        sbset = set(sb.tolist())
        for i, y, x in case.get("outliers", []):
            i = i % n if n else 0
            if n and i not in sbset:
                g[i] = (float(F(y)), float(F(x)))
        mesh = None
        ms = case.get("mesh_spec")
        if ms and ms["n"] > 0 and len(sb):
            m = ms["n"]
            rs = np.random.RandomState(ms["seed"])
            B = g[sb]
            bc = B.mean(axis=0)
            rmax = float(np.sqrt(((B - bc) ** 2).sum(axis=1)).max()) or 1.0
            u, ang = rs.rand(m), rs.rand(m) * 2 * np.pi
            rad = rmax * (0.05 + 2.5 * u * u)
            rad[::5] *= 40.0
            mesh = bc + np.stack([rad * np.sin(ang), 0.7 * rad * np.cos(ang)], axis=1)
            mesh = np.round(mesh * 1024) / 1024
            k = np.arange(0, m, 11)
            mesh[k] = B[k % len(B)]
            for i, y, x in ms.get("outliers", []):
                mesh[i % m] = (float(F(y)), float(F(x)))
        X = {"maskb": maskb, "rows": rows, "sub": sub, "ps": ps, "origin": origin, "grid": g, "mesh": mesh,
             "bp": bp, "cands": cands, "sb": sb, "px": px, "offs": offs}
        if len(self._mat_cache) > 80:
            self._mat_cache.clear()
        self._mat_cache[key] = X
        return X

    def _explicit_from_large(self, case):
        """small recipe -> ordinary explicit case (runs through the model as well)."""
        X = self._materialise(case)
        mesh = X["mesh"] if X["mesh"] is not None else np.zeros((0, 2))
        return {"tag": case["tag"] + "|explicit", "mask": mask_json(X["rows"]), "sub": [int(s) for s in X["sub"]],
                "int_sub": bool(case.get("int_sub")), "ps": case["ps"], "origin": case["origin"],
                "grid": [[q(a), q(b)] for a, b in X["grid"]], "mesh": [[q(a), q(b)] for a, b in mesh],
                "via_mesh": bool(case.get("via")), "grid_form": "float64", "mesh_form": "float64"}

    def _run_large(self, case):
        aa = load_autoarray()
        from autoarray.inversion.pixelization.border_relocator import BorderRelocator
        import hashlib

        X = self._materialise(case)
        mask = aa.Mask2D(mask=X["maskb"].copy(), pixel_scales=X["ps"], origin=X["origin"])
        sub = X["sub"]
        if case.get("int_sub") and len(set(sub.tolist())) == 1:
            sub_size = int(sub[0])
        else:
            sub_size = aa.Array2D(values=sub.copy(), mask=mask)
        br = BorderRelocator(mask=mask, sub_size=sub_size)
        raw = {"border": np.asarray(mask.derive_indexes.border_slim).astype(int),
               "sub_border": np.asarray(br.sub_border_slim).astype(int)}
        n = len(X["grid"])
        obs = {"large": True, "n": n, "n_border": int(len(raw["border"])),
               "n_mesh": 0 if X["mesh"] is None else int(len(X["mesh"]))}
        if len(raw["sub_border"]):
            raw["sub_border_grid"] = np.asarray(br.sub_border_grid, dtype=float).reshape(-1, 2)
            before = X["grid"].copy()
            grid = before.copy() if case.get("form") == "raw" else aa.Grid2DIrregular(values=before.copy())
            arr = lambda o: np.asarray(o.array if hasattr(o, "array") else o, dtype=float).reshape(-1, 2)
            out = br.relocated_grid_from(grid=grid)
            raw["grid"] = arr(out).copy()
            if X["mesh"] is not None:
                mesh = aa.Grid2DIrregular(values=X["mesh"].copy())
                raw["mesh"] = arr(br.relocated_mesh_grid_from(grid=grid, mesh_grid=mesh)).copy()
                raw["mesh_chained"] = arr(br.relocated_mesh_grid_from(grid=out, mesh_grid=mesh)).copy()
                if case.get("via") == "delaunay":
                    mg = aa.mesh.Delaunay().mapper_grids_from(mask=mask, source_plane_data_grid=grid,
                                                              border_relocator=br, source_plane_mesh_grid=mesh)
                    raw["via_delaunay_grid"] = arr(mg.source_plane_data_grid).copy()
                    raw["via_delaunay_mesh"] = arr(mg.source_plane_mesh_grid).copy()
                raw["mesh_untouched"] = bool(np.array_equal(arr(mesh), X["mesh"]))
            if case.get("via") == "rect":
                mg = aa.mesh.Rectangular(shape=(3, 4)).mapper_grids_from(mask=mask, source_plane_data_grid=grid,
                                                                         border_relocator=br)
                raw["via_rectangular_grid"] = arr(mg.source_plane_data_grid).copy()
            raw["input_untouched"] = bool(np.array_equal(arr(grid), before))
            moved = np.any(raw["grid"] != before, axis=1)
            obs["n_moved"] = int(moved.sum())
            obs["first_moved"] = [int(i) for i in np.flatnonzero(moved)[:4]]
            obs["last_moved"] = [int(i) for i in np.flatnonzero(moved)[-4:]]
            obs["digest"] = hashlib.sha1(raw["grid"].tobytes()).hexdigest()[:16]
        else:
            obs["empty_border"] = True
        obs["sub_border_head"] = [int(v) for v in raw["sub_border"][:6]]
        ok, why = self._judge_large(case, X, raw)
        obs["verdict"] = {"holds": bool(ok), "detail": why}
        return obs

    def _judge_large(self, case, X, raw):
        """the property on the implementation's output of a large case: (d) exactly (integers / Fractions),
        (a)(b)(c) by a float64 screen with the exact rule applied to every coordinate the screen cannot clear."""
        rows, sub = X["rows"], X["sub"].tolist()
        border, sb = raw["border"].tolist(), raw["sub_border"].tolist()
        if border != X["bp"]:
            bad = next((i for i, (a, b) in enumerate(zip(border, X["bp"])) if a != b), min(len(border), len(X["bp"])))
            return False, (f"border pixels differ from the independently derived ones (first difference at "
                           f"position {bad}; {len(border)} vs {len(X['bp'])} pixels)")
        if len(sb) != len(border):
            return False, "one sub-border index per border pixel expected"
        for k, s_idx in enumerate(sb):
            if s_idx not in X["cands"][k]:
                return False, (f"(d) border pixel {border[k]}: sub index {s_idx} is not a sub-pixel of that pixel "
                               f"farthest from the bounding-box centre (farthest: {X['cands'][k][:6]})")
        if not sb:
            return True, ""
        h, w = len(rows), len(rows[0])
        ps = tuple(F(v) for v in case["ps"])
        origin = tuple(F(v) for v in case["origin"])
        pix_of = np.searchsorted(np.asarray(X["offs"]), np.asarray(sb), side="right") - 1
        for k, s_idx in enumerate(sb):
            pk = int(pix_of[k])
            y, x = X["px"][pk]
            s = sub[pk]
            j = s_idx - X["offs"][pk]
            py, pxx = sub_pos_pixel_units(y, x, s, j // s, j % s)
            exp = (-(py - F(h - 1, 2)) * ps[0] + origin[0], (pxx - F(w - 1, 2)) * ps[1] + origin[1])
            got = raw["sub_border_grid"][k]
            for cc in (0, 1):
                if abs(F(float(got[cc])) - exp[cc]) > BAND * max(1, abs(exp[cc])):
                    return False, f"(d) sub_border_grid[{k}] is not the coordinate of sub-pixel {s_idx}"
        if not raw["input_untouched"]:
            return False, "relocation modified its input grid"
        if raw.get("mesh_untouched") is False:
            return False, "relocation modified its input mesh grid"
        G = X["grid"]
        B = G[np.asarray(sb)]
        an = [None]

        def exact():
            if an[0] is None:
                an[0] = Analysis([(F(float(a)), F(float(b))) for a, b in B])
            return an[0]

        for key, inp in (("grid", G), ("mesh", X["mesh"]), ("mesh_chained", X["mesh"]), ("via_delaunay_mesh", X["mesh"]),
                         ("via_delaunay_grid", G), ("via_rectangular_grid", G)):
            if key in raw:
                ok, why = self._check_relocation_np(B, inp, raw[key], key, exact)
                if not ok:
                    return False, why + (" (mesh vertices must be relocated against the DATA grid's border)"
                                         if "mesh" in key else "")
        return True, ""

    def _check_relocation_np(self, B, P, R, name, exact):
        if R.shape != P.shape:
            return False, f"(c) {name}: {len(P)} coordinates in, {len(R)} out"
        ld = np.longdouble
        Bl, Pl, Rl = B.astype(ld), P.astype(ld), R.astype(ld)
        o = Bl.mean(axis=0)
        rb = np.sqrt(((Bl - o) ** 2).sum(axis=1))
        rmin, rmax = rb.min(), rb.max()
        rp = np.sqrt(((Pl - o) ** 2).sum(axis=1))
        ro = np.sqrt(((Rl - o) ** 2).sum(axis=1))
        scale = np.maximum(1, np.maximum(np.abs(Pl).max(axis=1), np.abs(o).max()))
        tol = 4e-9 * scale
        same = np.all(R == P, axis=1)
        flagged = (ro > rp * (1 + 1e-12) + tol) | (ro > rmax * (1 + 1e-12) + tol)
        inside = rp <= rmin * (1 - 4e-9)
        flagged |= inside & ~same
        rest = np.flatnonzero(~inside & ~flagged)
        step = max(1, 3_000_000 // max(1, len(B)))
        Bd = B.astype(float)
        rbd = rb.astype(float)
        for a in range(0, len(rest), step):
            ii = rest[a:a + step]
            p, r = P[ii], R[ii]
            d2 = (p[:, 0:1] - Bd[None, :, 0]) ** 2 + (p[:, 1:2] - Bd[None, :, 1]) ** 2
            cand = d2 <= d2.min(axis=1, keepdims=True) * (1 + 4e-9)
            rpi = rp[ii].astype(float)[:, None]
            t = np.where(rbd[None, :] < rpi, rbd[None, :] / np.where(rpi > 0, rpi, 1.0), 1.0)
            od = o.astype(float)
            tl = tol[ii].astype(float)[:, None]
            hit = (np.abs(od[0] + t * (p[:, 0:1] - od[0]) - r[:, 0:1]) <= tl) & \
                  (np.abs(od[1] + t * (p[:, 1:2] - od[1]) - r[:, 1:2]) <= tl)
            stay_ok = (rbd[None, :] >= rpi * (1 - 4e-9)) & same[ii][:, None]
            good = np.any(cand & (hit | stay_ok), axis=1)
            good |= same[ii] & (rp[ii] <= rmin * (1 + 4e-9))
            flagged[ii[~good]] = True
        bad = np.flatnonzero(flagged)
        if len(bad):
            an = exact()
            for i in bad:
                i = int(i)
                ok, why = self._check_relocation(an, [(F(float(P[i, 0])), F(float(P[i, 1])))],
                                                 [(F(float(R[i, 0])), F(float(R[i, 1])))], None, name, base=i,
                                                 total=len(P))
                if not ok:
                    return False, why
        return True, ""

    def _shrink_large(self, case):
        if case.get("via"):
            yield {**case, "via": None}
        ms = case.get("mesh_spec")
        if ms:
            yield {**case, "mesh_spec": None, "via": None if case.get("via") == "delaunay" else case.get("via")}
        if len(case.get("outliers", [])) > 1:
            for o in case["outliers"]:
                yield {**case, "outliers": [o]}
        if ms and len(ms.get("outliers", [])) > 1:
            for o in ms["outliers"]:
                yield {**case, "mesh_spec": {**ms, "outliers": [o]}}
        if case["src"].get("push"):
            yield {**case, "src": {k: v for k, v in case["src"].items() if k != "push"}}

    # ------------------------------------------------------------------ Round 4 (L2): history stream
    HISTORY_TEMPLATES = ["edit_inplace", "edit_returned", "twins", "fault_reuse", "shared_sources",
                         "shared_grid_two_relocators", "decoy_first", "derived", "preloads", "tiny_twins", "id_reuse",
                         "config"]

    def history_cases(self, rng, rounds):
        for r in range(rounds):
            yield self._gen_history(rng, self.HISTORY_TEMPLATES[r % len(self.HISTORY_TEMPLATES)])

    def _history_world(self, rng):
        kinds = ["block", "annulus", "cross", "bernoulli", "blocks", "lshape", "all"]
        while True:
            h, w = rng.randint(4, 6), rng.randint(4, 7)
            kind = rng.choice(kinds)
            if kind == "lshape":
                rows = gen.full(h, w)
                for y in range(1, h - 1):
                    rows[y][1] = False
                for x in range(1, w - 1):
                    rows[h - 2][x] = False
            else:
                rows, _ = gen.random_mask(rng, h, w, margin=1, kind=kind)
            npx = len(unmasked_pixels(rows))
            if npx < 3:
                continue
            mode = rng.choice(["u1", "u2", "mixed", "u2"])
            sub = [1] * npx if mode == "u1" else [2] * npx if mode == "u2" else [rng.choice([1, 2, 3]) for _ in range(npx)]
            if sum(s * s for s in sub) > 72:
                continue
            bp = border_pixels_independent(rows)
            if not bp:
                continue
            sb = [farthest_candidates(rows, sub, k)[-1] for k in bp]
            ps = (rng.choice(gen.SCALES), rng.choice(gen.SCALES))
            origin = gen.origin_pair(rng) if rng.random() < 0.7 else (F(0), F(0))
            return rows, sub, ps, origin, sb, (mode != "mixed" and rng.random() < 0.5)

    def _gen_history(self, rng, template):
        rows, sub, ps, origin, sb, int_sub = self._history_world(rng)
        dists = ["affine", "scale", "radial", "jitter", "affine"]
        c0 = self._case(rng, rows, sub, ps, origin, "h", distortion=rng.choice(dists))
        c1 = self._case(rng, rows, sub, ps, origin, "h", distortion=rng.choice(dists))
        fl = lambda lst: [(float(F(a)), float(F(b))) for a, b in lst]
        ql = lambda lst: [[q(a), q(b)] for a, b in lst]
        g0, g1 = fl(c0["grid"]), fl(c1["grid"])
        n = len(g0)

        def some_mesh(c):
            m = fl(c["mesh"])
            while len(m) < 4:
                m.append((float(gen.dyadic(rng, -12, 12, 3)), float(gen.dyadic(rng, -12, 12, 3))))
            return m[:10]

        m0, m1 = some_mesh(c0), some_mesh(c1)
        world = {"mask": mask_json(rows), "sub": list(sub), "int_sub": bool(int_sub),
                 "ps": [q(ps[0]), q(ps[1])], "origin": [q(origin[0]), q(origin[1])]}
        worlds = [world]
        objs = {"g0": ql(g0), "g1": ql(g1), "m0": ql(m0), "m1": ql(m1)}
        forms = {}
        raw_g0 = template in ("derived", "edit_inplace") and rng.random() < 0.3
        if raw_g0:
            forms["g0"] = "raw"          # a bare caller-owned ndarray, edited through numpy
        elif all(s_ == 1 for s_ in sub) and rng.random() < 0.6:
            forms["g0"] = "grid2d"       # a uniform Grid2D on world 0's mask, edited through its __setitem__
            if rng.random() < 0.5:
                forms["g1"] = "grid2d"
        nonb = [i for i in range(n) if i not in set(sb)] or list(range(n))
        pt = lambda: [q(gen.dyadic(rng, -9, 9, 3)), q(gen.dyadic(rng, -9, 9, 3))]
        farpt = lambda: [q(gen.dyadic(rng, 20, 60, 2) * rng.choice([1, -1])), q(gen.dyadic(rng, -40, 40, 2))]

        def border_edits(o, k=None):
            """in-place edits of border entries (they move the centroid and the border radii) and one outlier"""
            out = []
            for i in rng.sample(sb, min(len(sb), k or rng.randint(1, 3))):
                out.append(["set", o, i, pt() if rng.random() < 0.7 else farpt()])
            out.append(["set", o, rng.choice(nonb), farpt()])
            return out

        S = []
        if template == "edit_inplace":
            S += [["reloc", 0, "g0", "r0"], ["mesh", 0, "g0", "m0", "q0"]]
            S += border_edits("g0")
            S += [["mesh", 0, "g0", "m0", "q1"], ["reloc", 0, "g0", "r1"]]
            S += [["set", "m0", rng.randrange(len(m0)), farpt()], ["mesh", 0, "g0", "m0", "q2"]]
            S += [["setall", "g0", ql(g1)], ["mesh", 0, "g0", "m0", "q3"], ["reloc", 0, "g0", "r2"]]
            if not raw_g0:
                S += [["via", "rect", 0, "g0", None, "vg", None]]
        elif template == "edit_returned":
            S += [["reloc", 0, "g0", "r0"], ["mesh", 0, "r0", "m0", "q0"]]
            S += [["setall", "r0", ql(g1)]] if rng.random() < 0.5 else border_edits("r0")
            S += [["mesh", 0, "r0", "m0", "q1"], ["reloc", 0, "r0", "r1"]]
            S += [["setall", "r1", ql(g0)], ["via", "delaunay", 0, "r1", "m0", "vg", "vm"]]
            S += border_edits("vg", 2)
            S += [["mesh", 0, "vg", "m1", "q2"], ["reloc", 0, "vg", "r2"], ["via", "rect", 0, "vg", None, "vg2", None]]
            S += border_edits("vg2", 1)
            S += [["via", "delaunay", 0, "vg2", "m1", "vg3", "vm3"]]
        elif template in ("twins", "tiny_twins"):
            if template == "tiny_twins":      # a world of coordinates ~1e-6: np.allclose's atol=1e-8 hides real changes
                sc = 2.0 ** -20
                g0 = [(a * sc, b * sc) for a, b in g0]
                g1 = [(a * sc, b * sc) for a, b in g1]
                m0 = [(a * sc, b * sc) for a, b in m0]
                m1 = [(a * sc, b * sc) for a, b in m1]
                objs.update({"g0": ql(g0), "g1": ql(g1), "m0": ql(m0), "m1": ql(m1)})
                d = 2.0 ** -27
                tw = [(a + d * ((i % 3) - 1), b - d * ((i % 2) * 2 - 1)) for i, (a, b) in enumerate(g0)]
                tm = [(a - d, b + d) for a, b in m0]
            else:
                e = 2.0 ** -20
                tw = [(a * (1 + e), b * (1 - e)) for a, b in g0]
                if rng.random() < 0.5:        # only border entries perturbed (absolute 2^-17 along one axis)
                    tw = list(g0)
                    for i in sb:
                        tw[i] = (g0[i][0] + 2.0 ** -17, g0[i][1] - 2.0 ** -17)
                tm = [(a * (1 - e), b * (1 + e)) for a, b in m0]
            S += [["reloc", 0, "g0", "r0"], ["mesh", 0, "g0", "m0", "q0"]]
            S += [["derive", "g0", "fresh", "t0", ql(tw)], ["reloc", 0, "t0", "r1"], ["mesh", 0, "t0", "m0", "q1"]]
            S += [["derive", "m0", "fresh", "tm", ql(tm)], ["mesh", 0, "t0", "tm", "q2"], ["mesh", 0, "g0", "tm", "q3"]]
            S += [["via", "delaunay", 0, "g0", "m0", "vg", "vm"], ["via", "delaunay", 0, "t0", "tm", "vg1", "vm1"]]
            S += [["via", "rect", 0, "t0", None, "vg2", None], ["via", "rect", 0, "g0", None, "vg3", None]]
            # twin worlds: the same mask with pixel scales / origin perturbed by ~1e-6 relative
            w1 = dict(world)
            w1["ps"] = [q(float(ps[0]) * (1 + 2.0 ** -20)), q(float(ps[1]) * (1 - 2.0 ** -20))]
            w1["origin"] = [q(float(origin[0]) + 2.0 ** -19), q(float(origin[1]) - 2.0 ** -19)]
            worlds.append(w1)
            S += [["reloc", 1, "g0", "r2"], ["mesh", 1, "t0", "m0", "q4"]]
        elif template == "fault_reuse":
            S += [["reloc", 0, "g0", "r0"], ["fault", 0, "short_grid", "g0"], ["mesh", 0, "g0", "m0", "q0"]]
            S += [["fault", 0, "bad_mesh", "g0"], ["reloc", 0, "g0", "r1"], ["fault", 0, "via_bad_mesh", "g1"]]
            S += [["mesh", 0, "g0", "m0", "q1"], ["via", "delaunay", 0, "g0", "m0", "vg", "vm"]]
            S += [["fault", 0, "none_grid", "g0"], ["reloc", 0, "g1", "r2"], ["fault", 0, "via_bad_grid", "g0"]]
            S += [["via", "rect", 0, "g1", None, "vg2", None], ["mesh", 0, "g1", "m1", "q2"]]
        elif template == "shared_sources":
            a, b = ("g0", "m0"), ("g1", "m1")
            if rng.random() < 0.5:
                a, b = b, a
            S += [["reloc", 0, a[0], "r0"], ["mesh", 0, a[0], a[1], "q0"], ["reloc", 0, b[0], "r1"],
                  ["mesh", 0, b[0], b[1], "q1"], ["mesh", 0, a[0], b[1], "q2"], ["mesh", 0, b[0], a[1], "q3"],
                  ["via", "delaunay", 0, a[0], a[1], "vg", "vm"], ["via", "delaunay", 0, b[0], b[1], "vg1", "vm1"],
                  ["via", "rect", 0, b[0], None, "vg2", None], ["via", "rect", 0, a[0], None, "vg3", None],
                  ["mesh", 0, "r0", b[1], "q4"], ["mesh", 0, "r1", a[1], "q5"], ["reloc", 0, a[0], "r2"]]
        elif template == "shared_grid_two_relocators":
            # world 1: the mask flipped upside-down (same number of unmasked pixels -> same grid length);
            # world 2: the SAME Mask2D object as world 0 with another sub-size map of the same total
            w1 = dict(world)
            w1["mask"] = mask_json(rows[::-1])
            w1["origin"] = [q(origin[0] + F(1, 2)), q(origin[1])]
            worlds.append(w1)
            w2 = dict(world)
            w2["mask_of"] = 0
            w2["sub"] = list(sub[::-1])
            w2["int_sub"] = False
            worlds.append(w2)
            order = [0, 1, 2]
            rng.shuffle(order)
            for j, wi in enumerate(order):
                S += [["reloc", wi, "g0", f"r{j}"], ["mesh", wi, "g0", "m0", f"q{j}"]]
            for j, wi in enumerate(reversed(order)):
                S += [["mesh", wi, "g1", "m1", f"p{j}"], ["reloc", wi, "g1", f"s{j}"]]
            S += [["via", "delaunay", order[0], "g0", "m0", "vg", "vm"], ["via", "delaunay", order[1], "g0", "m0", "vg1", "vm1"],
                  ["via", "rect", order[2], "g1", None, "vg2", None], ["via", "rect", order[0], "g1", None, "vg3", None]]
        elif template == "decoy_first":
            decoys = ["br.border_grid", "br.sub_grid", "br.sub_border_grid", "mask.derive_grid.border",
                      "mask.derive_grid.edge", "mask.derive_indexes.edge_slim", "mask.derive_indexes.border_slim",
                      "mask.derive_grid.unmasked", "br.sub_size", "mask.derive_indexes.native_for_slim"]
            rng.shuffle(decoys)
            S += [["decoy", 0, d] for d in decoys[:rng.randint(2, 6)]]
            obs_steps = [["mesh", 0, "g0", "m0", "q0"], ["via", "rect", 0, "g0", None, "vg", None],
                         ["via", "delaunay", 0, "g1", "m1", "vg1", "vm1"], ["reloc", 0, "g0", "r0"],
                         ["mesh", 0, "g1", "m0", "q1"], ["reloc", 0, "g1", "r1"]]
            rng.shuffle(obs_steps)
            for st in obs_steps:
                S.append(st)
                if rng.random() < 0.4:
                    S.append(["decoy", 0, rng.choice(decoys)])
        elif template == "derived":
            k2 = rng.choice([2, 0.5, 4])
            off = [q(gen.dyadic(rng, -2, 2, 2)), q(gen.dyadic(rng, -2, 2, 2))]
            S += [["reloc", 0, "g0", "r0"], ["mesh", 0, "g0", "m0", "q0"], ["derive", "g0", "deepcopy", "d0", None]]
            S += border_edits("d0")
            S += [["reloc", 0, "d0", "r1"], ["mesh", 0, "d0", "m0", "q1"], ["mesh", 0, "g0", "m0", "q2"]]
            S += [["derive", "g0", "mul", "d1", q(k2)], ["reloc", 0, "d1", "r2"], ["mesh", 0, "d1", "m0", "q3"]]
            S += [["derive", "g0", "add", "d2", off], ["mesh", 0, "d2", "m0", "q4"], ["reloc", 0, "d2", "r3"]]
            S += [["derive", "r0", "slice", "d3", None], ["mesh", 0, "d3", "m1", "q5"]]
            S += [["derive", "r3", "deepcopy", "d4", None], ["setall", "d4", ql(g1)], ["mesh", 0, "d4", "m1", "q6"],
                  ["reloc", 0, "d4", "r4"]]
            S += [["imul", "g0", q(rng.choice([2, 0.5]))], ["reloc", 0, "g0", "r5"], ["mesh", 0, "g0", "m0", "q7"]]
            S += [["imul", "m0", q(2)], ["mesh", 0, "g0", "m0", "q8"]]
        elif template == "preloads":
            S += [["via", "rect", 0, "g0", None, "vg", None], ["via_preload", "rect", 0, "g0", None, "g1"],
                  ["via", "rect", 0, "g0", None, "vg1", None], ["via_preload", "delaunay", 0, "g1", "m0", "g0"],
                  ["via", "delaunay", 0, "g1", "m0", "vg2", "vm2"], ["reloc", 0, "g0", "r0"],
                  ["via_preload", "delaunay", 0, "g0", "m1", "r0"], ["mesh", 0, "g0", "m1", "q0"],
                  ["via", "delaunay", 0, "g0", "m1", "vg3", "vm3"], ["reloc", 0, "g1", "r1"]]
        elif template == "config":
            # Round 5/6 (R5-D): every configuration value read on the C18 call paths is flipped BETWEEN calls on the
            # same (reused) relocator / mesh objects and on fresh grids, with calls that do not read it as controls;
            # whatever the value in force, the result is the relocation of the current values
            reps = [2, 3, 1, 2]
            rng.shuffle(reps)
            rt = lambda: rng.choice(["fresh", "fresh", "shared"])
            S += [["via_rt", "rect", 0, "g0", None, "vg", None, rt()], ["conf", "repeats", reps[0]],
                  ["via_rt", "rect", 0, "g0", None, "vg1", None, rt()], ["via_rt", "delaunay", 0, "g1", "m0", "vg2", "vm2", rt()],
                  ["via", "delaunay", 0, "g0", "m1", "vg3", "vm3"], ["conf", "repeats", reps[1]],
                  ["reloc", 0, "g0", "r0"], ["via_rt", "delaunay", 0, "g0", "m0", "vg4", "vm4", rt()]]
            S += border_edits("g0", 1)
            S += [["via_rt", "rect", 0, "g0", None, "vg5", None, rt()], ["conf", "repeats", reps[2]],
                  ["via_rt", "delaunay", 0, "g0", "m1", "vg6", "vm6", rt()], ["mesh", 0, "g1", "m0", "q0"],
                  ["conf", "repeats", reps[3]], ["via_rt", "delaunay", 0, "vg6", "vm6", "vg7", "vm7", rt()],
                  ["via_rt", "rect", 0, "g1", None, "vg8", None, rt()]]
        elif template == "id_reuse":
            # objects are dropped and brand-new ones (other values, same shape) created right away: CPython tends to
            # hand the freed address to the next object of the same size, so anything keyed on id() goes stale
            S += [["reloc", 0, "g0", "r0"], ["mesh", 0, "g0", "m0", "q0"], ["drop", "g0"], ["drop", "r0"], ["drop", "q0"]]
            for j in range(3):
                vals = g1 if j % 2 == 0 else [(a * 0.5 + 0.25, b * 2.0) for a, b in g0]
                S += [["derive", "m0", "fresh", f"t{j}", ql(vals)], ["mesh", 0, f"t{j}", "m0", f"p{j}"],
                      ["reloc", 0, f"t{j}", f"s{j}"], ["drop", f"t{j}"], ["drop", f"p{j}"], ["drop", f"s{j}"]]
            S += [["derive", "m1", "fresh", "t9", ql(g0)], ["via", "delaunay", 0, "t9", "m1", "vg", "vm"],
                  ["mesh", 0, "t9", "m0", "q9"]]
        return {"tag": f"history_{template}", "kind": "history", "worlds": worlds, "objs": objs, "forms": forms,
                "steps": S}

    @staticmethod
    def _history_valid(case):
        """every step only uses objects that exist at that point (shrinking must not create nonsense)"""
        names = set(case["objs"])
        nw = len(case["worlds"])
        for st in case["steps"]:
            op = st[0]
            use, new, w = [], [], None
            if op == "reloc":
                w, use, new = st[1], [st[2]], [st[3]]
            elif op == "mesh":
                w, use, new = st[1], [st[2], st[3]], [st[4]]
            elif op in ("via", "via_rt"):
                w, use, new = st[2], [st[3]] + ([st[4]] if st[1] == "delaunay" else []), [st[5]] + ([st[6]] if st[1] == "delaunay" else [])
            elif op == "conf":
                if st[1] not in CONF_KEYS:
                    return False
            elif op == "via_preload":
                w, use = st[2], [st[3], st[5]] + ([st[4]] if st[1] == "delaunay" else [])
            elif op in ("set", "setall", "imul"):
                use = [st[1]]
            elif op == "derive":
                use, new = [st[1]], [st[3]]
            elif op == "decoy":
                w = st[1]
            elif op == "fault":
                w, use = st[1], [st[3]]
            elif op == "drop":
                use = [st[1]]
            if op == "drop" and st[1] in names:
                names = names - {st[1]}
                continue
            if (w is not None and not 0 <= w < nw) or any(u not in names for u in use):
                return False
            names |= set(new)
        return all(("mask_of" not in wd) or wd["mask_of"] < i for i, wd in enumerate(case["worlds"]))

    def _run_history(self, case):
        aa = load_autoarray()
        from autoarray.inversion.pixelization.border_relocator import BorderRelocator
        from autoarray.preloads import Preloads
        import copy

        worlds = []
        for wd in case["worlds"]:
            if "mask_of" in wd:
                mask = worlds[wd["mask_of"]]["mask"]
            else:
                mask = aa.Mask2D(mask=np.array(self._rows(wd), dtype=bool),
                                 pixel_scales=tuple(float(F(v)) for v in wd["ps"]),
                                 origin=tuple(float(F(v)) for v in wd["origin"]))
            sub = wd["sub"]
            if wd.get("int_sub") and len(set(sub)) == 1:
                sub_size = int(sub[0])
            else:
                sub_size = aa.Array2D(values=np.array(sub, dtype=int), mask=mask)
            worlds.append({"mask": mask, "br": BorderRelocator(mask=mask, sub_size=sub_size)})
        nparr = lambda vals: np.array([[float(F(a)), float(F(b))] for a, b in vals], dtype=float).reshape(-1, 2)
        objs = {}
        for name, vals in case["objs"].items():
            a = nparr(vals)
            form = case.get("forms", {}).get(name)
            objs[name] = a if form == "raw" else aa.Grid2D(values=a, mask=worlds[0]["mask"]) if form == "grid2d" \
                else aa.Grid2DIrregular(values=a)
        meshes = {"delaunay": aa.mesh.Delaunay(), "rect": aa.mesh.Rectangular(shape=(3, 3))}
        arr = lambda o: np.asarray(o.array if hasattr(o, "array") else o, dtype=float).reshape(-1, 2)
        ql = lambda o: [[q(a), q(b)] for a, b in arr(o)]
        hist, nontrivial, final_dropped = [], False, {}
        r = t = mg = e = tgt = None
        shared_rtd = {}

        def via(kind, w, g, m, **kw):
            args = dict(mask=worlds[w]["mask"], source_plane_data_grid=g, border_relocator=worlds[w]["br"], **kw)
            if kind == "delaunay":
                args["source_plane_mesh_grid"] = m
            return meshes[kind].mapper_grids_from(**args)

        for k, st in enumerate(case["steps"]):
            op = st[0]
            if op == "reloc":
                _, w, g, out = st
                before = arr(objs[g]).copy()
                r = worlds[w]["br"].relocated_grid_from(grid=objs[g])
                objs[out] = r
                mv = np.any(arr(r) != before, axis=1) if arr(r).shape == before.shape else np.array([True, False])
                nontrivial = nontrivial or (mv.any() and not mv.all())
                hist.append({"k": k, "out": ql(r)})
            elif op == "mesh":
                _, w, g, m, out = st
                r = worlds[w]["br"].relocated_mesh_grid_from(grid=objs[g], mesh_grid=objs[m])
                objs[out] = r
                hist.append({"k": k, "out": ql(r)})
            elif op == "conf":
                conf_set({st[1]: st[2]})        # restored by run_impl, also on exceptions
            elif op in ("via", "via_rt"):
                _, kind, w, g, m, og, om = st[:7]
                kw = {}
                if op == "via_rt":              # profiling active: profile_func reads general.profiling.repeats
                    kw["run_time_dict"] = shared_rtd if st[7] == "shared" else {}
                mg = via(kind, w, objs[g], objs[m] if kind == "delaunay" else None, **kw)
                objs[og] = mg.source_plane_data_grid
                e = {"k": k, "out": ql(mg.source_plane_data_grid)}
                if kind == "delaunay":
                    objs[om] = mg.source_plane_mesh_grid
                    e["mesh"] = ql(mg.source_plane_mesh_grid)
                hist.append(e)
            elif op == "via_preload":
                _, kind, w, g, m, pre = st
                via(kind, w, objs[g], objs[m] if kind == "delaunay" else None,
                    preloads=Preloads(relocated_grid=objs[pre]))
            elif op == "set":
                _, o, i, (y, x) = st
                objs[o][i] = [float(F(y)), float(F(x))]
            elif op == "setall":
                objs[st[1]][:, :] = nparr(st[2])
            elif op == "imul":
                t = objs[st[1]]
                t *= float(F(st[2]))
                objs[st[1]] = t
            elif op == "derive":
                _, o, how, new, arg = st
                if how == "deepcopy":
                    objs[new] = copy.deepcopy(objs[o])
                elif how == "mul":
                    objs[new] = objs[o] * float(F(arg))
                elif how == "add":
                    objs[new] = objs[o] + np.array([float(F(arg[0])), float(F(arg[1]))])
                elif how == "slice":
                    objs[new] = objs[o][:]
                else:
                    objs[new] = aa.Grid2DIrregular(values=nparr(arg))
            elif op == "drop":
                final_dropped[st[1]] = ql(objs[st[1]])
                del objs[st[1]]
                r = t = mg = e = tgt = None
            elif op == "decoy":
                tgt = worlds[st[1]]["br"] if st[2].startswith("br.") else worlds[st[1]]["mask"]
                for part in st[2].split(".")[1:]:
                    tgt = getattr(tgt, part)
                np.asarray(tgt)
            elif op == "fault":
                _, w, kind, g = st
                br = worlds[w]["br"]
                try:
                    if kind == "short_grid":
                        br.relocated_grid_from(grid=aa.Grid2DIrregular(values=[(0.5, 0.25)]))
                    elif kind == "bad_mesh":
                        br.relocated_mesh_grid_from(grid=objs[g], mesh_grid=np.zeros(4))
                    elif kind == "via_bad_mesh":
                        via("delaunay", w, objs[g], np.zeros(4))
                    elif kind == "via_bad_grid":
                        via("rect", w, aa.Grid2DIrregular(values=[(0.5, 0.25)]), None)
                    else:
                        br.relocated_grid_from(grid=None)
                    hist.append({"k": k, "raised": False})
                except Exception as e:  # noqa: BLE001 — the fault is the point; what follows is what is observed
                    hist.append({"k": k, "raised": True, "exc": type(e).__name__})
            else:
                raise ValueError(f"unknown history step {st}")
        wobs = []
        for wd in worlds:
            sbl = [int(v) for v in np.asarray(wd["br"].sub_border_slim)]
            wobs.append({"border": [int(v) for v in np.asarray(wd["mask"].derive_indexes.border_slim)],
                         "sub_border": sbl,
                         "sub_border_grid": [[q(a), q(b)] for a, b in np.asarray(wd["br"].sub_border_grid)] if sbl else []})
        return {"hist": hist, "worlds": wobs, "final": {**final_dropped, **{name: ql(o) for name, o in objs.items()}},
                "nontrivial": bool(nontrivial)}

    @staticmethod
    def _shadow_history(case, obs):
        """what every object holds at every observing step, from the case's explicit edits (float arithmetic
        exactly as numpy does it element-wise) and — for objects RETURNED by the library — the values observed
        when they were returned (each of which is itself judged at that step).  No library code runs here."""
        fl = lambda lst: [(float(F(a)), float(F(b))) for a, b in lst]
        objs = {n: fl(v) for n, v in case["objs"].items()}
        alias = {}
        by_k = {e["k"]: e for e in obs["hist"]}
        exp = []
        for k, st in enumerate(case["steps"]):
            op = st[0]
            if op == "reloc":
                exp.append({"k": k, "w": st[1], "grid": list(objs[st[2]]), "pts": None, "step": st})
                objs[st[3]] = fl(by_k[k]["out"])
            elif op == "mesh":
                exp.append({"k": k, "w": st[1], "grid": list(objs[st[2]]), "pts": list(objs[st[3]]), "step": st})
                objs[st[4]] = fl(by_k[k]["out"])
            elif op in ("via", "via_rt"):
                exp.append({"k": k, "w": st[2], "grid": list(objs[st[3]]),
                            "pts": list(objs[st[4]]) if st[1] == "delaunay" else None, "via": st[1], "step": st})
                objs[st[5]] = fl(by_k[k]["out"])
                if st[1] == "delaunay":
                    objs[st[6]] = fl(by_k[k]["mesh"])
            elif op == "set":
                objs[st[1]][st[2]] = (float(F(st[3][0])), float(F(st[3][1])))
            elif op == "setall":
                objs[st[1]][:] = fl(st[2])
            elif op == "imul":
                kf = float(F(st[2]))
                objs[st[1]][:] = [(a * kf, b * kf) for a, b in objs[st[1]]]
            elif op == "derive":
                _, o, how, new, arg = st
                if how in ("deepcopy",):
                    objs[new] = list(objs[o])
                elif how == "slice":
                    objs[new] = objs[o]          # a view: shares the values of its source
                elif how == "mul":
                    kf = float(F(arg))
                    objs[new] = [(a * kf, b * kf) for a, b in objs[o]]
                elif how == "add":
                    dy, dx = float(F(arg[0])), float(F(arg[1]))
                    objs[new] = [(a + dy, b + dx) for a, b in objs[o]]
                else:
                    objs[new] = fl(arg)
        return exp, objs

    def _history_requests(self, case, obs):
        reqs = []
        for wd, wo in zip(case["worlds"], obs["worlds"]):
            reqs.append({"op": "c18.sub_border", "mask": wd["mask"], "sub": wd["sub"], "border": wo["border"]})
            reqs.append({"op": "c18.sub_grid", "mask": wd["mask"], "sub": wd["sub"], "pixel_scales": wd["ps"],
                         "origin": wd["origin"]})
        exp, _ = self._shadow_history(case, obs)
        for e in exp:
            sbl = obs["worlds"][e["w"]]["sub_border"]
            if not sbl or any(i >= len(e["grid"]) for i in sbl):
                reqs.append({"op": "c18.sub_grid", "mask": case["worlds"][0]["mask"], "sub": case["worlds"][0]["sub"],
                             "pixel_scales": ["1", "1"], "origin": ["0", "0"]})     # placeholder keeps positions aligned
                continue
            r = {"op": "c18.relocate", "grid": [[q(a), q(b)] for a, b in e["grid"]], "sub_border": sbl}
            if e["pts"] is not None:
                r["mesh"] = [[q(a), q(b)] for a, b in e["pts"]]
            reqs.append(r)
        return reqs

    def _compare_history(self, case, obs, mobs, cmp):
        resp = mobs["responses"]
        nw = len(case["worlds"])
        for wi, (wd, wo) in enumerate(zip(case["worlds"], obs["worlds"])):
            rsb, rsg = resp[2 * wi], resp[2 * wi + 1]
            exact_sub = all(s in POW2 for s in wd["sub"])
            sb_i, sb_m, ties = wo["sub_border"], rsb["idx"], rsb["ties"]
            if len(sb_i) != len(sb_m):
                return f"$.worlds[{wi}].sub_border: length impl={len(sb_i)} model={len(sb_m)}"
            for k, (a, b) in enumerate(zip(sb_i, sb_m)):
                if exact_sub or len(ties[k]) == 1:
                    d = cmp.diff(a, b, f"$.worlds[{wi}].sub_border[{k}]")
                    if d:
                        return d
                elif a not in ties[k]:
                    return f"$.worlds[{wi}].sub_border[{k}]: impl={a} not among the exact maximisers {ties[k]}"
            d = cmp.diff(wo["sub_border_grid"], [rsg[i] for i in sb_i], f"$.worlds[{wi}].sub_border_grid")
            if d:
                return d
        exp, _ = self._shadow_history(case, obs)
        by_k = {e["k"]: e for e in obs["hist"]}
        for j, e in enumerate(exp):
            r = resp[2 * nw + j]
            if not isinstance(r, dict) or "grid" not in r:
                continue
            got = by_k[e["k"]]
            path = f"$.step[{e['k']}]({e['step'][0]})"
            if e.get("via"):
                d = cmp.diff(got["out"], r["grid"], path + ".data_grid")
                if not d and e["via"] == "delaunay":
                    d = cmp.diff(got["mesh"], r["mesh_chained"], path + ".mesh_grid")
            elif e["pts"] is None:
                d = cmp.diff(got["out"], r["grid"], path)
            else:
                d = cmp.diff(got["out"], r["mesh"], path)
            if d:
                return d + "  [expected = model value for a freshly built relocator on the current values]"
        return None

    def _oracle_history(self, case, obs):
        for wi, (wd, wo) in enumerate(zip(case["worlds"], obs["worlds"])):
            rows, sub = self._rows(wd), wd["sub"]
            border, sb = wo["border"], wo["sub_border"]
            if ring_masked(rows) and border != border_pixels_independent(rows):
                return False, f"world {wi}: border pixels {border} != independently derived"
            if len(sb) != len(border):
                return False, f"world {wi}: one sub-border index per border pixel expected"
            for b, s_idx in zip(border, sb):
                cands = farthest_candidates(rows, sub, b)
                if s_idx not in cands:
                    return False, (f"(d) world {wi} (read at the end of the history) border pixel {b}: sub index {s_idx} "
                                   f"is not a farthest sub-pixel of that pixel (farthest: {cands})")
            sg = scaled_sub_grid(rows, sub, tuple(F(v) for v in wd["ps"]), tuple(F(v) for v in wd["origin"]))
            for k, s_idx in enumerate(sb):
                got = pts([wo["sub_border_grid"][k]])[0]
                for c in (0, 1):
                    if abs(got[c] - sg[s_idx][c]) > BAND * max(1, abs(sg[s_idx][c])):
                        return False, f"(d) world {wi}: sub_border_grid[{k}] is not the coordinate of sub-pixel {s_idx}"
        exp, final = self._shadow_history(case, obs)
        by_k = {e["k"]: e for e in obs["hist"]}
        cache = {}
        toF = lambda lst: [(F(a), F(b)) for a, b in lst]
        for e in exp:
            sbl = obs["worlds"][e["w"]]["sub_border"]
            got = by_k[e["k"]]
            grid = toF(e["grid"])
            if not sbl:
                continue
            if any(i >= len(grid) for i in sbl):
                return False, f"history step {e['k']} {e['step']}: grid shorter than the sub-border indices"
            key = (e["w"], tuple(e["grid"][i] for i in sbl))
            if key not in cache:
                cache[key] = Analysis([grid[i] for i in sbl])
            an = cache[key]
            checks = []
            if e.get("via"):
                checks.append((grid, got["out"], "data grid"))
                if e["via"] == "delaunay":
                    checks.append((toF(e["pts"]), got["mesh"], "mesh grid"))
            elif e["pts"] is None:
                checks.append((grid, got["out"], "grid"))
            else:
                checks.append((toF(e["pts"]), got["out"], "mesh"))
            for inp, out, nm in checks:
                ok, why = self._check_relocation(an, inp, pts(out), None, nm)
                if not ok:
                    return False, (f"history step {e['k']} {e['step'][:5]}: the result is not the relocation against the "
                                   f"border of the data grid AS IT IS NOW (what a freshly built relocator gives): {why}")
        for name, vals in final.items():
            got = [(float(F(a)), float(F(b))) for a, b in obs["final"].get(name, [])]
            if got != [tuple(v) for v in vals]:
                bad = next((i for i, (x, y) in enumerate(zip(got, vals)) if tuple(x) != tuple(y)), min(len(got), len(vals)))
                return False, (f"object {name} does not hold the values its history gives it (entry {bad}): an input was "
                               f"modified by a relocation, or an in-place edit was lost / went to another object")
        return True, ""

    def _shrink_history(self, case):
        steps = case["steps"]
        for i in range(len(steps) - 1, -1, -1):
            c2 = {**case, "steps": steps[:i] + steps[i + 1:]}
            if self._history_valid(c2):
                yield c2
        used = {x for st in steps for x in st if isinstance(x, str)}
        for name in list(case["objs"]):
            if name not in used:
                yield {**case, "objs": {k: v for k, v in case["objs"].items() if k != name}}

    # ------------------------------------------------------------------ implementation
    @staticmethod
    def _rows(case):
        mj = case["mask"]
        bits = [c == "1" for c in mj["bits"]]
        return [bits[y * mj["w"]:(y + 1) * mj["w"]] for y in range(mj["h"])]

    def run_impl(self, case):
        load_autoarray()
        if case.get("kind") == "large":
            return self._run_large(case)
        if case.get("kind") == "history":
            base_conf = conf_get()
            try:
                return self._run_history(case)
            finally:
                conf_set(base_conf)         # configuration histories: restore, also when the history raises
        if case.get("kind") == "own":
            return self._run_own(case)
        return self._observe(case)

    def _run_own(self, case):
        """Round 5/6 (R5-B) ownership history: observe -> scribble in place over EVERY array the API accepted or
        returned -> rebuild the same world from fresh equal inputs -> observe again (`rounds` times).  Each
        observation is an ordinary one and is judged like one (model value for a fresh world, oracle)."""
        out = []
        for _ in range(int(case.get("rounds", 3))):
            sink = []
            out.append(self._observe(case["base"], sink))
            scribble(sink, case.get("scribble", "nan"))
            del sink
        return {"rounds": out}

    def _observe(self, case, sink=None):
        """one pass over the entry points for an ordinary case.

        Round 5/6 keys (all optional): `scale_k` — the source-plane world (data grid, mesh vertices, preloaded
        grid) is handed over multiplied by 2**scale_k and every returned coordinate is multiplied by 2**-scale_k
        before it is recorded (both exact: the recorded observation lives at the case's own magnitude, where the
        1e-9 comparison is relative to the world's size); `img_k` — the same for the image-plane geometry (pixel
        scales, mask origin; `sub_border_grid` is scaled back); `mask_form` / `sub_form` / extended `grid_form`
        / `mesh_form` — other containers, layouts, constructors for equal values; `opts` — keyword options of
        `mapper_grids_from`; `sink` receives every array handed to or returned by the API."""
        aa = load_autoarray()
        from autoarray.inversion.pixelization.border_relocator import BorderRelocator

        keep = sink
        note = (lambda *xs: sink.extend(xs)) if sink is not None else (lambda *xs: None)
        rows = self._rows(case)
        sk, ik = int(case.get("scale_k", 0)), int(case.get("img_k", 0))
        ps = tuple(math.ldexp(float(F(v)), ik) for v in case["ps"])
        origin = tuple(math.ldexp(float(F(v)), ik) for v in case["origin"])
        mask = make_mask(aa, rows, ps, origin, case.get("mask_form", "plain"), keep)
        sub = case["sub"]
        sub_size = make_sub(aa, sub, mask, case.get("sub_form", "auto"), bool(case.get("int_sub")), keep)
        br = BorderRelocator(mask=mask, sub_size=sub_size)
        b_ = mask.derive_indexes.border_slim
        sb_ = br.sub_border_slim
        note(b_, sb_)
        border = [int(v) for v in np.asarray(b_)]
        sb = [int(v) for v in np.asarray(sb_)]
        obs = {"border": border, "sub_border": sb}
        if not sb:
            obs["empty_border"] = True
            return obs
        sbg = br.sub_border_grid
        obs["sub_border_grid"] = [[q(a), q(b)] for a, b in np.ldexp(np.asarray(sbg, dtype=float), -ik)]
        if sink is not None:
            note(sbg, br.sub_grid, br.border_grid, br.sub_size)
        scaled = (lambda vals: [(F(a) * F(2) ** sk, F(b) * F(2) ** sk) for a, b in vals]) if sk else (lambda vals: vals)
        back = lambda o: np.ldexp(np.asarray(o.array if hasattr(o, "array") else o, dtype=float).reshape(-1, 2), -sk)
        ql = lambda o: [[q(a), q(b)] for a, b in back(o)]
        use_grid2d = all(s == 1 for s in sub) and (case.get("via_mesh") or case.get("uniform_grid"))
        grid, before = as_input(aa, scaled(case["grid"]), case.get("grid_form", "float64"),
                                mask=mask if use_grid2d else None, keep=keep)
        out = br.relocated_grid_from(grid=grid)
        note(out)
        outa = np.asarray(out.array if hasattr(out, "array") else out, dtype=float).reshape(-1, 2)
        obs["grid"] = ql(out)
        obs["moved"] = [bool(not (outa[i, 0] == before[i, 0] and outa[i, 1] == before[i, 1]))
                        for i in range(len(before))]
        mesh = None
        if case["mesh"]:
            if case.get("mesh_form") == "alias_grid":
                mesh = grid                       # the very same object as data grid and as mesh grid
            else:
                mesh, _ = as_input(aa, scaled(case["mesh"]), case.get("mesh_form", "float64"), keep=keep)
            om = br.relocated_mesh_grid_from(grid=grid, mesh_grid=mesh)
            obs["mesh"] = ql(om)
            oc = br.relocated_mesh_grid_from(grid=out, mesh_grid=mesh)
            obs["mesh_chained"] = ql(oc)
            note(om, oc)
            if case.get("via_mesh"):
                # the documented entry points: mesh.mapper_grids_from(..., border_relocator=...)
                mg = aa.mesh.Delaunay().mapper_grids_from(
                    mask=mask, source_plane_data_grid=grid, border_relocator=br,
                    source_plane_mesh_grid=mesh)
                obs["via_delaunay_grid"] = ql(mg.source_plane_data_grid)
                obs["via_delaunay_mesh"] = ql(mg.source_plane_mesh_grid)
                note(mg.source_plane_data_grid, mg.source_plane_mesh_grid)
        if case.get("via_mesh"):
            mg = aa.mesh.Rectangular(shape=(3, 3)).mapper_grids_from(
                mask=mask, source_plane_data_grid=grid, border_relocator=br)
            obs["via_rectangular_grid"] = ql(mg.source_plane_data_grid)
            note(mg.source_plane_data_grid, mg.source_plane_mesh_grid)
        if case.get("opts"):
            self._observe_opts(aa, case, obs, mask, br, grid, mesh, scaled, ql, keep, note)
        # last: nothing above may have written into the caller's inputs
        obs["input_untouched"] = bool(np.array_equal(
            np.asarray(grid.array if hasattr(grid, "array") else grid, dtype=float).reshape(-1, 2), before))
        return obs

    # ---------------------------------------------------------------- Round 5/6 (R5-F): options of mapper_grids_from
    OPT_VALUES = {
        "border_relocator": ["br", "none"],
        "preloads": ["omit", "empty", "none_slot", "grid"],
        "run_time_dict": ["omit", "none", "empty", "filled"],
        "image_plane_mesh_grid": ["omit", "none", "grid"],
        "adapt_data": ["omit", "none", "zeros", "ones"],
        "source_plane_mesh_grid": ["mesh", "omit", "none"],       # "omit"/"none" only for Rectangular (not used there)
    }

    def _observe_opts(self, aa, case, obs, mask, br, grid, mesh, scaled, ql, keep, note):
        """`mesh.mapper_grids_from` with a combination of its keyword options (names taken from the signature of
        the real method: an option the tree does not have is not passed)."""
        import inspect
        from autoarray.preloads import Preloads

        o = case["opts"]
        kind = o.get("mesh", "rect")
        pix = (aa.mesh.Rectangular(shape=tuple(o.get("shape", (3, 3)))) if kind == "rect"
               else aa.mesh.Voronoi() if kind == "voronoi" else aa.mesh.Delaunay())
        params = set(inspect.signature(pix.mapper_grids_from).parameters)
        kw = {"mask": mask, "source_plane_data_grid": grid}
        v = o.get("kw", {})
        if "border_relocator" in params and v.get("border_relocator", "br") != "omit":
            kw["border_relocator"] = br if v.get("border_relocator", "br") == "br" else None
        pl = v.get("preloads", "omit")
        if "preloads" in params and pl != "omit":
            if pl == "grid":
                pre, _ = as_input(aa, scaled(case["preload"]), "float64", keep=keep)
                kw["preloads"] = Preloads(relocated_grid=pre)
            else:
                kw["preloads"] = Preloads() if pl == "empty" else Preloads(relocated_grid=None)
        rt = v.get("run_time_dict", "omit")
        if "run_time_dict" in params and rt != "omit":
            kw["run_time_dict"] = None if rt == "none" else {} if rt == "empty" else {"earlier_0": 0.5}
        ip = v.get("image_plane_mesh_grid", "omit")
        if "image_plane_mesh_grid" in params and ip != "omit":
            kw["image_plane_mesh_grid"] = None if ip == "none" else aa.Grid2DIrregular(values=[(0.5, -0.25), (1.0, 2.0), (-3.0, 0.125)])
        ad = v.get("adapt_data", "omit")
        if "adapt_data" in params and ad != "omit":
            n_px = int(np.sum(~np.asarray(mask)))
            kw["adapt_data"] = None if ad == "none" else aa.Array2D(
                values=np.zeros(n_px) if ad == "zeros" else np.ones(n_px), mask=mask)
        sm = v.get("source_plane_mesh_grid", "mesh")
        if kind != "rect" or sm == "mesh":
            kw["source_plane_mesh_grid"] = mesh
        elif sm == "none":
            kw["source_plane_mesh_grid"] = None
        mg = pix.mapper_grids_from(**kw)
        obs["opt_grid"] = ql(mg.source_plane_data_grid)
        note(mg.source_plane_data_grid, mg.source_plane_mesh_grid)
        if kind != "rect":
            obs["opt_mesh"] = ql(mg.source_plane_mesh_grid)

    # ------------------------------------------------------------------ model
    def model_requests(self, case, impl_obs):
        if "err" in impl_obs:
            return []
        if case.get("kind") == "large":
            return []                       # judged by the vectorised oracle alone (DESIGN §13)
        if case.get("kind") == "history":
            return self._history_requests(case, impl_obs)
        if case.get("kind") == "own":
            first = impl_obs["rounds"][0]
            return [] if "err" in first else self._requests_ordinary(case["base"], first)
        return self._requests_ordinary(case, impl_obs)

    def _requests_ordinary(self, case, impl_obs):
        reqs = [{"op": "c18.sub_border", "mask": case["mask"], "sub": case["sub"],
                 "border": impl_obs["border"]}]
        if impl_obs.get("empty_border"):
            return reqs
        reqs.append({"op": "c18.sub_grid", "mask": case["mask"], "sub": case["sub"],
                     "pixel_scales": case["ps"], "origin": case["origin"]})
        r = {"op": "c18.relocate", "grid": case["grid"], "sub_border": impl_obs["sub_border"]}
        if case["mesh"]:
            r["mesh"] = case["mesh"]
        reqs.append(r)
        if self._opt_branch(case) == "preload" and case["mesh"] and case["opts"].get("mesh", "rect") != "rect":
            # the data grid of the mapper is the preloaded one: the mesh vertices go against ITS border
            reqs.append({"op": "c18.relocate", "grid": case["preload"], "sub_border": impl_obs["sub_border"],
                         "mesh": case["mesh"]})
        return reqs

    @staticmethod
    def _opt_branch(case):
        """which documented branch of `mapper_grids_from` a combination of options selects: a preloaded relocated
        grid is used as it is; otherwise no relocator -> nothing is relocated; otherwise the border rule."""
        o = case.get("opts")
        if not o:
            return None
        v = o.get("kw", {})
        if v.get("preloads", "omit") == "grid":
            return "preload"
        if v.get("border_relocator", "br") != "br":
            return "identity"
        return "relocate"

    def model_obs(self, case, responses):
        for r in responses:
            if "err" in r:
                return {"err": r["err"]}
        if case.get("kind") == "history":
            return {"responses": [r["ok"] for r in responses]}
        out = {"sub_border": responses[0]["ok"]["idx"], "ties": responses[0]["ok"]["ties"]}
        if len(responses) > 1:
            out["sub_grid"] = responses[1]["ok"]
            out.update(responses[2]["ok"])
        if len(responses) > 3:
            out["preload_mesh"] = responses[3]["ok"]["mesh"]
        return out

    def compare(self, case, impl_obs, model_obs, cmp):
        if "err" in impl_obs or "err" in model_obs:
            return cmp.diff(impl_obs, model_obs)
        if case.get("kind") == "history":
            return self._compare_history(case, impl_obs, model_obs, cmp)
        if case.get("kind") == "own":
            for k, ob in enumerate(impl_obs["rounds"]):
                d = cmp.diff(ob, model_obs) if "err" in ob else self._compare_ordinary(case["base"], ob, model_obs, cmp)
                if d:
                    return (f"$.rounds[{k}]" + d[1:] + "  [round %d of observe -> scribble over every array -> rebuild from "
                            "fresh equal inputs; expected = model value for a fresh world]" % (k + 1))
            return None
        return self._compare_ordinary(case, impl_obs, model_obs, cmp)

    def _compare_ordinary(self, case, impl_obs, model_obs, cmp):
        exact_sub = all(s in POW2 for s in case["sub"])
        sb_i, sb_m, ties = impl_obs["sub_border"], model_obs["sub_border"], model_obs["ties"]
        if len(sb_i) != len(sb_m):
            return f"$.sub_border: length impl={len(sb_i)} model={len(sb_m)}"
        for k, (a, b) in enumerate(zip(sb_i, sb_m)):
            if exact_sub or len(ties[k]) == 1:
                d = cmp.diff(a, b, f"$.sub_border[{k}]")
                if d:
                    return d
            elif a not in ties[k]:
                return f"$.sub_border[{k}]: impl={a} not among the exact maximisers {ties[k]}"
        if impl_obs.get("empty_border") or "sub_grid" not in model_obs:
            return None
        sg = model_obs["sub_grid"]
        if any(i >= len(sg) or i < 0 for i in sb_i):
            return f"$.sub_border: index outside the over-sampled grid of {len(sg)} sub-pixels"
        d = cmp.diff(impl_obs["sub_border_grid"], [sg[i] for i in sb_i], "$.sub_border_grid")
        if d:
            return d
        d = cmp.diff(impl_obs["grid"], model_obs["grid"], "$.grid")
        if d:
            return d
        # moved/unchanged flags: exact, except inside the 1e-9 decision band
        grid = pts(case["grid"])
        an = Analysis([grid[i] for i in sb_i])
        for i, p in enumerate(grid):
            rp2, band, cand = an.point(p)
            near_one = any(abs(c - rp2) <= 4 * BAND * rp2 for c in cand)
            if band or near_one:
                continue
            d = cmp.diff(impl_obs["moved"][i], model_obs["moved"][i], f"$.moved[{i}]")
            if d:
                return d
        for key in ("mesh", "mesh_chained"):
            if key in impl_obs:
                d = cmp.diff(impl_obs[key], model_obs.get(key), f"$.{key}")
                if d:
                    return d
        # entry points through the meshes: the same model values
        for key, mkey in (("via_delaunay_grid", "grid"), ("via_rectangular_grid", "grid"),
                          ("via_delaunay_mesh", "mesh_chained")):
            if key in impl_obs:
                d = cmp.diff(impl_obs[key], model_obs.get(mkey), f"$.{key}")
                if d:
                    return d
        branch = self._opt_branch(case)
        if branch and "opt_grid" in impl_obs:
            exp_g = {"preload": case.get("preload"), "identity": case["grid"], "relocate": model_obs["grid"]}[branch]
            d = cmp.diff(impl_obs["opt_grid"], exp_g, f"$.opt_grid[{branch}]")
            if d:
                return d
            if "opt_mesh" in impl_obs:
                relocating = case["opts"].get("kw", {}).get("border_relocator", "br") == "br"
                exp_m = (case["mesh"] if not relocating else model_obs.get("preload_mesh") if branch == "preload"
                         else model_obs.get("mesh_chained"))
                d = cmp.diff(impl_obs["opt_mesh"], exp_m, f"$.opt_mesh[{branch}]")
                if d:
                    return d
        return None

    # ------------------------------------------------------------------ oracle
    def oracle(self, case, obs):
        if "err" in obs:
            return False, f"implementation raised {obs}"
        if case.get("kind") == "large":
            return obs["verdict"]["holds"], obs["verdict"]["detail"]
        if case.get("kind") == "history":
            return self._oracle_history(case, obs)
        if case.get("kind") == "own":
            for k, ob in enumerate(obs["rounds"]):
                ok, why = (False, f"implementation raised {ob}") if "err" in ob else self._oracle_ordinary(case["base"], ob)
                if not ok:
                    return False, (f"round {k + 1} (observe -> scribble in place over every array handed to / returned by "
                                   f"the API -> rebuild the same world from fresh equal inputs -> observe): {why}")
            return True, ""
        return self._oracle_ordinary(case, obs)

    def _oracle_ordinary(self, case, obs):
        for key, val in obs.items():
            if isinstance(val, list) and any(isinstance(c_, str) and c_.lstrip("-") in ("nan", "inf")
                                             for pt in val if isinstance(pt, list) for c_ in pt):
                return False, f"{key} contains a non-finite coordinate"
        rows = self._rows(case)
        sub = case["sub"]
        border, sb = obs["border"], obs["sub_border"]
        # (d) sub-border indices
        if ring_masked(rows):
            exp_border = border_pixels_independent(rows)
            if border != exp_border:
                return False, f"border pixels {border} != independently derived {exp_border}"
        if len(sb) != len(border):
            return False, "one sub-border index per border pixel expected"
        for k, (b, s_idx) in enumerate(zip(border, sb)):
            cands = farthest_candidates(rows, sub, b)
            if s_idx not in cands:
                return False, (f"(d) border pixel {b}: sub index {s_idx} is not a sub-pixel of that pixel "
                               f"farthest from the bounding-box centre (farthest: {cands})")
        if obs.get("empty_border"):
            return True, ""
        ps = tuple(F(v) for v in case["ps"])
        origin = tuple(F(v) for v in case["origin"])
        sg = scaled_sub_grid(rows, sub, ps, origin)
        for k, s_idx in enumerate(sb):
            got = pts([obs["sub_border_grid"][k]])[0]
            for c in (0, 1):
                if abs(got[c] - sg[s_idx][c]) > BAND * max(1, abs(sg[s_idx][c])):
                    return False, f"(d) sub_border_grid[{k}] is not the coordinate of sub-pixel {s_idx}"
        # (a)(b)(c) relocation
        grid = pts(case["grid"])
        if not obs["input_untouched"]:
            return False, "relocation modified its input grid"
        B = [grid[i] for i in sb]
        an = Analysis(B)
        ok, why = self._check_relocation(an, grid, pts(obs["grid"]), obs["moved"], "grid")
        if not ok:
            return False, why
        if "mesh" in obs:
            mesh = pts(case["mesh"])
            for key in ("mesh", "mesh_chained", "via_delaunay_mesh"):
                if key in obs:
                    ok, why = self._check_relocation(an, mesh, pts(obs[key]), None, key)
                    if not ok:
                        return False, why + " (mesh vertices must be relocated against the DATA grid's border)"
        for key in ("via_delaunay_grid", "via_rectangular_grid"):
            if key in obs:
                ok, why = self._check_relocation(an, grid, pts(obs[key]), None, key)
                if not ok:
                    return False, why
        branch = self._opt_branch(case)
        if branch and "opt_grid" in obs:
            # options of mapper_grids_from, as documented: a preloaded relocated grid IS the data grid; without a
            # relocator nothing moves; otherwise the border rule — whatever the unrelated options are
            what = f"mapper_grids_from({case['opts'].get('mesh', 'rect')}, {case['opts'].get('kw', {})})"
            got = pts(obs["opt_grid"])
            if branch == "relocate":
                ok, why = self._check_relocation(an, grid, got, None, "source_plane_data_grid")
                if not ok:
                    return False, f"{what}: {why}"
                data = grid
            else:
                data = pts(case["preload"]) if branch == "preload" else grid
                if got != data:
                    bad = next((i for i, (x, y) in enumerate(zip(got, data)) if x != y), min(len(got), len(data)))
                    return False, (f"{what}: source_plane_data_grid[{bad}] is not the "
                                   f"{'preloaded relocated grid' if branch == 'preload' else 'input grid (no relocator given)'}")
            if "opt_mesh" in obs:
                mesh = pts(case["mesh"])
                gotm = pts(obs["opt_mesh"])
                if case["opts"].get("kw", {}).get("border_relocator", "br") != "br":
                    if gotm != mesh:
                        return False, f"{what}: mesh vertices changed although no relocator was given"
                else:
                    an2 = an if branch == "relocate" else Analysis([data[i] for i in sb])
                    ok, why = self._check_relocation(an2, mesh, gotm, None, "source_plane_mesh_grid")
                    if not ok:
                        return False, f"{what}: {why} (mesh vertices must be relocated against the DATA grid's border)"
        return True, ""

    @staticmethod
    def _check_relocation(an, inp, out, moved, name, base=0, total=None):
        if len(out) != len(inp):
            return False, f"(c) {name}: {len(inp)} coordinates in, {len(out)} out"
        good = an._good          # (input, output) pairs already judged fine against this border
        for i0, (p, r) in enumerate(zip(inp, out)):
            if (p, r) in good:
                continue
            why = C18._judge_point(an, p, r)
            if why is None:
                good.add((p, r))
                continue
            i = f"{i0 + base} of {total}" if total is not None else i0 + base
            return False, why.replace("@", f"{name}[{i}]")
        return True, ""

    @staticmethod
    def _judge_point(an, p, r):
        """clauses (a)(b)(c) for ONE coordinate p -> r against the border of `an`; None when they hold, else the
        message ('@' stands for the name[index] of the coordinate)."""
        o = an.o
        rp2, band, cand = an.point(p)
        scale = max(1, abs(p[0]), abs(p[1]), abs(o[0]), abs(o[1]))
        tol = 4 * BAND * scale
        same = (r == p)
        close_same = same or (abs(r[0] - p[0]) <= tol and abs(r[1] - p[1]) <= tol)
        ro2 = rp2 if same else sq(r, o)
        # global inequalities: never outward, never beyond the farthest border point
        if not same and not radius_leq(ro2, rp2, tol):
            return f"(b) @ moved outward: radius² {float(rp2)} -> {float(ro2)}"
        if not radius_leq(ro2, an.rmax2, tol):
            return (f"(c) @ ends at radius² {float(ro2)} beyond the farthest border "
                    f"point ({float(an.rmax2)})")
        if rp2 <= an.rmin2 and (not band or p in an.bset):
            # (a) inside the smallest border radius (strictly, or exactly a min-radius border point)
            if not same:
                return (f"(a) @ has radius <= the smallest border radius but is not "
                        f"bit-for-bit unchanged: {tuple(map(float, p))} -> {tuple(map(float, r))}")
            return None
        if p in an.bset:
            # its nearest border point is itself: the radius is not smaller, so it stays
            if not close_same:
                return "(b) @ coincides with a border point but was moved"
            return None
        # expected outcomes for each (near-)nearest border point
        outcomes = []
        if band and rp2 <= an.rmin2 * (1 + 4 * BAND):
            outcomes.append(p)
        for rb2 in cand:
            if rb2 < rp2:
                t = fsqrt(rb2 / rp2)
                tF = F(t)
                outcomes.append((o[0] + tF * (p[0] - o[0]), o[1] + tF * (p[1] - o[1])))
                if rb2 >= rp2 * (1 - 4 * BAND):
                    outcomes.append(p)
            else:
                outcomes.append(p)
        hit = any(abs(r[0] - e[0]) <= tol and abs(r[1] - e[1]) <= tol for e in outcomes)
        if not hit:
            return (f"(b) @: {tuple(map(float, p))} -> {tuple(map(float, r))}, expected "
                    f"{[tuple(map(float, e)) for e in outcomes]} (centroid {tuple(map(float, o))})")
        # same ray: cross product zero, dot product non-negative
        cr = (r[0] - o[0]) * (p[1] - o[1]) - (r[1] - o[1]) * (p[0] - o[0])
        dt = (r[0] - o[0]) * (p[0] - o[0]) + (r[1] - o[1]) * (p[1] - o[1])
        if abs(cr) > tol * (abs(p[0] - o[0]) + abs(p[1] - o[1]) + tol) * 2 or dt < -tol * tol:
            return "(b) @ left its ray from the centroid"
        return None

    def nontrivial(self, case, obs):
        if case.get("kind") == "large":
            return 0 < obs.get("n_moved", 0) < obs.get("n", 0)
        if case.get("kind") == "history":
            return bool(obs.get("nontrivial"))
        if case.get("kind") == "own":
            return any("moved" in o and any(o["moved"]) and not all(o["moved"]) for o in obs.get("rounds", []))
        if "moved" in obs:
            return any(obs["moved"]) and not all(obs["moved"])
        return False

    def shrink(self, case):
        if case.get("kind") == "large":
            yield from self._shrink_large(case)
            return
        if case.get("kind") == "history":
            yield from self._shrink_history(case)
            return
        if case.get("kind") == "own":
            if case.get("rounds", 3) > 2:
                yield {**case, "rounds": case["rounds"] - 1}
            for b in self._shrink_ordinary(case["base"]):
                yield {**case, "base": b}
            return
        yield from self._shrink_ordinary(case)

    @staticmethod
    def _shrink_ordinary(case):
        # the Round 5/6 ingredients first (a failure that survives without one of them did not need it) ...
        for key, plain in (("opts", None), ("scale_k", 0), ("img_k", 0), ("mask_form", "plain"), ("sub_form", "auto"),
                           ("grid_form", "float64"), ("mesh_form", "float64"), ("uniform_grid", False)):
            if case.get(key) not in (None, plain) and not (key == "mesh_form" and case.get(key) == "alias_grid"):
                if key in ("grid_form", "mesh_form") and "int" in str(case.get(key)):
                    continue                    # integer forms carry rounded values: keep them
                c2 = {k: v for k, v in case.items() if k != key}
                if plain is not None and key not in ("opts",):
                    c2[key] = plain
                yield c2
        kw = (case.get("opts") or {}).get("kw", {})
        for k in kw:
            if kw[k] not in ("omit", "br", "mesh"):
                yield {**case, "opts": {**case["opts"], "kw": {**kw, k: {"border_relocator": "br", "source_plane_mesh_grid": "mesh"}.get(k, "omit")}}}
        # ... then drop mesh points
        if case["mesh"] and case.get("mesh_form") != "alias_grid" and (len(case["mesh"]) > 1 or not case.get("opts")):
            for i in range(len(case["mesh"])):
                yield {**case, "mesh": case["mesh"][:i] + case["mesh"][i + 1:]}
        if case.get("via_mesh"):
            yield {**case, "via_mesh": False}

    def theorems_for(self, case):
        return ["C18.a_inside_unchanged", "C18.b_moved_along_ray", "C18.b_nearest_border_point",
                "C18.c_within_max_radius", "C18.c_length_order", "C18.c_mesh_uses_data_border",
                "C18.c_border_fixed_and_chained", "C18.d_sub_border_slim",
                "C18.d_sub_border_farthest_from_region_centre"]


CHECK = C18()
