"""C19 — layout regions rotate and extract consistently with the arrays they index."""
from __future__ import annotations

import itertools
from fractions import Fraction

import numpy as np

import gen
from common import PropertyCheck, Skip, load_autoarray, q, qlist

CORNERS = [(1, 0), (0, 0), (1, 1), (0, 1)]


def _intervals(n):
    return [(a, b) for a in range(n) for b in range(a + 1, n + 1)]


def _regions(h, w):
    return [(y0, y1, x0, x1) for (y0, y1) in _intervals(h) for (x0, x1) in _intervals(w)]


def _rows(a):
    return [qlist(r) for r in np.asarray(a)]


def _flip(rows, corner):
    """independent statement of the four orientations on lists of rows."""
    corner = tuple(corner)
    if corner == (1, 0):
        return [list(r) for r in rows]
    if corner == (0, 0):
        return [list(r) for r in rows[::-1]]
    if corner == (1, 1):
        return [list(r[::-1]) for r in rows]
    return [list(r[::-1]) for r in rows[::-1]]


def _sl(rows, reg):
    y0, y1, x0, x1 = reg
    return [list(r[x0:x1]) for r in rows[y0:y1]]


def _valid2(r):
    return min(r) >= 0 and r[0] < r[1] and r[2] < r[3]


def _valid1(r):
    return min(r) >= 0 and r[0] < r[1]


class C19(PropertyCheck):
    pid = "C19"
    title = "layout regions"
    nontrivial_rule = (
        "exhaustive enumeration; a case is non-trivial when the region is a proper sub-window of the "
        "array (rotate), the window clips the region on at least one side or misses it (extract), or the "
        "pixel range is not the whole parent (sub-regions); distinct = distinct (kind, shape, region, "
        "corner / window / pixels)"
    )
    exhaustive_note = {
        "quick": "rotate: every shape <= 5x5, every valid region inside, all four corners; "
                 "x0x1_after_extraction: all of [0,7)^4; region_after_extraction: every shape <= 3x3, every "
                 "region x every window; sub-regions: every region inside every shape <= 3x3 x every pixel "
                 "pair in [-1,4]^2 and every pixels_from_end in [-1,5], Region1D inside length <= 5; "
                 "constructors: all of [-1,3]^4 and [-1,3]^2 (Layout2D scenarios and Layout2D(...) validation are seeded, not exhaustive)",
        "thorough": "rotate: every shape <= 7x7, every valid region, all corners; x0x1: all of [0,9)^4; "
                    "region_after_extraction: every shape <= 4x4, every region x every window; sub-regions: "
                    "every region inside every shape <= 4x4 x pixel pairs in [-2,5]^2; constructors: all of "
                    "[-2,4]^4",
    }
    trusted_extra = [
        "numpy basic slicing and [::-1] flips are modelled as List.take/drop/reverse; checked by "
        "correspondence on every case",
    ]
    modelled_functions = [
        "autoarray/layout/layout_util.py:rotate_array_via_roe_corner_from",
        "autoarray/layout/layout_util.py:rotate_region_via_roe_corner_from",
        "autoarray/layout/layout_util.py:region_after_extraction",
        "autoarray/layout/layout_util.py:x0x1_after_extraction",
        "autoarray/layout/region.py:Region1D.__init__",
        "autoarray/layout/region.py:Region1D.total_pixels",
        "autoarray/layout/region.py:Region1D.slice",
        "autoarray/layout/region.py:Region1D.front_region_from",
        "autoarray/layout/region.py:Region1D.trailing_region_from",
        "autoarray/layout/region.py:Region2D.__init__",
        "autoarray/layout/region.py:Region2D.total_rows",
        "autoarray/layout/region.py:Region2D.total_columns",
        "autoarray/layout/region.py:Region2D.slice",
        "autoarray/layout/region.py:Region2D.serial_x_front_range_from",
        "autoarray/layout/region.py:Region2D.parallel_front_region_from",
        "autoarray/layout/region.py:Region2D.parallel_trailing_region_from",
        "autoarray/layout/region.py:Region2D.parallel_full_region_from",
        "autoarray/layout/region.py:Region2D.serial_front_region_from",
        "autoarray/layout/region.py:Region2D.serial_trailing_region_from",
        "autoarray/layout/region.py:Region2D.serial_towards_roe_full_region_from",
        "autoarray/layout/layout.py:Layout1D.__init__",
        "autoarray/layout/layout.py:Layout1D.extract_overscan_array_1d_from",
        "autoarray/layout/region.py:Region2D.y_slice",
        "autoarray/layout/region.py:Region2D.x_slice",
        "autoarray/layout/layout.py:Layout2D.__init__",
        "autoarray/layout/layout.py:Layout2D.rotated_from_roe_corner",
        "autoarray/layout/layout.py:Layout2D.new_rotated_from",
        "autoarray/layout/layout.py:Layout2D.layout_extracted_from",
        "autoarray/layout/layout.py:Layout2D.original_orientation_from",
        "autoarray/layout/layout.py:Layout2D.extract_parallel_overscan_array_2d_from",
        "autoarray/layout/layout.py:Layout2D.extract_serial_overscan_array_from",
        "autoarray/structures/arrays/uniform_2d.py:AbstractArray2D.original_orientation",
    ]
    assumptions = ["regions, windows and corners as quantified by the property: valid regions inside the "
                   "array, the four corners (1,0),(0,0),(1,1),(0,1)"]

    # ------------------------------------------------------------------ generation
    # -- round-3 hardening: dtype of the arrays, container type of regions / shapes / pixel ranges
    #    (tuple, list, numpy ints, Region2D / Region1D objects), omitted-vs-explicit default arguments,
    #    alternative constructors.  Model and oracle are unaffected.
    def generate(self, tier, rng):
        for case in self._generate_base(tier, rng):
            r = rng.random()
            yield {**case, "variant": {
                "dt": "f8" if r < 0.5 else "i8" if r < 0.75 else "f4" if r < 0.85 else "list",
                "reg": rng.choice(("tuple", "tuple", "list", "npint", "obj")),
                "shp": rng.choice(("tuple", "list", "npint")),
                "omit_defaults": rng.random() < 0.5,
                "ctor": rng.choice(("a", "b"))}}
        # 1-D layout twin (Layout1D): prescan / overscan validation and overscan extraction
        quick = tier == "quick"
        for n in range(1, 6 if quick else 8):
            for ov in itertools.product(range(-1, n + 2), repeat=2):
                pre = rng.choice([None] + _intervals(n))
                yield {"tag": "layout1d", "kind": "layout1d", "n": n, "values": qlist(gen.distinct_ints(rng, n)),
                       "prescan": None if pre is None else list(pre), "overscan": list(ov),
                       "variant": {"dt": rng.choice(("f8", "i8", "list")), "reg": "tuple", "shp": "tuple",
                                   "omit_defaults": False, "ctor": "a"}}

    @staticmethod
    def _var(case):
        return case.get("variant") or {}

    def _arr(self, case, h, w, need_ndarray=True):
        fr = [Fraction(v) for v in case["values"]]
        dt = self._var(case).get("dt", "f8")
        if dt == "i8":
            return np.array([int(f) for f in fr], dtype=np.int64).reshape(h, w)
        if dt == "f4":
            return np.array([float(f) for f in fr], dtype=np.float32).reshape(h, w)
        if dt == "list" and not need_ndarray:
            flat = [int(f) for f in fr]
            return [flat[y * w:(y + 1) * w] for y in range(h)]
        return np.array([float(f) for f in fr]).reshape(h, w)

    def _reg(self, aa, case, r, allow_obj=True, dim=2):
        """a region argument as tuple / list / tuple of numpy ints / Region object (valid regions only)."""
        if r is None:
            return None
        k = self._var(case).get("reg", "tuple")
        if k == "list":
            return [int(v) for v in r]
        if k == "npint":
            return tuple(np.int64(v) for v in r)
        if k == "obj" and allow_obj and (_valid2(r) if dim == 2 else _valid1(r)):
            return aa.Region2D(region=tuple(r)) if dim == 2 else aa.Region1D(region=tuple(r))
        return tuple(int(v) for v in r)

    def _shp(self, case, pair):
        k = self._var(case).get("shp", "tuple")
        if k == "list":
            return [int(pair[0]), int(pair[1])]
        if k == "npint":
            return (np.int64(pair[0]), np.int64(pair[1]))
        return (int(pair[0]), int(pair[1]))

    def _generate_base(self, tier, rng):
        quick = tier == "quick"
        # 1. rotation commutes with slicing: exhaustive
        smax = 5 if quick else 7
        for h in range(1, smax + 1):
            for w in range(1, smax + 1):
                vals = gen.distinct_ints(rng, h * w)
                for reg in _regions(h, w):
                    for c in CORNERS:
                        yield {"tag": "rotate_exh", "kind": "rotate", "h": h, "w": w, "values": qlist(vals),
                               "region": list(reg), "corner": list(c)}
        # regions that are invalid or leave the frame: constructor / rotation must reject or mirror
        for _ in range(300 if quick else 3000):
            h, w = rng.randint(1, 5), rng.randint(1, 5)
            reg = [rng.randint(-1, h + 1), rng.randint(-1, h + 2), rng.randint(-1, w + 1), rng.randint(-1, w + 2)]
            yield {"tag": "rotate_region_any", "kind": "rotate_region", "h": h, "w": w, "region": reg,
                   "corner": list(rng.choice(CORNERS))}
        # 2. 1-D interval clipping, exhaustive (valid and invalid intervals alike)
        n = 7 if quick else 9
        for args in itertools.product(range(n), repeat=4):
            yield {"tag": "x0x1_exh", "kind": "x0x1", "args": list(args)}
        # 3. region after extraction, exhaustive regions x windows
        emax = 3 if quick else 4
        for h in range(1, emax + 1):
            for w in range(1, emax + 1):
                vals = gen.distinct_ints(rng, h * w)
                regs = _regions(h, w)
                for o in regs:
                    for e in regs:
                        yield {"tag": "extract_exh", "kind": "extract", "h": h, "w": w, "values": qlist(vals),
                               "orig": list(o), "window": list(e)}
        for _ in range(400 if quick else 4000):
            h, w = rng.randint(2, 8), rng.randint(2, 8)
            regs = _regions(h, w)
            yield {"tag": "extract_random", "kind": "extract", "h": h, "w": w,
                   "values": qlist(gen.distinct_ints(rng, h * w)), "orig": list(rng.choice(regs)),
                   "window": list(rng.choice(regs))}
        # 4. front / trailing sub-regions
        fmax = 3 if quick else 4
        lo, hi = (-1, 4) if quick else (-2, 5)
        pix = [(a, b) for a in range(lo, hi + 1) for b in range(lo, hi + 1)]
        for h in range(1, fmax + 1):
            for w in range(1, fmax + 1):
                for reg in _regions(h, w):
                    for k in ("parallel_front", "parallel_trailing", "serial_front", "serial_trailing",
                              "serial_towards_roe_full", "serial_x_front_range"):
                        for p in pix:
                            yield {"tag": f"sub_{k}", "kind": "sub", "sub": k, "region": list(reg),
                                   "pixels": list(p), "from_end": None, "shape": [h + 1, w + 2]}
                    for k in ("parallel_front", "serial_front"):
                        for fe in range(lo, hi + 2):
                            yield {"tag": f"sub_{k}_from_end", "kind": "sub", "sub": k, "region": list(reg),
                                   "pixels": None, "from_end": fe, "shape": [h + 1, w + 2]}
                    yield {"tag": "sub_parallel_full", "kind": "sub", "sub": "parallel_full",
                           "region": list(reg), "pixels": None, "from_end": None, "shape": [h + 1, w + 2]}
        for n1 in range(1, 6 if quick else 8):
            for r in _intervals(n1):
                for p in pix:
                    yield {"tag": "sub_front1d", "kind": "sub", "sub": "front1d", "region": list(r),
                           "pixels": list(p), "from_end": None}
                    yield {"tag": "sub_trailing1d", "kind": "sub", "sub": "trailing1d", "region": list(r),
                           "pixels": list(p), "from_end": None}
                for fe in range(lo, hi + 2):
                    yield {"tag": "sub_front1d_from_end", "kind": "sub", "sub": "front1d", "region": list(r),
                           "pixels": None, "from_end": fe}
        # 5. constructors
        lo, hi = (-1, 3) if quick else (-2, 4)
        for r in itertools.product(range(lo, hi + 1), repeat=4):
            yield {"tag": "ctor2d", "kind": "ctor", "dim": 2, "region": list(r)}
        for r in itertools.product(range(lo, hi + 1), repeat=2):
            yield {"tag": "ctor1d", "kind": "ctor", "dim": 1, "region": list(r)}
        # 6. Layout2D / Array2D glue
        for _ in range(250 if quick else 2500):
            h, w = rng.randint(1, 6), rng.randint(1, 7)
            regs = _regions(h, w)
            three = [list(rng.choice(regs)) if rng.random() < 0.8 else None for _ in range(3)]
            if three[0] is None and three[2] is None:
                three[0] = list(rng.choice(regs))
            yield {"tag": "layout_glue", "kind": "layout", "h": h, "w": w,
                   "values": qlist(gen.distinct_ints(rng, h * w)), "regions": three,
                   "corner": list(rng.choice(CORNERS)), "corner2": list(rng.choice(CORNERS)),
                   "window": list(rng.choice(regs)), "store_native": rng.random() < 0.5}
        # layouts whose regions may leave the frame (rotation must reject) and Layout2D(...) validation
        for _ in range(150 if quick else 1500):
            h, w = rng.randint(1, 5), rng.randint(1, 5)
            regs = _regions(h, w)

            def any_region():
                if rng.random() < 0.2:
                    return None
                if rng.random() < 0.5:
                    return list(rng.choice(regs))
                return [rng.randint(-1, h + 1), rng.randint(-1, h + 2), rng.randint(-1, w + 1),
                        rng.randint(-1, w + 2)]

            three = [any_region() for _ in range(3)]
            yield {"tag": "layout_any_region", "kind": "layout", "h": h, "w": w,
                   "values": qlist(gen.distinct_ints(rng, h * w)), "regions": three,
                   "corner": list(rng.choice(CORNERS)), "corner2": list(rng.choice(CORNERS)),
                   "window": list(rng.choice(regs)), "store_native": rng.random() < 0.5}
            yield {"tag": "layout_ctor", "kind": "layout_ctor", "h": h, "w": w, "regions": [any_region() for _ in range(3)],
                   "corner": list(rng.choice(CORNERS))}

    # ------------------------------------------------------------------ implementation
    def run_impl(self, case):
        aa = load_autoarray()
        from autoarray import exc
        from autoarray.layout import layout_util as lu

        kind = case["kind"]

        def reg_out(r):
            return None if r is None else [int(v) for v in r.region]

        try:
            if kind == "rotate":
                h, w = case["h"], case["w"]
                a = self._arr(case, h, w)
                c = tuple(case["corner"])
                reg = self._reg(aa, case, case["region"])
                ra = lu.rotate_array_via_roe_corner_from(array=a, roe_corner=c)
                rr = lu.rotate_region_via_roe_corner_from(region=reg, shape_native=self._shp(case, (h, w)),
                                                          roe_corner=c)
                back = lu.rotate_region_via_roe_corner_from(
                    region=rr if self._var(case).get("reg") == "obj" else rr.region,
                    shape_native=self._shp(case, (h, w)), roe_corner=c)
                r0 = reg if isinstance(reg, aa.Region2D) else aa.Region2D(region=reg)
                return {"rotated_region": reg_out(rr), "rotated_array": _rows(ra),
                        "slice_of_rotated": _rows(ra[rr.slice]),
                        "slice": _rows(a[r0.slice]),
                        "slice_xy": _rows(a[r0.y_slice, r0.x_slice]),
                        "twice_array": _rows(lu.rotate_array_via_roe_corner_from(array=ra, roe_corner=c)),
                        "twice_region": reg_out(back)}
            if kind == "rotate_region":
                rr = lu.rotate_region_via_roe_corner_from(
                    region=self._reg(aa, case, case["region"]), shape_native=self._shp(case, (case["h"], case["w"])),
                    roe_corner=tuple(case["corner"]))
                return reg_out(rr)
            if kind == "x0x1":
                args = case["args"]
                if self._var(case).get("reg") == "npint":
                    args = [np.int64(v) for v in args]
                r = lu.x0x1_after_extraction(*args)
                return None if r[0] is None and r[1] is None else [int(r[0]), int(r[1])]
            if kind == "extract":
                h, w = case["h"], case["w"]
                a = self._arr(case, h, w)
                o, e = self._reg(aa, case, case["orig"]), self._reg(aa, case, case["window"])
                out = lu.region_after_extraction(original_region=o, extraction_region=e)
                win = a[aa.Region2D(region=tuple(case["window"])).slice]
                return {"region": reg_out(out),
                        "content": None if out is None else _rows(win[out.slice])}
            if kind == "sub":
                k = case["sub"]
                px = None if case["pixels"] is None else tuple(case["pixels"])
                if px is not None and self._var(case).get("shp") == "list":
                    px = list(px)
                elif px is not None and self._var(case).get("shp") == "npint":
                    px = tuple(np.int64(v) for v in px)
                fe = case["from_end"]
                if fe is not None and self._var(case).get("shp") == "npint":
                    fe = np.int64(fe)
                omit01 = self._var(case).get("omit_defaults") and case["pixels"] == [0, 1]
                if k in ("front1d", "trailing1d"):
                    r = aa.Region1D(region=self._reg(aa, case, case["region"], allow_obj=False, dim=1))
                    if k == "front1d":
                        out = r.front_region_from(pixels=px, pixels_from_end=fe)
                    else:
                        out = r.trailing_region_from(pixels=px)
                    return reg_out(out)
                r = aa.Region2D(region=self._reg(aa, case, case["region"], allow_obj=False))
                shape = self._shp(case, case["shape"])
                if k == "parallel_front":
                    out = r.parallel_front_region_from(pixels=px, pixels_from_end=fe)
                elif k == "parallel_trailing":
                    out = r.parallel_trailing_region_from() if omit01 else r.parallel_trailing_region_from(pixels=px)
                elif k == "serial_front":
                    out = r.serial_front_region_from(pixels=px, pixels_from_end=fe)
                elif k == "serial_trailing":
                    out = r.serial_trailing_region_from() if omit01 else r.serial_trailing_region_from(pixels=px)
                elif k == "parallel_full":
                    out = r.parallel_full_region_from(shape_2d=shape)
                elif k == "serial_towards_roe_full":
                    out = r.serial_towards_roe_full_region_from(shape_2d=shape) if omit01 else \
                        r.serial_towards_roe_full_region_from(shape_2d=shape, pixels=px)
                elif k == "serial_x_front_range":
                    x = r.serial_x_front_range_from(pixels=px)
                    return [int(x[0]), int(x[1])]
                else:
                    raise ValueError(k)
                return reg_out(out)
            if kind == "ctor":
                if case["dim"] == 1:
                    return reg_out(aa.Region1D(region=self._reg(aa, case, case["region"], allow_obj=False, dim=1)))
                return reg_out(aa.Region2D(region=self._reg(aa, case, case["region"], allow_obj=False)))
            if kind == "layout1d":
                n = case["n"]
                pre = None if case["prescan"] is None else tuple(case["prescan"])
                lay = aa.Layout1D(shape_1d=(n,), prescan=pre, overscan=tuple(case["overscan"]))
                vals = self._arr(case, 1, n, need_ndarray=False)
                vals = vals[0] if isinstance(vals, list) else vals.reshape(n)
                arr = aa.Array1D.no_mask(values=vals, pixel_scales=1.0)
                return {"prescan": reg_out(lay.prescan), "overscan": reg_out(lay.overscan),
                        "overscan_array": qlist(np.asarray(
                            lay.extract_overscan_array_1d_from(array=arr).native.array).ravel())}
            if kind == "layout":
                return self._run_layout(aa, lu, case, reg_out)
            if kind == "layout_ctor":
                # declared argument types: tuple or Region2D (lists are not converted by Layout2D.__init__)
                po, sp, so = [None if r is None else
                              (aa.Region2D(region=tuple(r)) if self._var(case).get("reg") == "obj" and _valid2(r)
                               else tuple(r)) for r in case["regions"]]
                kw = {} if (self._var(case).get("omit_defaults") and case["corner"] == [1, 0]) else \
                    {"original_roe_corner": tuple(case["corner"])}
                lay = aa.Layout2D(shape_2d=self._shp(case, (case["h"], case["w"])),
                                  parallel_overscan=po, serial_prescan=sp, serial_overscan=so, **kw)
                return {"regions": [reg_out(getattr(lay, n)) for n in
                                    ("parallel_overscan", "serial_prescan", "serial_overscan")],
                        "roe": [int(v) for v in lay.original_roe_corner],
                        "shape": [int(v) for v in lay.shape_2d]}
        except exc.RegionException:
            return {"err": "bad_region"}
        raise ValueError(kind)

    def _run_layout(self, aa, lu, case, reg_out):
        h, w = case["h"], case["w"]
        a = self._arr(case, h, w)
        c, c2 = tuple(case["corner"]), tuple(case["corner2"])
        po, sp, so = [self._reg(aa, case, r) for r in case["regions"]]
        lay = aa.Layout2D.rotated_from_roe_corner(
            roe_corner=c, shape_native=self._shp(case, (h, w)), parallel_overscan=po, serial_prescan=sp,
            serial_overscan=so)
        names = ("parallel_overscan", "serial_prescan", "serial_overscan")
        obs = {"rotated": [reg_out(getattr(lay, n)) for n in names],
               "roe": [int(v) for v in lay.original_roe_corner], "shape": [int(v) for v in lay.shape_2d]}
        lay2 = lay.new_rotated_from(roe_corner=c2)
        obs["rotated2"] = [reg_out(getattr(lay2, n)) for n in names]
        obs["roe2"] = [int(v) for v in lay2.original_roe_corner]
        ext = lay.layout_extracted_from(extraction_region=self._reg(aa, case, case["window"]))
        obs["extracted"] = [reg_out(getattr(ext, n)) for n in names]
        # arrays: the layout lives on the rotated array
        ra = lay.original_orientation_from(array=a)
        obs["orientation_from"] = _rows(ra)
        arr = aa.Array2D.no_mask(values=ra, pixel_scales=1.0)
        obs["parallel_overscan_array"] = None if lay.parallel_overscan is None else _rows(
            lay.extract_parallel_overscan_array_2d_from(array=arr).native.array)
        obs["serial_overscan_array"] = None if lay.serial_overscan is None else _rows(
            lay.extract_serial_overscan_array_from(array=arr).native.array)
        hdr = aa.Header(original_roe_corner=c)
        mask = aa.Mask2D.all_false(shape_native=(h, w), pixel_scales=1.0)
        if self._var(case).get("ctor") == "b" and not case["store_native"]:
            arr2 = aa.Array2D.no_mask(values=self._arr(case, h, w, need_ndarray=False), pixel_scales=1.0,
                                      header=hdr)
        else:
            arr2 = aa.Array2D(values=a, mask=mask, header=hdr, store_native=case["store_native"])
        try:
            oo = np.asarray(arr2.original_orientation)
            obs["original_orientation"] = _rows(oo) if oo.ndim == 2 else {"flat": qlist(oo)}
        except IndexError as e:
            obs["original_orientation"] = {"err": "IndexError"}
        return obs

    # ------------------------------------------------------------------ model
    def model_requests(self, case, impl_obs):
        kind = case["kind"]
        if kind == "rotate":
            h, w = case["h"], case["w"]
            rows = [case["values"][y * w:(y + 1) * w] for y in range(h)]
            return [{"op": "c19.rotate_slice", "rows": rows, "region": case["region"], "corner": case["corner"]}]
        if kind == "rotate_region":
            return [{"op": "c19.region_new", "dim": 2, "region": case["region"]},
                    {"op": "c19.rotate_region", "region": case["region"], "shape": [case["h"], case["w"]],
                     "corner": case["corner"]}]
        if kind == "x0x1":
            return [{"op": "c19.x0x1", "args": case["args"]}]
        if kind == "extract":
            h, w = case["h"], case["w"]
            rows = [case["values"][y * w:(y + 1) * w] for y in range(h)]
            return [{"op": "c19.extract_slice", "rows": rows, "orig": case["orig"], "window": case["window"]}]
        if kind == "sub":
            r = {"op": "c19.sub_region", "kind": case["sub"], "region": case["region"]}
            if case["pixels"] is not None:
                r["pixels"] = case["pixels"]
            if case["from_end"] is not None:
                r["from_end"] = case["from_end"]
            if "shape" in case:
                r["shape"] = case["shape"]
            return [r]
        if kind == "ctor":
            return [{"op": "c19.region_new", "dim": case["dim"], "region": case["region"]}]
        if kind == "layout1d":
            reqs = [{"op": "c19.region_new", "dim": 1, "region": case["overscan"]},
                    {"op": "c19.slice", "dim": 1, "region": case["overscan"], "values": case["values"]}]
            if case["prescan"] is not None:
                reqs.append({"op": "c19.region_new", "dim": 1, "region": case["prescan"]})
            return reqs
        if kind == "layout":
            h, w = case["h"], case["w"]
            rows = [case["values"][y * w:(y + 1) * w] for y in range(h)]
            return [{"op": "c19.layout", "rows": rows, "regions": case["regions"], "corner": case["corner"],
                     "corner2": case["corner2"], "window": case["window"]}]
        if kind == "layout_ctor":
            return [{"op": "c19.layout_new", "shape": [case["h"], case["w"]], "corner": case["corner"],
                     "regions": case["regions"]}]
        raise ValueError(kind)

    def model_obs(self, case, responses):
        kind = case["kind"]
        if kind == "rotate_region":
            # `rotate_region_via_roe_corner_from` takes a tuple: only the rotated tuple is validated
            r = responses[1]
            return r["ok"] if "ok" in r else {"err": r["err"]}
        if kind == "layout1d":
            for r in responses:
                if "err" in r:
                    return {"err": r["err"]}
            return {"prescan": responses[2]["ok"] if len(responses) > 2 else None,
                    "overscan": responses[0]["ok"], "overscan_array": responses[1]["ok"]}
        r = responses[0]
        if kind == "rotate" and "ok" in r:
            return {**r["ok"], "slice_xy": r["ok"]["slice"]}
        return r["ok"] if "ok" in r else {"err": r["err"]}

    def compare(self, case, impl_obs, model_obs, cmp):
        if isinstance(impl_obs, dict) and "err" in impl_obs:
            impl_obs = {"err": impl_obs["err"]}
        return cmp.diff(impl_obs, model_obs)

    # ------------------------------------------------------------------ oracle
    def oracle(self, case, obs):
        kind = case["kind"]
        return getattr(self, "_oracle_" + kind)(case, obs)

    @staticmethod
    def _rot_region(reg, h, w, corner):
        y0, y1, x0, x1 = reg
        corner = tuple(corner)
        if corner in ((0, 0), (0, 1)):
            y0, y1 = h - y1, h - y0
        if corner in ((1, 1), (0, 1)):
            x0, x1 = w - x1, w - x0
        return [y0, y1, x0, x1]

    def _oracle_rotate(self, case, obs):
        if "err" in obs:
            return False, f"valid region inside the array was rejected / raised: {obs}"
        h, w = case["h"], case["w"]
        rows = [case["values"][y * w:(y + 1) * w] for y in range(h)]
        rows = [[q(Fraction(v)) for v in r] for r in rows]
        c = case["corner"]
        if obs["rotated_array"] != _flip(rows, c):
            return False, f"rotated array is not the flip for corner {c}"
        want = _flip(_sl(rows, case["region"]), c)
        if obs["slice_of_rotated"] != want:
            return False, (f"corner {c}: rotated region {obs['rotated_region']} slices {obs['slice_of_rotated']} "
                           f"from the rotated array, rotated content of the original region is {want}")
        if obs["slice"] != _sl(rows, case["region"]):
            return False, "Region2D.slice does not address rows y0:y1, columns x0:x1"
        if obs["slice_xy"] != obs["slice"]:
            return False, "Region2D.y_slice / x_slice disagree with Region2D.slice"
        if obs["twice_array"] != rows:
            return False, "rotating the array twice does not restore it"
        if obs["twice_region"] != case["region"]:
            return False, "rotating the region twice does not restore it"
        return True, ""

    def _oracle_rotate_region(self, case, obs):
        reg = case["region"]
        h, w = case["h"], case["w"]
        inside = _valid2(reg) and reg[1] <= h and reg[3] <= w
        if inside:
            if obs != self._rot_region(reg, h, w, case["corner"]):
                return False, f"rotated region {obs} != reflected corners"
        return True, ""

    def _oracle_x0x1(self, case, obs):
        x0o, x1o, x0e, x1e = case["args"]
        if x0o >= x1o or x0e >= x1e:
            return True, ""  # invalid intervals are outside the statement
        lo, hi = max(x0o, x0e), min(x1o, x1e)
        want = [lo - x0e, hi - x0e] if lo < hi else None
        if obs != want:
            return False, f"x0x1_after_extraction{tuple(case['args'])} = {obs}, overlap in window coordinates is {want}"
        return True, ""

    def _oracle_extract(self, case, obs):
        if "err" in obs:
            return False, f"raised {obs}"
        h, w = case["h"], case["w"]
        rows = [[q(Fraction(v)) for v in case["values"][y * w:(y + 1) * w]] for y in range(h)]
        o, e = case["orig"], case["window"]
        ov = [max(o[0], e[0]), min(o[1], e[1]), max(o[2], e[2]), min(o[3], e[3])]
        if ov[0] >= ov[1] or ov[2] >= ov[3]:
            if obs["region"] is not None:
                return False, f"region {o} and window {e} do not overlap but a region {obs['region']} is returned"
            return True, ""
        want = [ov[0] - e[0], ov[1] - e[0], ov[2] - e[2], ov[3] - e[2]]
        if obs["region"] != want:
            return False, f"region after extraction {obs['region']} != overlap in window coordinates {want}"
        if obs["content"] != _sl(rows, ov):
            return False, "the returned region does not address the overlap inside the extracted window"
        return True, ""

    def _oracle_sub(self, case, obs):
        k = case["sub"]
        reg = case["region"]
        px, fe = case["pixels"], case["from_end"]
        if k in ("front1d", "trailing1d"):
            x0, x1 = reg
            if fe is not None:
                px = [(x1 - x0) - fe, x1 - x0]
            base = x0 if k == "front1d" else x1
            want = [base + px[0], base + px[1]]
            ok = _valid1(want)
        else:
            y0, y1, x0, x1 = reg
            sh = case["shape"]
            if k == "parallel_front":
                if fe is not None:
                    px = [(y1 - y0) - fe, y1 - y0]
                want = [y0 + px[0], y0 + px[1], x0, x1]
            elif k == "parallel_trailing":
                want = [y1 + px[0], y1 + px[1], x0, x1]
            elif k == "serial_front":
                if fe is not None:
                    px = [(x1 - x0) - fe, x1 - x0]
                want = [y0, y1, x0 + px[0], x0 + px[1]]
            elif k == "serial_trailing":
                want = [y0, y1, x1 + px[0], x1 + px[1]]
            elif k == "parallel_full":
                want = [y0, y1, 0, sh[1]]
            elif k == "serial_towards_roe_full":
                want = [0, sh[0], x0 + px[0], x0 + px[1]]
            elif k == "serial_x_front_range":
                if obs != [x0 + px[0], x0 + px[1]]:
                    return False, f"serial_x_front_range_from {obs} != {[x0 + px[0], x0 + px[1]]}"
                return True, ""
            ok = _valid2(want)
        if ok:
            if obs != want:
                return False, f"{k}(region={reg}, pixels={case['pixels']}, from_end={fe}) = {obs}, expected {want}"
        else:
            if obs != {"err": "bad_region"}:
                return False, f"{k}: invalid region {want} (negative or empty extent) was not rejected: {obs}"
        return True, ""

    def _oracle_ctor(self, case, obs):
        r = case["region"]
        ok = _valid1(r) if case["dim"] == 1 else _valid2(r)
        if ok and obs != r:
            return False, f"valid region {r} not accepted as is: {obs}"
        if not ok and obs != {"err": "bad_region"}:
            return False, f"invalid region {r} (negative or empty extent) was not rejected"
        return True, ""

    def _oracle_layout1d(self, case, obs):
        ok = _valid1(case["overscan"]) and (case["prescan"] is None or _valid1(case["prescan"]))
        if not ok:
            if obs != {"err": "bad_region"}:
                return False, f"Layout1D accepted an invalid region: {case['prescan']}, {case['overscan']}"
            return True, ""
        if "err" in obs:
            return False, f"Layout1D with valid regions raised {obs}"
        if obs["overscan"] != case["overscan"] or obs["prescan"] != case["prescan"]:
            return False, "Layout1D changed its regions"
        x0, x1 = case["overscan"]
        if obs["overscan_array"] != [q(Fraction(v)) for v in case["values"]][x0:x1]:
            return False, "extract_overscan_array_1d_from is not array[x0:x1]"
        return True, ""

    def _oracle_layout_ctor(self, case, obs):
        ok = all(r is None or _valid2(r) for r in case["regions"])
        if ok:
            want = {"regions": case["regions"], "roe": case["corner"], "shape": [case["h"], case["w"]]}
            if obs != want:
                return False, f"Layout2D(...) with valid regions = {obs}, expected {want}"
        elif obs != {"err": "bad_region"}:
            return False, f"Layout2D(...) accepted an invalid region (negative or empty extent): {case['regions']}"
        return True, ""

    def _oracle_layout(self, case, obs):
        h, w = case["h"], case["w"]
        if not all(r is None or (_valid2(r) and r[1] <= h and r[3] <= w) for r in case["regions"]):
            return True, ""  # a region leaves the frame: outside the statement (the model mirrors the code)
        if "err" in obs:
            return False, f"raised {obs}"
        rows = [[q(Fraction(v)) for v in case["values"][y * w:(y + 1) * w]] for y in range(h)]
        c, c2 = case["corner"], case["corner2"]
        rot = [None if r is None else self._rot_region(r, h, w, c) for r in case["regions"]]
        if obs["rotated"] != rot:
            return False, f"Layout2D.rotated_from_roe_corner regions {obs['rotated']} != {rot}"
        if obs["roe"] != c or obs["shape"] != [h, w] or obs["roe2"] != c2:
            return False, "layout lost its roe corner / shape"
        rot2 = [None if r is None else self._rot_region(r, h, w, c2) for r in rot]
        if obs["rotated2"] != rot2:
            return False, f"Layout2D.new_rotated_from regions {obs['rotated2']} != {rot2}"
        e = case["window"]
        ext = []
        for r in rot:
            if r is None:
                ext.append(None)
                continue
            ov = [max(r[0], e[0]), min(r[1], e[1]), max(r[2], e[2]), min(r[3], e[3])]
            ext.append(None if ov[0] >= ov[1] or ov[2] >= ov[3] else
                       [ov[0] - e[0], ov[1] - e[0], ov[2] - e[2], ov[3] - e[2]])
        if obs["extracted"] != ext:
            return False, f"Layout2D.layout_extracted_from regions {obs['extracted']} != {ext}"
        ra = _flip(rows, c)
        if obs["orientation_from"] != ra:
            return False, "Layout2D.original_orientation_from is not the flip for the layout's corner"
        # the rotated regions address, in the rotated array, the rotated content of the original regions
        for key, idx in (("parallel_overscan_array", 0), ("serial_overscan_array", 2)):
            if case["regions"][idx] is None:
                continue
            want = _flip(_sl(rows, case["regions"][idx]), c)
            if obs[key] != want:
                return False, f"{key}: extracted {obs[key]} != rotated content of the original region {want}"
        if obs["original_orientation"] != ra:
            return False, (f"Array2D.original_orientation (store_native={case['store_native']}, corner {c}) "
                           f"= {obs['original_orientation']}, expected the flipped native array")
        return True, ""

    # ------------------------------------------------------------------ misc
    def nontrivial(self, case, obs):
        kind = case["kind"]
        if kind == "rotate":
            return case["region"] != [0, case["h"], 0, case["w"]]
        if kind == "extract":
            return case["orig"] != case["window"]
        return True

    def known_finding(self, case, obs):
        return None

    def shrink(self, case):
        if case["kind"] == "layout":
            for i in range(3):
                if case["regions"][i] is not None and sum(r is not None for r in case["regions"]) > 1:
                    regs = list(case["regions"])
                    regs[i] = None
                    yield {**case, "regions": regs}
            if case["corner2"] != [1, 0]:
                yield {**case, "corner2": [1, 0]}
            h, w = case["h"], case["w"]
            if case["window"] != [0, h, 0, w]:
                yield {**case, "window": [0, h, 0, w]}

    def theorems_for(self, case):
        return {
            "rotate": ["C19.rotate_commutes_with_slice", "C19.rotateArray_twice", "C19.rotateRegion_twice"],
            "rotate_region": ["C19.rotateRegion_inside"],
            "x0x1": ["C19.x0x1_after_extraction_eq_overlap"],
            "extract": ["C19.region_after_extraction_eq_overlap", "C19.extraction_addresses_overlap",
                        "C19.region_after_extraction_absent_iff"],
            "sub": ["C19.parallel_front_rows", "C19.parallel_front_from_end_rows", "C19.parallel_trailing_rows",
                    "C19.serial_front_columns", "C19.serial_front_from_end_columns",
                    "C19.serial_trailing_columns", "C19.front1d_pixels", "C19.front1d_from_end_pixels",
                    "C19.trailing1d_pixels", "C19.parallel_front_content", "C19.serial_front_content",
                    "C19.front1d_content"],
            "ctor": ["C19.region2d_rejects_iff_invalid", "C19.region1d_rejects_iff_invalid"],
            "layout": ["C19.layout_rotated_slices_rotated_content", "C19.layout_new_rotated_slices_rotated_content",
                       "C19.layout_rotated_twice", "C19.layout_extracted_regions",
                       "C19.original_orientation_undoes_rotation"],
            "layout_ctor": ["C19.layout_new_iff_valid"],
            "layout1d": ["C19.region1d_rejects_iff_invalid"],
        }.get(case["kind"], ["C19.*"])


CHECK = C19()
