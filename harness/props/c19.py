"""C19 — layout regions rotate and extract consistently with the arrays they index."""
from __future__ import annotations

import itertools
import json
from fractions import Fraction

import numpy as np

import gen
from common import PropertyCheck, Skip, load_autoarray, q, qlist

CORNERS = [(1, 0), (0, 0), (1, 1), (0, 1)]

# -- round-4 hardening: memory layout / writability / byte order of the ndarrays handed to the library.
#    All of these hold EQUAL values; only strides, flags and byte order differ.
LAYS2 = ("C", "C", "F", "T", "neg", "negy", "negx", "strided", "stridedF", "window", "ro", "roF", "be",
         "unaligned")
LAYS1 = ("C", "neg", "strided", "window", "ro", "be", "unaligned")


def _relayout(a, lay):
    """an ndarray equal to `a` (same shape, dtype kind and values) with another memory layout:
    F = Fortran order, T = transposed view of a C buffer, neg* = negatively strided views, strided* = a
    non-contiguous slice (steps in both axes) of a larger C / Fortran buffer, window = contiguous rows
    inside a larger buffer, ro* = read-only, be = big-endian dtype, unaligned = odd byte offset."""
    a = np.array(a)
    if lay in (None, "C") or a.size == 0:
        return a
    if a.ndim == 1:
        n = a.shape[0]
        if lay in ("neg", "negy", "negx", "F", "T"):
            out = a[::-1].copy()[::-1]
        elif lay in ("strided", "stridedF"):
            big = np.full(3 * n + 4, _fill(a), dtype=a.dtype)
            big[2:2 + 3 * n:3] = a
            out = big[2:2 + 3 * n:3]
        elif lay == "window":
            big = np.full(n + 5, _fill(a), dtype=a.dtype)
            big[2:2 + n] = a
            out = big[2:2 + n]
        elif lay in ("ro", "roF"):
            out = a.copy()
            out.setflags(write=False)
        elif lay == "be":
            out = a.astype(a.dtype.newbyteorder(">"))
        elif lay == "unaligned":
            buf = np.zeros(a.nbytes + 1, dtype=np.uint8)
            out = buf[1:].view(a.dtype)
            out[...] = a
        else:
            raise ValueError(lay)
        assert out.shape == a.shape and np.array_equal(out, a)
        return out
    h, w = a.shape
    if lay == "F":
        out = np.asfortranarray(a)
    elif lay == "T":
        out = np.ascontiguousarray(a.T).T
    elif lay == "neg":
        out = a[::-1, ::-1].copy()[::-1, ::-1]
    elif lay == "negy":
        out = a[::-1].copy()[::-1]
    elif lay == "negx":
        out = a[:, ::-1].copy()[:, ::-1]
    elif lay in ("strided", "stridedF"):
        big = np.full((2 * h + 3, 3 * w + 4), _fill(a), dtype=a.dtype)
        if lay == "stridedF":
            big = np.asfortranarray(big)
        big[1:1 + 2 * h:2, 2:2 + 3 * w:3] = a
        out = big[1:1 + 2 * h:2, 2:2 + 3 * w:3]
    elif lay == "window":
        big = np.full((h + 3, w + 5), _fill(a), dtype=a.dtype)
        big[1:1 + h, 2:2 + w] = a
        out = big[1:1 + h, 2:2 + w]
    elif lay == "ro":
        out = a.copy()
        out.setflags(write=False)
    elif lay == "roF":
        out = np.asfortranarray(a)
        out.setflags(write=False)
    elif lay == "be":
        out = a.astype(a.dtype.newbyteorder(">"))
    elif lay == "unaligned":
        buf = np.zeros(a.nbytes + 1, dtype=np.uint8)
        out = buf[1:].view(a.dtype).reshape(a.shape)
        out[...] = a
    else:
        raise ValueError(lay)
    assert out.shape == a.shape and np.array_equal(out, a)
    return out


def _fill(a):
    """padding value of the larger buffers (never read back): negative where the dtype has negatives"""
    return 77 if a.dtype.kind in "ub" else -77


def _intervals(n):
    return [(a, b) for a in range(n) for b in range(a + 1, n + 1)]


def _regions(h, w):
    return [(y0, y1, x0, x1) for (y0, y1) in _intervals(h) for (x0, x1) in _intervals(w)]


def _rows(a):
    return [qlist(r) for r in np.asarray(a)]


def _flip(rows, corner):
    """independent statement of the four orientations on lists of rows."""
    corner = tuple(corner)
    if corner == (1, 0):
        return [list(r) for r in rows]
    if corner == (0, 0):
        return [list(r) for r in rows[::-1]]
    if corner == (1, 1):
        return [list(r[::-1]) for r in rows]
    return [list(r[::-1]) for r in rows[::-1]]


def _sl(rows, reg):
    y0, y1, x0, x1 = reg
    return [list(r[x0:x1]) for r in rows[y0:y1]]


def _valid2(r):
    return min(r) >= 0 and r[0] < r[1] and r[2] < r[3]


def _valid1(r):
    return min(r) >= 0 and r[0] < r[1]


# ======================================================================================================
# Round-4 hardening, part 2: HISTORIES on real, reused objects (Layout2D, Header / Array2D, Region2D)
# ======================================================================================================
UNSPEC = "<outside the statement>"
NO_OBJ = {"err": "no_object"}
BAD = {"err": "bad_region"}
NAMES3 = ("parallel_overscan", "serial_prescan", "serial_overscan")
TAINT = "<tainted>"


def _inside(r, h, w):
    return r is None or (_valid2(r) and r[1] <= h and r[3] <= w)


def _overlap_in_window(r, e):
    ov = [max(r[0], e[0]), min(r[1], e[1]), max(r[2], e[2]), min(r[3], e[3])]
    if ov[0] >= ov[1] or ov[2] >= ov[3]:
        return None
    return [ov[0] - e[0], ov[1] - e[0], ov[2] - e[2], ov[3] - e[2]]


def _reflect(reg, h, w, corner):
    y0, y1, x0, x1 = reg
    corner = tuple(corner)
    if corner in ((0, 0), (0, 1)):
        y0, y1 = h - y1, h - y0
    if corner in ((1, 1), (0, 1)):
        x0, x1 = w - x1, w - x0
    return [y0, y1, x0, x1]


class _Shadow:
    """What every step of a history must return, stated on plain lists for FRESH objects in the state the
    earlier steps produced (flips by list reversal, overlap by max/min, reflection arithmetic).  A step whose
    inputs leave the property's quantifier (a region outside its frame) yields UNSPEC and taints what it
    creates; the Lean model still mirrors those."""

    def __init__(self, arrays):
        self.arrays = [[[q(Fraction(v)) for v in a["values"][y * a["w"]:(y + 1) * a["w"]]]
                        for y in range(a["h"])] for a in arrays]
        self.L, self.H, self.A, self.R = {}, {}, {}, {}

    @staticmethod
    def view(l):
        return {"regions": [None if r is None else list(r) for r in l["regions"]], "roe": list(l["roe"]),
                "shape": list(l["shape"])}

    def _reg(self, x):
        if isinstance(x, dict):
            return self.R.get(x["ref"])
        return None if x is None else list(x)

    def step(self, st):
        s = st["s"]
        if s == "new":
            regs = [self._reg(x) for x in st["regions"]]
            h, w = st["shape"]
            if st["via"] == "ctor":
                if all(r is None or _valid2(r) for r in regs):
                    self.L[st["dst"]] = {"shape": [h, w], "roe": list(st["corner"]), "regions": regs}
                    return self.view(self.L[st["dst"]])
                self.L[st["dst"]] = None
                return dict(BAD)
            if all(_inside(r, h, w) for r in regs):
                self.L[st["dst"]] = {"shape": [h, w], "roe": list(st["corner"]),
                                     "regions": [None if r is None else _reflect(r, h, w, st["corner"]) for r in regs]}
                return self.view(self.L[st["dst"]])
            self.L[st["dst"]] = TAINT
            return UNSPEC
        if s in ("rot", "ext", "copy"):
            src = self.L.get(st["src"])
            if src is None:
                self.L[st["dst"]] = None
                return dict(NO_OBJ)
            if src == TAINT:
                self.L[st["dst"]] = TAINT
                return UNSPEC
            h, w = src["shape"]
            if s == "copy":
                self.L[st["dst"]] = {"shape": [h, w], "roe": list(src["roe"]),
                                     "regions": [None if r is None else list(r) for r in src["regions"]]}
                return "ok"
            if s == "rot":
                if not all(_inside(r, h, w) for r in src["regions"]):
                    self.L[st["dst"]] = TAINT
                    return UNSPEC
                new = {"shape": [h, w], "roe": list(st["corner"]),
                       "regions": [None if r is None else _reflect(r, h, w, st["corner"]) for r in src["regions"]]}
            else:
                e = st["window"]
                new = {"shape": [h, w], "roe": list(src["roe"]),
                       "regions": [None if r is None else _overlap_in_window(r, e) for r in src["regions"]]}
            self.L[st["dst"]] = new
            return self.view(new)
        if s in ("read", "set", "set_roe", "orient", "decoy", "fault"):
            src = self.L.get(st["src"])
            if src is None:
                return dict(NO_OBJ) if s not in ("decoy", "fault") else "ok"
            if s in ("decoy", "fault"):
                return "ok"
            if src == TAINT:
                return UNSPEC
            if s == "read":
                return self.view(src)
            if s == "set":
                src["regions"][st["name"]] = None if st["region"] is None else list(st["region"])
                return "ok"
            if s == "set_roe":
                src["roe"] = list(st["corner"])
                return "ok"
            rows = self.arrays[st["arr"]]
            fl = _flip(rows, src["roe"])
            out = {"rows": fl, "po": None, "so": None}
            if st["extract"]:
                for key, idx in (("po", 0), ("so", 2)):
                    if src["regions"][idx] is not None:
                        out[key] = _sl(fl, src["regions"][idx])
            return out
        if s in ("hnew", "hset"):
            self.H[st["dst"] if s == "hnew" else st["src"]] = list(st["corner"])
            return "ok"
        if s == "anew":
            self.A[st["dst"]] = {"rows": [list(r) for r in self.arrays[st["arr"]]], "hdr": st["hdr"]}
            return "ok"
        if s in ("aread", "aset", "adecoy", "afault"):
            a = self.A.get(st["src"])
            if s in ("adecoy", "afault"):
                return "ok"
            if a is None:
                return dict(NO_OBJ)
            if s == "aset":
                a["rows"][st["y"]][st["x"]] = q(Fraction(st["value"]))
                return "ok"
            return _flip(a["rows"], self.H[a["hdr"]])
        if s == "rnew":
            r = list(st["region"])
            self.R[st["dst"]] = r if _valid2(r) else None
            return r if _valid2(r) else dict(BAD)
        if s == "rset":
            self.R[st["src"]] = list(st["region"])
            return "ok"
        if s == "rdecoy":
            return "ok"
        if s == "rread":
            r = self.R.get(st["src"])
            if r is None:
                return dict(NO_OBJ)
            h, w = st["shape"]
            if not _inside(r, h, w):
                return UNSPEC
            y0, y1, x0, x1 = r
            a, b = st["pixels"]

            def chk(want):
                return want if _valid2(want) else dict(BAD)

            return {"region": r, "rows": y1 - y0, "cols": x1 - x0, "slice": r,
                    "rot": _reflect(r, h, w, st["corner"]),
                    "pfront": chk([y0 + a, y0 + b, x0, x1]), "sfront": chk([y0, y1, x0 + a, x0 + b]),
                    "ptrail": chk([y1 + a, y1 + b, x0, x1]),
                    "ext": _overlap_in_window(r, st["window"])}
        raise ValueError(s)


_DEF = {"new": "L", "rot": "L", "ext": "L", "copy": "L", "hnew": "H", "anew": "A", "rnew": "R"}
_USE = {"rot": "L", "ext": "L", "copy": "L", "read": "L", "set": "L", "set_roe": "L", "orient": "L",
        "decoy": "L", "fault": "L", "hset": "H", "aread": "A", "aset": "A", "adecoy": "A", "afault": "A",
        "rset": "R", "rread": "R", "rdecoy": "R"}


def _step_uses(st):
    out = set()
    if st["s"] in _USE:
        out.add((_USE[st["s"]], st["src"]))
    if st["s"] == "anew":
        out.add(("H", st["hdr"]))
    if st["s"] == "new":
        out |= {("R", x["ref"]) for x in st["regions"] if isinstance(x, dict)}
    return out


def _step_def(st):
    return (_DEF[st["s"]], st["dst"]) if st["s"] in _DEF else None


class _HistoryBuilder:
    """seeded generator of one typed history; tracks the state with a _Shadow so that the steps are
    meaningful (windows that clip, regions inside / outside the frame, twins of earlier steps)."""

    def __init__(self, rng, theme):
        self.rng, self.theme = rng, theme
        h, w = rng.randint(2, 7), rng.randint(2, 8)
        self.h, self.w = h, w
        v0 = [Fraction(v) for v in gen.distinct_ints(rng, h * w)]
        v1 = list(v0)
        k = rng.randrange(h * w)
        v1[k] = v1[k] * (1 + Fraction(1, 2 ** 20))  # near-duplicate twin: 1e-6 relative on one pixel
        h2, w2 = (w, h + 1) if rng.random() < 0.6 else (h, w)
        self.arrays = [
            {"h": h, "w": w, "values": qlist(v0), "lay": rng.choice(LAYS2)},
            {"h": h, "w": w, "values": qlist(v1), "lay": rng.choice(LAYS2)},
            {"h": h2, "w": w2, "values": qlist(gen.distinct_ints(rng, h2 * w2)), "lay": rng.choice(LAYS2)},
        ]
        self.sh = _Shadow(self.arrays)
        self.steps = []
        self.n = {"L": 0, "H": 0, "A": 0, "R": 0}
        self.last_corner = None
        self.last_window = None
        self.last_L = None
        self.captured = set()

    # -- helpers
    def emit(self, st):
        self.steps.append(st)
        self.sh.step(st)

    def fresh(self, cat):
        self.n[cat] += 1
        return self.n[cat] - 1

    def live(self):
        return [i for i, l in self.sh.L.items() if l is not None and l != TAINT]

    def corner(self):
        rng = self.rng
        if self.last_corner is not None and rng.random() < 0.55:
            return list(self.last_corner)
        c = list(rng.choice(CORNERS))
        self.last_corner = c
        return c

    def region_in(self, h, w, layoutish=False):
        rng = self.rng
        if layoutish and rng.random() < 0.5:  # overscan-like strips hugging an edge
            k = rng.randint(1, max(1, min(h, w) // 2))
            return list(rng.choice([[h - k, h, 0, w], [0, h, 0, k], [0, h, w - k, w], [0, k, 0, w],
                                    [h - k, h, rng.randint(0, w - 1), w]]))
        return list(rng.choice(_regions(h, w)))

    def window(self, h, w):
        rng = self.rng
        if self.last_window is not None and rng.random() < 0.45:
            e = list(self.last_window)
            if rng.random() < 0.5:
                i = rng.randrange(4)
                e[i] += rng.choice((-1, 1))
            if _valid2(e) and e[1] <= h and e[3] <= w:
                return e
        e = self.region_in(h, w)
        self.last_window = e
        return e

    def src(self):
        live = self.live()
        while not live:
            self.new_layout()
            live = self.live()
        if self.last_L in live and self.rng.random() < 0.5:
            return self.last_L
        return self.rng.choice(live)

    # -- steps
    def new_layout(self, like=None):
        rng = self.rng
        if like is not None and rng.random() < 0.6:  # a twin world: same regions, neighbouring shape / corner
            src = self.sh.L[like]
            h, w = src["shape"]
            regs = [None if r is None else list(r) for r in src["regions"]]
            k = rng.random()
            if k < 0.4:
                h, w = h + rng.choice((0, 1)), w + 1
            elif k < 0.6:
                h, w = max(h, w), max(h, w) + 1
            corner = list(rng.choice(CORNERS))
        else:
            h, w = (self.h, self.w) if rng.random() < 0.7 else (rng.randint(1, 7), rng.randint(1, 8))
            regs = [self.region_in(h, w, True) if rng.random() < 0.8 else None for _ in range(3)]
            if all(r is None for r in regs):
                regs[rng.randrange(3)] = self.region_in(h, w, True)
            corner = list(rng.choice(CORNERS))
        specs = list(regs)
        valid_refs = [j for j, r in self.sh.R.items() if r is not None and _inside(r, h, w)]
        if valid_refs and rng.random() < 0.5:  # a Region2D object shared with other layouts / reads
            j = rng.choice(valid_refs)
            specs[rng.randrange(3)] = {"ref": j}
            self.captured.add(j)
        if rng.random() < 0.06:  # a constructor fault: an invalid region
            specs[rng.randrange(3)] = [1, 1, 0, 1]
        d = self.fresh("L")
        self.emit({"s": "new", "dst": d, "via": rng.choice(("ctor", "ctor", "rotated_from")), "shape": [h, w],
                   "corner": corner, "regions": specs, "as": rng.choice(("tuple", "obj"))})
        if self.sh.L[d] not in (None, TAINT):
            self.last_L = d

    def rot(self):
        i = self.src()
        d = self.fresh("L")
        self.emit({"s": "rot", "dst": d, "src": i, "corner": self.corner()})
        if self.rng.random() < 0.5 and self.sh.L[d] not in (None, TAINT):
            self.last_L = d

    def ext(self):
        i = self.src()
        h, w = self.sh.L[i]["shape"]
        d = self.fresh("L")
        self.emit({"s": "ext", "dst": d, "src": i, "window": self.window(h, w),
                   "as": self.rng.choice(("tuple", "list", "obj", "npint"))})
        if self.rng.random() < 0.6:
            self.last_L = d

    def read(self):
        self.emit({"s": "read", "src": self.src()})

    def set(self):
        rng = self.rng
        i = self.src()
        h, w = self.sh.L[i]["shape"]
        k = rng.random()
        if k < 0.1:
            r = None
        elif k < 0.75:
            r = self.region_in(h, w, rng.random() < 0.5)
        else:  # a valid region that leaves the frame: rotating this layout must be rejected or is unspecified
            r = [rng.randint(0, h), h + rng.randint(1, 2), rng.randint(0, max(0, w - 1)), w + rng.randint(0, 1)]
        self.emit({"s": "set", "src": i, "name": rng.randrange(3), "region": r,
                   "as": rng.choice(("obj", "obj", "tuple_obj"))})

    def set_roe(self):
        self.emit({"s": "set_roe", "src": self.src(), "corner": list(self.rng.choice(CORNERS))})

    def copy(self):
        i = self.src()
        d = self.fresh("L")
        self.emit({"s": "copy", "dst": d, "src": i, "deep": self.rng.random() < 0.5})
        if self.rng.random() < 0.5:
            self.last_L = d

    def orient(self):
        rng = self.rng
        i = self.src()
        l = self.sh.L[i]
        k = rng.choice((0, 0, 1, 1, 2))
        a = self.arrays[k]
        extract = l["shape"] == [a["h"], a["w"]] and all(_inside(r, a["h"], a["w"]) for r in l["regions"])
        self.emit({"s": "orient", "src": i, "arr": k, "extract": bool(extract)})

    def decoy(self):
        self.emit({"s": "decoy", "src": self.src()})

    def fault(self):
        self.emit({"s": "fault", "src": self.src(), "how": self.rng.randrange(6)})

    def arr_op(self):
        rng = self.rng
        if not self.sh.H or rng.random() < 0.08:
            self.emit({"s": "hnew", "dst": self.fresh("H"), "corner": list(rng.choice(CORNERS))})
            return
        if not self.sh.A or rng.random() < 0.15:
            self.emit({"s": "anew", "dst": self.fresh("A"), "arr": rng.choice((0, 0, 1, 2)),
                       "hdr": rng.choice(list(self.sh.H)), "store_native": rng.random() < 0.5,
                       "ctor": rng.choice(("a", "b"))})
            return
        d = rng.choice(list(self.sh.A))
        rows = self.sh.A[d]["rows"]
        k = rng.random()
        if k < 0.42:
            self.emit({"s": "aread", "src": d})
        elif k < 0.72:
            y, x = rng.randrange(len(rows)), rng.randrange(len(rows[0]))
            old = Fraction(rows[y][x])
            val = old * (1 + Fraction(1, 2 ** 20)) if (rng.random() < 0.4 and old != 0) else \
                Fraction(rng.randint(-400, 400) * 4 + 1, 4)
            if Fraction(float(val)) != val:  # keep every value an exact double
                val = Fraction(rng.randint(-400, 400) * 4 + 1, 4)
            self.emit({"s": "aset", "src": d, "y": y, "x": x, "value": q(val)})
        elif k < 0.84:
            self.emit({"s": "hset", "src": self.sh.A[d]["hdr"], "corner": list(rng.choice(CORNERS))})
        elif k < 0.94:
            self.emit({"s": "adecoy", "src": d})
        else:
            self.emit({"s": "afault", "src": d})

    def reg_op(self):
        rng = self.rng
        live = [j for j, r in self.sh.R.items() if r is not None]
        if not live or rng.random() < 0.15:
            h, w = self.h, self.w
            r = self.region_in(h, w) if rng.random() < 0.9 else [1, 0, 0, 1]
            self.emit({"s": "rnew", "dst": self.fresh("R"), "region": r})
            return
        j = rng.choice(live)
        r = self.sh.R[j]
        k = rng.random()
        if k < 0.3 and j not in self.captured:
            new = list(r)
            if rng.random() < 0.6:
                i = rng.randrange(4)
                new[i] += rng.choice((-1, 1))
            else:
                new = self.region_in(self.h + 1, self.w + 1)
            if _valid2(new):
                self.emit({"s": "rset", "src": j, "region": new})
                return
        if k < 0.45:
            self.emit({"s": "rdecoy", "src": j})
            return
        h = max(r[1], self.h) + rng.choice((0, 0, 1))
        w = max(r[3], self.w) + rng.choice((0, 0, 2))
        if rng.random() < 0.1:
            h = max(1, r[1] - 1)
        self.emit({"s": "rread", "src": j, "shape": [h, w], "corner": self.corner(),
                   "pixels": [rng.randint(-1, 3), rng.randint(0, 4)], "window": self.window(h, w)})

    def build(self, n_steps):
        rng = self.rng
        table = {
            "layout": [("rot", 3.5), ("ext", 3.5), ("read", 1), ("set", 1.5), ("set_roe", .4), ("copy", 1),
                       ("orient", .8), ("decoy", .8), ("fault", .6), ("new", .8)],
            "orient": [("orient", 4), ("set_roe", 1.5), ("rot", 1), ("ext", .6), ("copy", .6), ("decoy", .8),
                       ("fault", .8), ("new", .8), ("set", .6)],
            "array": [("arr", 1)],
            "region": [("reg", 5), ("new", 1), ("rot", 1), ("ext", 1), ("read", .5)],
            "mixed": [("rot", 2), ("ext", 2), ("read", .7), ("set", 1), ("set_roe", .4), ("copy", .6),
                      ("orient", 1.2), ("decoy", .6), ("fault", .5), ("new", .6), ("arr", 3), ("reg", 2)],
        }[self.theme]
        names, weights = [a for a, _ in table], [b for _, b in table]
        if self.theme not in ("array", "region"):
            self.new_layout()
        while len(self.steps) < n_steps:
            op = rng.choices(names, weights)[0]
            if op == "new":
                live = self.live()
                self.new_layout(like=rng.choice(live) if live else None)
            elif op == "arr":
                self.arr_op()
            elif op == "reg":
                self.reg_op()
            else:
                getattr(self, op)()
        return {"tag": f"hist_{self.theme}", "kind": "history", "arrays": self.arrays, "steps": self.steps}


def _template_histories():
    """seed-independent families: every corner x a few windows x the orders in which a layout, its copies and
    the layouts extracted from it are rotated / edited (the derived object must answer like a fresh one)."""
    shape = [6, 8]
    regs = [[4, 6, 1, 7], [0, 6, 0, 1], [0, 4, 7, 8]]
    arrays = [{"h": 6, "w": 8, "values": qlist(range(1, 49)), "lay": "C"}]
    windows = [[1, 5, 1, 7], [0, 3, 0, 4], [2, 6, 4, 8], [4, 6, 6, 8]]
    new = {"s": "new", "dst": 0, "via": "ctor", "shape": shape, "corner": [1, 0], "regions": regs, "as": "tuple"}

    def case(tag, steps):
        return {"tag": tag, "kind": "history", "arrays": arrays, "steps": [dict(new)] + steps}

    for c in CORNERS:
        c = list(c)
        for i, e in enumerate(windows):
            e2 = windows[(i + 1) % len(windows)]
            yield case("hist_t_rot_ext_rot", [
                {"s": "rot", "dst": 1, "src": 0, "corner": c}, {"s": "ext", "dst": 2, "src": 0, "window": e, "as": "tuple"},
                {"s": "rot", "dst": 3, "src": 2, "corner": c}, {"s": "rot", "dst": 4, "src": 3, "corner": c},
                {"s": "read", "src": 0}, {"s": "read", "src": 2}])
            yield case("hist_t_ext_rot_rot", [
                {"s": "ext", "dst": 1, "src": 0, "window": e, "as": "tuple"}, {"s": "rot", "dst": 2, "src": 1, "corner": c},
                {"s": "rot", "dst": 3, "src": 0, "corner": c}, {"s": "rot", "dst": 4, "src": 3, "corner": c},
                {"s": "read", "src": 0}])
            yield case("hist_t_two_windows", [
                {"s": "ext", "dst": 1, "src": 0, "window": e, "as": "tuple"},
                {"s": "ext", "dst": 2, "src": 0, "window": e2, "as": "tuple"},
                {"s": "rot", "dst": 3, "src": 1, "corner": c}, {"s": "rot", "dst": 4, "src": 2, "corner": c},
                {"s": "rot", "dst": 5, "src": 0, "corner": c}])
            yield case("hist_t_rot_ext_of_rotated", [
                {"s": "rot", "dst": 1, "src": 0, "corner": c}, {"s": "ext", "dst": 2, "src": 1, "window": e, "as": "tuple"},
                {"s": "rot", "dst": 3, "src": 2, "corner": c}, {"s": "ext", "dst": 4, "src": 0, "window": e, "as": "tuple"},
                {"s": "rot", "dst": 5, "src": 1, "corner": c}])
            for deep in (False, True):
                yield case("hist_t_copy_edit", [
                    {"s": "rot", "dst": 1, "src": 0, "corner": c}, {"s": "copy", "dst": 2, "src": 0, "deep": deep},
                    {"s": "set", "src": 2, "name": i % 3, "region": e, "as": "obj"},
                    {"s": "rot", "dst": 3, "src": 2, "corner": c}, {"s": "ext", "dst": 4, "src": 2, "window": e2, "as": "tuple"},
                    {"s": "rot", "dst": 5, "src": 0, "corner": c}, {"s": "read", "src": 0}])
            yield case("hist_t_edit_in_place", [
                {"s": "rot", "dst": 1, "src": 0, "corner": c}, {"s": "ext", "dst": 2, "src": 0, "window": e2, "as": "tuple"},
                {"s": "orient", "src": 0, "arr": 0, "extract": True},
                {"s": "set", "src": 0, "name": i % 3, "region": e, "as": "obj"},
                {"s": "set_roe", "src": 0, "corner": c},
                {"s": "rot", "dst": 3, "src": 0, "corner": c}, {"s": "ext", "dst": 4, "src": 0, "window": e2, "as": "tuple"},
                {"s": "orient", "src": 0, "arr": 0, "extract": True}])
            yield case("hist_t_fault_reuse", [
                {"s": "set", "src": 0, "name": 1 + i % 2, "region": [2, 7, 0, 9], "as": "obj"},
                {"s": "rot", "dst": 1, "src": 0, "corner": c}, {"s": "fault", "src": 0, "how": i},
                {"s": "set", "src": 0, "name": 1 + i % 2, "region": e, "as": "obj"},
                {"s": "rot", "dst": 2, "src": 0, "corner": c}, {"s": "ext", "dst": 3, "src": 0, "window": e2, "as": "tuple"}])
    # Header / Array2D: shared header, in-place edits, both storage modes
    for c in CORNERS:
        for c2 in CORNERS:
            for sn in (False, True):
                yield {"tag": "hist_t_array", "kind": "history", "arrays": arrays, "steps": [
                    {"s": "hnew", "dst": 0, "corner": list(c)},
                    {"s": "anew", "dst": 0, "arr": 0, "hdr": 0, "store_native": sn, "ctor": "a"},
                    {"s": "anew", "dst": 1, "arr": 0, "hdr": 0, "store_native": not sn, "ctor": "b"},
                    {"s": "aread", "src": 0}, {"s": "aset", "src": 0, "y": 1, "x": 2, "value": "401/4"},
                    {"s": "aread", "src": 0}, {"s": "aread", "src": 1},
                    {"s": "hset", "src": 0, "corner": list(c2)}, {"s": "aread", "src": 0},
                    {"s": "aset", "src": 1, "y": 5, "x": 7, "value": "-3/4"}, {"s": "aread", "src": 1},
                    {"s": "aread", "src": 0}]}


# ======================================================================================================
# Round-5/6 hardening: "world" cases.  One world = a frame of values + three layout regions + a region R0 +
# a window + two corners + a pixel range, observed through EVERY observe_at entry in one go (rotate_array /
# rotate_region, Layout2D.rotated_from_roe_corner / new_rotated_from / layout_extracted_from /
# original_orientation_from / both overscan extractions, Array2D.original_orientation, region_after_extraction,
# front / trailing sub-regions, Layout1D) -- possibly several ROUNDS of it, with scribbling over everything the
# API returned or accepted, in-place re-use of the caller's array, configuration flips, and option / container
# variants of every constructor on the way.  Every round is judged by the model (existing driver ops on the
# round's values: the model has no state, so its answer IS the answer of a fresh world) and by the oracle.
# ======================================================================================================
DEC_K_QUICK = (-1070, -1000, -500, -300, -150, -100, -60, -45, -40, -30, -20, -10, 0, 10, 20, 30, 40, 45, 60, 100,
               150, 300, 500, 1000)
DEC_PATTERNS = ("distinct", "near_sym_x", "near_sym_y", "near_sym_xy", "near_uniform", "mixed_range", "sym_exact",
                "region_scaled", "near_zero")
INT_RANGE = {"i8": (-2 ** 63, 2 ** 63 - 1), "i4": (-2 ** 31, 2 ** 31 - 1), "i2": (-2 ** 15, 2 ** 15 - 1),
             "u1": (0, 255)}
NP_DT = {"f8": np.float64, "f4": np.float32, "i8": np.int64, "i4": np.int32, "i2": np.int16, "u1": np.uint8}
FAR_ORIGIN = [2.0 ** 17 + 0.5, -3.0 * 2 ** 18]

# option axes of the constructors on the way (R5-C containers / R5-F options); first value = the default
WORLD_AXES = {
    "a2d_ctor": ["init", "no_mask", "no_mask_slim", "from_a2d_slim", "from_a2d_native", "apply_mask", "native_of",
                 "slim_of"],
    "a2d_values": ["nd", "list"],
    "store_native": [False, True, 0, 1],
    "skip_mask": [None, False, True],
    "mask_kind": ["all_false", "bool_lay", "list", "from_mask", "inverted", "masked"],
    "origin": [None, [0.0, 0.0], [0, 0], FAR_ORIGIN],
    "pixel_scales": [1.0, 1, [2.0 ** -30, 2.0 ** 20], 2.0 ** 40, [0.5]],
    "ext_ctor": ["no_mask", "init_slim", "init_native", "native_of"],
    "ext_header": [None, "hdr"],
    "hdr_opts": [0, 1, 2, 3],
    "omit_none": [False, True],
    "explicit_defaults": [False, True],
    "layout_via": ["rotated_from", "ctor_then_rot"],
    "present": [7, 0b101, 0b001, 0b100, 0b010, 0b011, 0b110],
    "corner": [0, 1, 2, 3],
    "corner2": [0, 1, 2, 3],
    "reg": ["tuple", "list", "npint", "obj", "mixed"],
    "shp": ["tuple", "list", "npint"],
    "dt": ["f8", "f4", "i8", "i4", "i2", "u1"],
    "lay": ["C", "F", "T", "neg", "negy", "negx", "strided", "stridedF", "window", "ro", "roF", "be", "unaligned"],
}
HDR_OPTS = [{}, {"readout_offsets": (0, 0)}, {"readout_offsets": (3, 5)}, {"header_sci_obj": {}, "header_hdu_obj": {}}]


def _pairwise_rows(axes, seed=20190519):
    """a greedy strength-2 covering array over `axes` (dict name -> values): every pair of values of every two
    axes occurs together in at least one row.  Deterministic (own fixed-seed generator)."""
    import random as _random
    rng = _random.Random(seed)
    names = list(axes)
    unc = {(i, a, j, b) for i in range(len(names)) for j in range(i + 1, len(names))
           for a in range(len(axes[names[i]])) for b in range(len(axes[names[j]]))}
    rows = []
    while unc:
        i, a, j, b = min(unc)
        row = {i: a, j: b}
        order = [k for k in range(len(names)) if k not in row]
        rng.shuffle(order)
        for k in order:
            best, best_gain = [], -1
            for v in range(len(axes[names[k]])):
                gain = sum(1 for (m, mv) in row.items()
                           if ((m, mv, k, v) if m < k else (k, v, m, mv)) in unc)
                if gain > best_gain:
                    best, best_gain = [v], gain
                elif gain == best_gain:
                    best.append(v)
            row[k] = rng.choice(best)
        for m in row:
            for k in row:
                if m < k:
                    unc.discard((m, row[m], k, row[k]))
        rows.append({names[k]: axes[names[k]][row[k]] for k in range(len(names))})
    return rows


def _exact_as(fr, dt):
    """is the Fraction `fr` exactly representable in dtype `dt`?"""
    try:
        if dt in INT_RANGE:
            lo, hi = INT_RANGE[dt]
            return fr.denominator == 1 and lo <= fr.numerator <= hi
        if dt == "f4":
            with np.errstate(all="ignore"):
                x = np.float32(float(fr))
            return bool(np.isfinite(x)) and Fraction(float(x)) == fr
        return Fraction(float(fr)) == fr
    except (OverflowError, ValueError):
        return False


def _dec_values(rng, h, w, pat, k, j, region):
    """a frame of exact Fractions at decade 2^k: `pat` says which ingredient is nearly degenerate (relative
    difference 2^-j)."""
    n = h * w
    s = Fraction(2) ** k
    eps = Fraction(1, 2 ** j)
    base = [Fraction(v) for v in gen.distinct_ints(rng, n, hi=60)]
    g = [[base[y * w + x] for x in range(w)] for y in range(h)]
    if pat in ("near_sym_x", "sym_exact"):
        f = 1 if pat == "sym_exact" else 1 + eps
        for y in range(h):
            for x in range((w + 1) // 2, w):
                g[y][x] = g[y][w - 1 - x] * f
    if pat in ("near_sym_y", "sym_exact"):
        f = 1 if pat == "sym_exact" else 1 + eps
        for y in range((h + 1) // 2, h):
            for x in range(w):
                g[y][x] = g[h - 1 - y][x] * f
    if pat == "near_sym_xy":
        for i in range((n + 1) // 2, n):
            y, x = divmod(i, w)
            y2, x2 = divmod(n - 1 - i, w)
            g[y][x] = g[y2][x2] * (1 + eps)
    if pat == "near_uniform":
        b = Fraction(rng.randint(1, 60)) * rng.choice((1, -1))
        d = rng.sample(range(0, max(64, n)), n)
        g = [[b * (1 + d[y * w + x] * eps) for x in range(w)] for y in range(h)]
    if pat == "mixed_range":  # a dynamic range of 2^100 inside one frame, and a few exact zeros
        g = [[v * Fraction(2) ** rng.choice((-50, -50, 0, 50)) if rng.random() < 0.9 else Fraction(0) for v in r]
             for r in g]
    if pat == "near_zero":  # everything 2^-60 below the decade except one pixel
        yy, xx = rng.randrange(h), rng.randrange(w)
        g = [[v if (y, x) == (yy, xx) else v * Fraction(1, 2 ** 60) for x, v in enumerate(r)] for y, r in enumerate(g)]
    if pat == "region_scaled":  # one ingredient at the decade: the content of the region, the rest stays at 1
        y0, y1, x0, x1 = region
        return [g[y][x] * (s if (y0 <= y < y1 and x0 <= x < x1) else 1) for y in range(h) for x in range(w)]
    return [g[y][x] * s for y in range(h) for x in range(w)]


class C19(PropertyCheck):
    pid = "C19"
    title = "layout regions"
    nontrivial_rule = (
        "exhaustive enumeration; a case is non-trivial when the region is a proper sub-window of the "
        "array (rotate), the window clips the region on at least one side or misses it (extract), or the "
        "pixel range is not the whole parent (sub-regions); distinct = distinct (kind, shape, region, "
        "corner / window / pixels)"
    )
    exhaustive_note = {
        "quick": "rotate: every shape <= 5x5, every valid region inside, all four corners; "
                 "x0x1_after_extraction: all of [0,7)^4; region_after_extraction: every shape <= 3x3, every "
                 "region x every window; sub-regions: every region inside every shape <= 3x3 x every pixel "
                 "pair in [-1,4]^2 and every pixels_from_end in [-1,5], Region1D inside length <= 5; "
                 "constructors: all of [-1,3]^4 and [-1,3]^2 (Layout2D scenarios and Layout2D(...) validation are seeded, not exhaustive)",
        "thorough": "rotate: every shape <= 7x7, every valid region, all corners; x0x1: all of [0,9)^4; "
                    "region_after_extraction: every shape <= 4x4, every region x every window; sub-regions: "
                    "every region inside every shape <= 4x4 x pixel pairs in [-2,5]^2; constructors: all of "
                    "[-2,4]^4",
    }
    trusted_extra = [
        "numpy basic slicing and [::-1] flips are modelled as List.take/drop/reverse; checked by "
        "correspondence on every case",
    ]
    modelled_functions = [
        "autoarray/layout/layout_util.py:rotate_array_via_roe_corner_from",
        "autoarray/layout/layout_util.py:rotate_region_via_roe_corner_from",
        "autoarray/layout/layout_util.py:region_after_extraction",
        "autoarray/layout/layout_util.py:x0x1_after_extraction",
        "autoarray/layout/region.py:Region1D.__init__",
        "autoarray/layout/region.py:Region1D.total_pixels",
        "autoarray/layout/region.py:Region1D.slice",
        "autoarray/layout/region.py:Region1D.front_region_from",
        "autoarray/layout/region.py:Region1D.trailing_region_from",
        "autoarray/layout/region.py:Region2D.__init__",
        "autoarray/layout/region.py:Region2D.total_rows",
        "autoarray/layout/region.py:Region2D.total_columns",
        "autoarray/layout/region.py:Region2D.slice",
        "autoarray/layout/region.py:Region2D.serial_x_front_range_from",
        "autoarray/layout/region.py:Region2D.parallel_front_region_from",
        "autoarray/layout/region.py:Region2D.parallel_trailing_region_from",
        "autoarray/layout/region.py:Region2D.parallel_full_region_from",
        "autoarray/layout/region.py:Region2D.serial_front_region_from",
        "autoarray/layout/region.py:Region2D.serial_trailing_region_from",
        "autoarray/layout/region.py:Region2D.serial_towards_roe_full_region_from",
        "autoarray/layout/layout.py:Layout1D.__init__",
        "autoarray/layout/layout.py:Layout1D.extract_overscan_array_1d_from",
        "autoarray/layout/region.py:Region2D.y_slice",
        "autoarray/layout/region.py:Region2D.x_slice",
        "autoarray/layout/layout.py:Layout2D.__init__",
        "autoarray/layout/layout.py:Layout2D.rotated_from_roe_corner",
        "autoarray/layout/layout.py:Layout2D.new_rotated_from",
        "autoarray/layout/layout.py:Layout2D.layout_extracted_from",
        "autoarray/layout/layout.py:Layout2D.original_orientation_from",
        "autoarray/layout/layout.py:Layout2D.extract_parallel_overscan_array_2d_from",
        "autoarray/layout/layout.py:Layout2D.extract_serial_overscan_array_from",
        "autoarray/structures/arrays/uniform_2d.py:AbstractArray2D.original_orientation",
    ]
    # region / layout arithmetic of region.py, layout_util.py, layout.py regenerated from the source on every run by
    # harness/translate_region.py and tied to Model.Impl.* for all inputs (design_notes/TIES_C19reg.md)
    loop_tie_modules = ["RegionArith"]
    assumptions = ["regions, windows and corners as quantified by the property: valid regions inside the "
                   "array, the four corners (1,0),(0,0),(1,1),(0,1)"]

    # ------------------------------------------------------------------ generation
    # -- round-3 hardening: dtype of the arrays, container type of regions / shapes / pixel ranges
    #    (tuple, list, numpy ints, Region2D / Region1D objects), omitted-vs-explicit default arguments,
    #    alternative constructors.  Model and oracle are unaffected.
    def generate(self, tier, rng):
        quick = tier == "quick"
        # -- round-5/6: worlds (decades, ownership, containers / options, configuration); the configuration
        #    histories come first so that one of them starts the process with the non-default value in force
        yield from self._cfg_worlds(rng, 60 if quick else 600)
        yield from self._opt_pair_worlds(rng)
        yield from self._own_worlds(rng, 150 if quick else 1500)
        yield from self._dec_worlds(rng, quick)
        yield from self._ctn_worlds(rng, 150 if quick else 2500)
        yield from self._bigcoord_cases([2 ** 53 - 1, 2 ** 53, 2 ** 53 + 1, 2 ** 62, 2 ** 63 - 1, 2 ** 63, 2 ** 63 + 1,
                                         2 ** 64, 2 ** 64 + 1, 10 ** 30, 2 ** 200 + 1], rng, "huge_coord")
        # -- round-4: histories on reused objects (seed-independent templates, then seeded typed histories)
        yield from _template_histories()
        themes = ("layout", "layout", "layout", "orient", "array", "array", "region", "mixed", "mixed")
        for k in range(1500 if quick else 12000):
            yield _HistoryBuilder(rng, themes[k % len(themes)]).build(rng.randint(4, 12))
        # -- round-4: coordinates at dtype-limit magnitudes and a few frames beyond the usual fast-path
        #    thresholds, always on (pure integer arithmetic / numpy-only oracle: cheap)
        yield from self._bigcoord_cases([b + d for b in (2 ** 15, 2 ** 16, 2 ** 31, 2 ** 32) for d in (-1, 0, 1)],
                                        rng, "big_coord")
        yield from self._large_frame_cases([4097, 65537] if quick else [1025, 4097, 16385, 65537, 262145],
                                           rng, "big_frame")
        for case in self._generate_base(tier, rng):
            r = rng.random()
            yield {**case, "variant": {
                "dt": "f8" if r < 0.5 else "i8" if r < 0.75 else "f4" if r < 0.85 else "list",
                "reg": rng.choice(("tuple", "tuple", "list", "npint", "obj")),
                "shp": rng.choice(("tuple", "list", "npint")),
                "omit_defaults": rng.random() < 0.5,
                "ctor": rng.choice(("a", "b")),
                "lay": rng.choice(LAYS2)}}
        # 1-D layout twin (Layout1D): prescan / overscan validation and overscan extraction
        quick = tier == "quick"
        for n in range(1, 6 if quick else 8):
            for ov in itertools.product(range(-1, n + 2), repeat=2):
                pre = rng.choice([None] + _intervals(n))
                yield {"tag": "layout1d", "kind": "layout1d", "n": n, "values": qlist(gen.distinct_ints(rng, n)),
                       "prescan": None if pre is None else list(pre), "overscan": list(ov),
                       "variant": {"dt": rng.choice(("f8", "i8", "list")), "reg": "tuple", "shp": "tuple",
                                   "omit_defaults": False, "ctor": "a", "lay": rng.choice(LAYS1)}}

    @staticmethod
    def _var(case):
        return case.get("variant") or {}

    def _arr(self, case, h, w, need_ndarray=True):
        fr = [Fraction(v) for v in case["values"]]
        dt = self._var(case).get("dt", "f8")
        lay = self._var(case).get("lay", "C")
        if dt == "i8":
            return _relayout(np.array([int(f) for f in fr], dtype=np.int64).reshape(h, w), lay)
        if dt == "f4":
            return _relayout(np.array([float(f) for f in fr], dtype=np.float32).reshape(h, w), lay)
        if dt == "list" and not need_ndarray:
            flat = [int(f) for f in fr]
            return [flat[y * w:(y + 1) * w] for y in range(h)]
        return _relayout(np.array([float(f) for f in fr]).reshape(h, w), lay)

    def _reg(self, aa, case, r, allow_obj=True, dim=2):
        """a region argument as tuple / list / tuple of numpy ints / Region object (valid regions only)."""
        if r is None:
            return None
        k = self._var(case).get("reg", "tuple")
        if k == "list":
            return [int(v) for v in r]
        if k == "npint":
            return tuple(np.int64(v) for v in r)
        if k == "obj" and allow_obj and (_valid2(r) if dim == 2 else _valid1(r)):
            return aa.Region2D(region=tuple(r)) if dim == 2 else aa.Region1D(region=tuple(r))
        return tuple(int(v) for v in r)

    def _shp(self, case, pair):
        k = self._var(case).get("shp", "tuple")
        if k == "list":
            return [int(pair[0]), int(pair[1])]
        if k == "npint":
            return (np.int64(pair[0]), np.int64(pair[1]))
        return (int(pair[0]), int(pair[1]))

    def _generate_base(self, tier, rng):
        quick = tier == "quick"
        # 1. rotation commutes with slicing: exhaustive
        smax = 5 if quick else 7
        for h in range(1, smax + 1):
            for w in range(1, smax + 1):
                vals = gen.distinct_ints(rng, h * w)
                for reg in _regions(h, w):
                    for c in CORNERS:
                        yield {"tag": "rotate_exh", "kind": "rotate", "h": h, "w": w, "values": qlist(vals),
                               "region": list(reg), "corner": list(c)}
        # regions that are invalid or leave the frame: constructor / rotation must reject or mirror
        for _ in range(300 if quick else 3000):
            h, w = rng.randint(1, 5), rng.randint(1, 5)
            reg = [rng.randint(-1, h + 1), rng.randint(-1, h + 2), rng.randint(-1, w + 1), rng.randint(-1, w + 2)]
            yield {"tag": "rotate_region_any", "kind": "rotate_region", "h": h, "w": w, "region": reg,
                   "corner": list(rng.choice(CORNERS))}
        # 2. 1-D interval clipping, exhaustive (valid and invalid intervals alike)
        n = 7 if quick else 9
        for args in itertools.product(range(n), repeat=4):
            yield {"tag": "x0x1_exh", "kind": "x0x1", "args": list(args)}
        # 3. region after extraction, exhaustive regions x windows
        emax = 3 if quick else 4
        for h in range(1, emax + 1):
            for w in range(1, emax + 1):
                vals = gen.distinct_ints(rng, h * w)
                regs = _regions(h, w)
                for o in regs:
                    for e in regs:
                        yield {"tag": "extract_exh", "kind": "extract", "h": h, "w": w, "values": qlist(vals),
                               "orig": list(o), "window": list(e)}
        for _ in range(400 if quick else 4000):
            h, w = rng.randint(2, 8), rng.randint(2, 8)
            regs = _regions(h, w)
            yield {"tag": "extract_random", "kind": "extract", "h": h, "w": w,
                   "values": qlist(gen.distinct_ints(rng, h * w)), "orig": list(rng.choice(regs)),
                   "window": list(rng.choice(regs))}
        # 4. front / trailing sub-regions
        fmax = 3 if quick else 4
        lo, hi = (-1, 4) if quick else (-2, 5)
        pix = [(a, b) for a in range(lo, hi + 1) for b in range(lo, hi + 1)]
        for h in range(1, fmax + 1):
            for w in range(1, fmax + 1):
                for reg in _regions(h, w):
                    for k in ("parallel_front", "parallel_trailing", "serial_front", "serial_trailing",
                              "serial_towards_roe_full", "serial_x_front_range"):
                        for p in pix:
                            yield {"tag": f"sub_{k}", "kind": "sub", "sub": k, "region": list(reg),
                                   "pixels": list(p), "from_end": None, "shape": [h + 1, w + 2]}
                    for k in ("parallel_front", "serial_front"):
                        for fe in range(lo, hi + 2):
                            yield {"tag": f"sub_{k}_from_end", "kind": "sub", "sub": k, "region": list(reg),
                                   "pixels": None, "from_end": fe, "shape": [h + 1, w + 2]}
                    yield {"tag": "sub_parallel_full", "kind": "sub", "sub": "parallel_full",
                           "region": list(reg), "pixels": None, "from_end": None, "shape": [h + 1, w + 2]}
        for n1 in range(1, 6 if quick else 8):
            for r in _intervals(n1):
                for p in pix:
                    yield {"tag": "sub_front1d", "kind": "sub", "sub": "front1d", "region": list(r),
                           "pixels": list(p), "from_end": None}
                    yield {"tag": "sub_trailing1d", "kind": "sub", "sub": "trailing1d", "region": list(r),
                           "pixels": list(p), "from_end": None}
                for fe in range(lo, hi + 2):
                    yield {"tag": "sub_front1d_from_end", "kind": "sub", "sub": "front1d", "region": list(r),
                           "pixels": None, "from_end": fe}
        # 5. constructors
        lo, hi = (-1, 3) if quick else (-2, 4)
        for r in itertools.product(range(lo, hi + 1), repeat=4):
            yield {"tag": "ctor2d", "kind": "ctor", "dim": 2, "region": list(r)}
        for r in itertools.product(range(lo, hi + 1), repeat=2):
            yield {"tag": "ctor1d", "kind": "ctor", "dim": 1, "region": list(r)}
        # 6. Layout2D / Array2D glue
        for _ in range(250 if quick else 2500):
            h, w = rng.randint(1, 6), rng.randint(1, 7)
            regs = _regions(h, w)
            three = [list(rng.choice(regs)) if rng.random() < 0.8 else None for _ in range(3)]
            if three[0] is None and three[2] is None:
                three[0] = list(rng.choice(regs))
            yield {"tag": "layout_glue", "kind": "layout", "h": h, "w": w,
                   "values": qlist(gen.distinct_ints(rng, h * w)), "regions": three,
                   "corner": list(rng.choice(CORNERS)), "corner2": list(rng.choice(CORNERS)),
                   "window": list(rng.choice(regs)), "store_native": rng.random() < 0.5}
        # layouts whose regions may leave the frame (rotation must reject) and Layout2D(...) validation
        for _ in range(150 if quick else 1500):
            h, w = rng.randint(1, 5), rng.randint(1, 5)
            regs = _regions(h, w)

            def any_region():
                if rng.random() < 0.2:
                    return None
                if rng.random() < 0.5:
                    return list(rng.choice(regs))
                return [rng.randint(-1, h + 1), rng.randint(-1, h + 2), rng.randint(-1, w + 1),
                        rng.randint(-1, w + 2)]

            three = [any_region() for _ in range(3)]
            yield {"tag": "layout_any_region", "kind": "layout", "h": h, "w": w,
                   "values": qlist(gen.distinct_ints(rng, h * w)), "regions": three,
                   "corner": list(rng.choice(CORNERS)), "corner2": list(rng.choice(CORNERS)),
                   "window": list(rng.choice(regs)), "store_native": rng.random() < 0.5}
            yield {"tag": "layout_ctor", "kind": "layout_ctor", "h": h, "w": w, "regions": [any_region() for _ in range(3)],
                   "corner": list(rng.choice(CORNERS))}

    # ------------------------------------------------------------------ round-5/6: world generators
    @staticmethod
    def _world_base(rng, h=None, w=None, tag="world"):
        h = h or rng.randint(1, 6)
        w = w or rng.randint(1, 7)
        regs = _regions(h, w)

        def strip():
            if rng.random() < 0.5:  # overscan-like strips hugging an edge
                k = rng.randint(1, max(1, min(h, w) // 2))
                return list(rng.choice([[h - k, h, 0, w], [0, h, 0, k], [0, h, w - k, w], [0, k, 0, w]]))
            return list(rng.choice(regs))

        return {"tag": tag, "kind": "world", "h": h, "w": w,
                "values": qlist(gen.distinct_ints(rng, h * w)),
                "regions": [strip() if rng.random() < 0.8 else None for _ in range(3)],
                "region": list(rng.choice(regs)), "window": list(rng.choice(regs)),
                "corner": list(rng.choice(CORNERS)), "corner2": list(rng.choice(CORNERS)),
                "pixels": [rng.randint(0, 2), rng.randint(1, 3)],
                "variant": {"dt": "f8", "lay": "C", "shp": "tuple"}, "reg3": ["tuple"] * 4, "opt": {},
                "rounds": [{}]}

    @staticmethod
    def _fit_dtype(case, prefer):
        """the first dtype of `prefer` (then f8) in which every value of every round is exact."""
        muls = [Fraction(r.get("mul", 1)) for r in case["rounds"]]
        vals = [Fraction(v) for v in case["values"]]
        for dt in list(prefer) + ["f8"]:
            if all(_exact_as(v * m, dt) for v in vals for m in muls):
                return dt
        return None

    def _apply_row(self, case, row, rng):
        """fold one row of option values (WORLD_AXES names) into a world case."""
        case["opt"] = {k: row[k] for k in ("a2d_ctor", "a2d_values", "store_native", "skip_mask", "mask_kind",
                                           "origin", "pixel_scales", "ext_ctor", "ext_header", "hdr_opts",
                                           "omit_none", "explicit_defaults", "layout_via") if k in row}
        h, w = case["h"], case["w"]
        if case["opt"].get("mask_kind") == "masked":
            cells = [(y, x) for y in range(h) for x in range(w)]
            case["opt"]["masked"] = [list(c) for c in rng.sample(cells, rng.randint(1, max(1, len(cells) // 2)))]
        if "present" in row:
            regs = _regions(h, w)
            case["regions"] = [(case["regions"][i] or list(rng.choice(regs))) if row["present"] >> i & 1 else None
                               for i in range(3)]
        if "corner" in row:
            case["corner"] = list(CORNERS[row["corner"]])
        if "corner2" in row:
            case["corner2"] = list(CORNERS[row["corner2"]])
        if "reg" in row:
            kinds = ("tuple", "list", "npint", "obj")
            case["reg3"] = [rng.choice(kinds) for _ in range(4)] if row["reg"] == "mixed" else [row["reg"]] * 4
        v = dict(case["variant"])
        for k in ("shp", "lay"):
            if k in row:
                v[k] = row[k]
        case["variant"] = v
        if "dt" in row:
            if row["dt"] == "u1":
                case["values"] = qlist(rng.sample(range(0, 256), h * w))
            v["dt"] = self._fit_dtype(case, [row["dt"]])
        return case

    def _opt_pair_worlds(self, rng):
        """R5-C / R5-F: every pair of values of every two option / container axes occurs together (greedy
        covering array, seed-independent rows; the frame, regions and values are seeded)."""
        if not hasattr(C19, "_pair_rows"):
            C19._pair_rows = _pairwise_rows(WORLD_AXES)
        for row in C19._pair_rows:
            yield self._apply_row(self._world_base(rng, tag="opt_pair"), row, rng)

    def _ctn_worlds(self, rng, n):
        """R5-C: seeded random combinations of the same axes (triples and beyond), half of them near the defaults."""
        for _ in range(n):
            near = rng.random() < 0.5
            row = {k: (vals[0] if near and rng.random() < 0.7 else rng.choice(vals)) for k, vals in WORLD_AXES.items()}
            yield self._apply_row(self._world_base(rng, tag="ctn_world"), row, rng)

    def _own_worlds(self, rng, n):
        """R5-B ownership histories: observe -> scribble over every array / object the API returned or accepted
        -> rebuild the same world from fresh equal inputs (or overwrite the caller's own array in place and pass
        the same object again) -> observe; three rounds."""
        k = 0
        for c in CORNERS:
            for mode in ("nan", "neg2"):
                for reuse in (False, True):
                    case = self._world_base(rng, h=3 + k % 3, w=4 + k % 2, tag="own_world")
                    k += 1
                    case["corner"] = list(c)
                    case["regions"] = [r or [0, 1, 0, 1] for r in case["regions"]]
                    case["reg3"] = ["obj" if k % 2 else "tuple"] * 4
                    case["variant"] = {"dt": "f8", "lay": "F" if k % 3 == 0 else "C", "shp": "tuple"}
                    case["rounds"] = [{"scribble": mode}, {"scribble": mode, "src": "reuse" if reuse else "fresh"},
                                      {"scribble": mode, "src": "reuse" if reuse else "fresh"}]
                    yield case
        for _ in range(n):
            case = self._world_base(rng, tag="own_world")
            row = {k_: (vals[0] if rng.random() < 0.6 else rng.choice(vals)) for k_, vals in WORLD_AXES.items()
                   if k_ not in ("dt", "lay")}
            self._apply_row(case, row, rng)
            same = rng.random() < 0.6  # the same world three times / the world's values change between rounds
            rounds = []
            for i in range(3):
                rounds.append({"scribble": rng.choice(("nan", "neg2", "nan", None)),
                               "src": "fresh" if i == 0 else rng.choice(("fresh", "fresh", "reuse")),
                               "mul": q(Fraction(1) if same or i == 0 else rng.choice((Fraction(1), Fraction(-2), Fraction(-1),
                                                                                          Fraction(4), Fraction(1, 2))))})
            case["rounds"] = rounds
            case["variant"] = {**case["variant"], "lay": rng.choice(LAYS2),
                               "dt": self._fit_dtype(case, [rng.choice(("f8", "f8", "f4", "i8"))])}
            yield case

    def _cfg_worlds(self, rng, n):
        """R5-D: general.structures.native_binned_only is the one configuration value the anchored code reads
        (Array2D.__init__).  It is flipped BETWEEN rounds (fresh objects) and between building and reading the
        same objects (`reread_cfg`); explicit store_native values are the controls.  Rotation / extraction
        results do not depend on it."""
        pats = ([(True, False), (False, True), (None, None)], [(True, None), (False, None), (True, None)],
                [(False, True), (True, False), (False, None)], [(True, True), (None, False), (True, False)])
        for i in range(n):
            case = self._world_base(rng, tag="cfg_world")
            row = {k_: (vals[0] if rng.random() < 0.6 else rng.choice(vals)) for k_, vals in WORLD_AXES.items()
                   if k_ not in ("dt",)}
            self._apply_row(case, row, rng)
            case["rounds"] = [{"cfg": a, "reread_cfg": b, "src": "fresh" if j == 0 else rng.choice(("fresh", "reuse"))}
                              for j, (a, b) in enumerate(pats[i % len(pats)])]
            yield case

    def _dec_worlds(self, rng, quick):
        """R5-A / R5-E decades stream: the frame's values at 2^k (k from the denormals to 2^1000), one ingredient
        nearly degenerate (nearly mirror-symmetric rows / columns / point-symmetric, nearly uniform, nearly zero,
        only the region's content scaled, a 2^100 dynamic range); mask geometry (pixel scales, origin) at
        decades and far from zero.  Flips and slices move values: every comparison is exact."""
        ks = list(DEC_K_QUICK) if quick else list(range(-1070, 1001, 10)) + [-45, 45]
        ks.sort(key=lambda k: (abs(k), k))  # moderate decades first: the first replay found is the most readable
        for k in ks:
            for pat in DEC_PATTERNS:
                for rep in range(1):
                    case = self._world_base(rng, h=rng.randint(2, 6), w=rng.randint(2, 7), tag="dec_world")
                    j = rng.choice((20, 24, 30, 40))
                    kk = k
                    while True:
                        vals = _dec_values(rng, case["h"], case["w"], pat, kk, j, case["region"])
                        if all(_exact_as(v, "f8") for v in vals):
                            break
                        kk = kk + 40 if kk < 0 else kk - 40  # left the doubles: step back towards 1
                    case["values"] = qlist(vals)
                    case["dec"] = {"pat": pat, "k": kk, "j": j}
                    case["tag"] = "dec_world" if abs(kk) <= 60 else "dec_world_extreme"
                    r = rng.random()
                    prefer = ["f4"] if r < 0.3 else ["i8"] if r < 0.4 else []
                    case["variant"] = {"dt": self._fit_dtype(case, prefer), "lay": rng.choice(LAYS2),
                                       "shp": rng.choice(("tuple", "list", "npint"))}
                    k2 = rng.choice((-40, -30, -10, 0, 10, 30, 40))
                    case["opt"] = {"a2d_ctor": rng.choice(("init", "no_mask", "from_a2d_native", "init", "no_mask_slim")),
                                   "a2d_values": rng.choice(("nd", "nd", "list")),
                                   "store_native": rng.random() < 0.5,
                                   "mask_kind": rng.choice(("all_false", "all_false", "masked", "bool_lay")),
                                   "pixel_scales": rng.choice((2.0 ** k2, [2.0 ** k2, 2.0 ** -k2], 1.0)),
                                   "origin": rng.choice((None, [2.0 ** k2 * 3, -2.0 ** abs(k2)], FAR_ORIGIN,
                                                         [1e5, -3e5])),
                                   "ext_ctor": rng.choice(WORLD_AXES["ext_ctor"])}
                    if case["opt"]["mask_kind"] == "masked":
                        cells = [(y, x) for y in range(case["h"]) for x in range(case["w"])]
                        case["opt"]["masked"] = [list(c) for c in rng.sample(cells, rng.randint(1, len(cells) // 2))]
                    yield case

    # ------------------------------------------------------------------ implementation
    def run_impl(self, case):
        aa = load_autoarray()
        from autoarray import exc
        from autoarray.layout import layout_util as lu

        kind = case["kind"]
        if kind == "world":
            return self._run_world(aa, lu, case)
        if kind == "history":
            return self._run_history(aa, lu, case)
        if kind == "large_frame":
            return self._run_large_frame(aa, lu, case)
        if kind == "large_1d":
            return self._run_large_1d(aa, case)

        def reg_out(r):
            return None if r is None else [int(v) for v in r.region]

        try:
            if kind == "rotate":
                h, w = case["h"], case["w"]
                a = self._arr(case, h, w)
                c = tuple(case["corner"])
                reg = self._reg(aa, case, case["region"])
                ra = lu.rotate_array_via_roe_corner_from(array=a, roe_corner=c)
                rr = lu.rotate_region_via_roe_corner_from(region=reg, shape_native=self._shp(case, (h, w)),
                                                          roe_corner=c)
                back = lu.rotate_region_via_roe_corner_from(
                    region=rr if self._var(case).get("reg") == "obj" else rr.region,
                    shape_native=self._shp(case, (h, w)), roe_corner=c)
                r0 = reg if isinstance(reg, aa.Region2D) else aa.Region2D(region=reg)
                return {"rotated_region": reg_out(rr), "rotated_array": _rows(ra),
                        "slice_of_rotated": _rows(ra[rr.slice]),
                        "slice": _rows(a[r0.slice]),
                        "slice_xy": _rows(a[r0.y_slice, r0.x_slice]),
                        "twice_array": _rows(lu.rotate_array_via_roe_corner_from(array=ra, roe_corner=c)),
                        "twice_region": reg_out(back)}
            if kind == "rotate_region":
                rr = lu.rotate_region_via_roe_corner_from(
                    region=self._reg(aa, case, case["region"]), shape_native=self._shp(case, (case["h"], case["w"])),
                    roe_corner=tuple(case["corner"]))
                return reg_out(rr)
            if kind == "x0x1":
                args = case["args"]
                if self._var(case).get("reg") == "npint":
                    args = [np.int64(v) for v in args]
                r = lu.x0x1_after_extraction(*args)
                return None if r[0] is None and r[1] is None else [int(r[0]), int(r[1])]
            if kind == "extract":
                h, w = case["h"], case["w"]
                a = self._arr(case, h, w)
                o, e = self._reg(aa, case, case["orig"]), self._reg(aa, case, case["window"])
                out = lu.region_after_extraction(original_region=o, extraction_region=e)
                win = a[aa.Region2D(region=tuple(case["window"])).slice]
                return {"region": reg_out(out),
                        "content": None if out is None else _rows(win[out.slice])}
            if kind == "sub":
                k = case["sub"]
                px = None if case["pixels"] is None else tuple(case["pixels"])
                if px is not None and self._var(case).get("shp") == "list":
                    px = list(px)
                elif px is not None and self._var(case).get("shp") == "npint":
                    px = tuple(np.int64(v) for v in px)
                fe = case["from_end"]
                if fe is not None and self._var(case).get("shp") == "npint":
                    fe = np.int64(fe)
                omit01 = self._var(case).get("omit_defaults") and case["pixels"] == [0, 1]
                if k in ("front1d", "trailing1d"):
                    r = aa.Region1D(region=self._reg(aa, case, case["region"], allow_obj=False, dim=1))
                    if k == "front1d":
                        out = r.front_region_from(pixels=px, pixels_from_end=fe)
                    else:
                        out = r.trailing_region_from(pixels=px)
                    return reg_out(out)
                r = aa.Region2D(region=self._reg(aa, case, case["region"], allow_obj=False))
                shape = self._shp(case, case["shape"])
                if k == "parallel_front":
                    out = r.parallel_front_region_from(pixels=px, pixels_from_end=fe)
                elif k == "parallel_trailing":
                    out = r.parallel_trailing_region_from() if omit01 else r.parallel_trailing_region_from(pixels=px)
                elif k == "serial_front":
                    out = r.serial_front_region_from(pixels=px, pixels_from_end=fe)
                elif k == "serial_trailing":
                    out = r.serial_trailing_region_from() if omit01 else r.serial_trailing_region_from(pixels=px)
                elif k == "parallel_full":
                    out = r.parallel_full_region_from(shape_2d=shape)
                elif k == "serial_towards_roe_full":
                    out = r.serial_towards_roe_full_region_from(shape_2d=shape) if omit01 else \
                        r.serial_towards_roe_full_region_from(shape_2d=shape, pixels=px)
                elif k == "serial_x_front_range":
                    x = r.serial_x_front_range_from(pixels=px)
                    return [int(x[0]), int(x[1])]
                else:
                    raise ValueError(k)
                return reg_out(out)
            if kind == "ctor":
                if case["dim"] == 1:
                    return reg_out(aa.Region1D(region=self._reg(aa, case, case["region"], allow_obj=False, dim=1)))
                return reg_out(aa.Region2D(region=self._reg(aa, case, case["region"], allow_obj=False)))
            if kind == "layout1d":
                n = case["n"]
                pre = None if case["prescan"] is None else tuple(case["prescan"])
                lay = aa.Layout1D(shape_1d=(n,), prescan=pre, overscan=tuple(case["overscan"]))
                vals = self._arr({**case, "variant": {**self._var(case), "lay": "C"}}, 1, n, need_ndarray=False)
                vals = vals[0] if isinstance(vals, list) else _relayout(vals.reshape(n), self._var(case).get("lay"))
                arr = aa.Array1D.no_mask(values=vals, pixel_scales=1.0)
                return {"prescan": reg_out(lay.prescan), "overscan": reg_out(lay.overscan),
                        "overscan_array": qlist(np.asarray(
                            lay.extract_overscan_array_1d_from(array=arr).native.array).ravel())}
            if kind == "layout":
                return self._run_layout(aa, lu, case, reg_out)
            if kind == "layout_ctor":
                # declared argument types: tuple or Region2D (lists are not converted by Layout2D.__init__)
                po, sp, so = [None if r is None else
                              (aa.Region2D(region=tuple(r)) if self._var(case).get("reg") == "obj" and _valid2(r)
                               else tuple(r)) for r in case["regions"]]
                kw = {} if (self._var(case).get("omit_defaults") and case["corner"] == [1, 0]) else \
                    {"original_roe_corner": tuple(case["corner"])}
                lay = aa.Layout2D(shape_2d=self._shp(case, (case["h"], case["w"])),
                                  parallel_overscan=po, serial_prescan=sp, serial_overscan=so, **kw)
                return {"regions": [reg_out(getattr(lay, n)) for n in
                                    ("parallel_overscan", "serial_prescan", "serial_overscan")],
                        "roe": [int(v) for v in lay.original_roe_corner],
                        "shape": [int(v) for v in lay.shape_2d]}
        except exc.RegionException:
            return {"err": "bad_region"}
        raise ValueError(kind)

    def _run_layout(self, aa, lu, case, reg_out):
        h, w = case["h"], case["w"]
        a = self._arr(case, h, w)
        c, c2 = tuple(case["corner"]), tuple(case["corner2"])
        po, sp, so = [self._reg(aa, case, r) for r in case["regions"]]
        lay = aa.Layout2D.rotated_from_roe_corner(
            roe_corner=c, shape_native=self._shp(case, (h, w)), parallel_overscan=po, serial_prescan=sp,
            serial_overscan=so)
        names = ("parallel_overscan", "serial_prescan", "serial_overscan")
        obs = {"rotated": [reg_out(getattr(lay, n)) for n in names],
               "roe": [int(v) for v in lay.original_roe_corner], "shape": [int(v) for v in lay.shape_2d]}
        lay2 = lay.new_rotated_from(roe_corner=c2)
        obs["rotated2"] = [reg_out(getattr(lay2, n)) for n in names]
        obs["roe2"] = [int(v) for v in lay2.original_roe_corner]
        ext = lay.layout_extracted_from(extraction_region=self._reg(aa, case, case["window"]))
        obs["extracted"] = [reg_out(getattr(ext, n)) for n in names]
        # arrays: the layout lives on the rotated array
        ra = lay.original_orientation_from(array=a)
        obs["orientation_from"] = _rows(ra)
        arr = aa.Array2D.no_mask(values=ra, pixel_scales=1.0)
        obs["parallel_overscan_array"] = None if lay.parallel_overscan is None else _rows(
            lay.extract_parallel_overscan_array_2d_from(array=arr).native.array)
        obs["serial_overscan_array"] = None if lay.serial_overscan is None else _rows(
            lay.extract_serial_overscan_array_from(array=arr).native.array)
        hdr = aa.Header(original_roe_corner=c)
        if self._var(case).get("lay", "C") in ("C", "be", "unaligned"):
            mask = aa.Mask2D.all_false(shape_native=(h, w), pixel_scales=1.0)
        else:  # the mask as an equal-valued bool array of the same memory layout as the values
            mask = aa.Mask2D(mask=_relayout(np.zeros((h, w), dtype=bool), self._var(case).get("lay")),
                             pixel_scales=1.0)
        if self._var(case).get("ctor") == "b" and not case["store_native"]:
            arr2 = aa.Array2D.no_mask(values=self._arr(case, h, w, need_ndarray=False), pixel_scales=1.0,
                                      header=hdr)
        else:
            arr2 = aa.Array2D(values=a, mask=mask, header=hdr, store_native=case["store_native"])
        try:
            oo = np.asarray(arr2.original_orientation)
            obs["original_orientation"] = _rows(oo) if oo.ndim == 2 else {"flat": qlist(oo)}
        except IndexError as e:
            obs["original_orientation"] = {"err": "IndexError"}
        return obs

    # ================================================================== round-5/6: worlds (implementation side)
    @staticmethod
    def _cfg_get():
        from autoconf import conf
        return conf.instance["general"]["structures"]["native_binned_only"]

    @staticmethod
    def _cfg_set(v):
        from autoconf import conf
        conf.instance["general"]["structures"]["native_binned_only"] = v

    _sig_cache = {}

    @classmethod
    def _call(cls, f, explicit_defaults, **kw):
        """f(**kw); with `explicit_defaults` every optional parameter the signature declares and the caller does
        not give is passed explicitly with its declared default (omitted vs explicit default must not matter)."""
        if explicit_defaults:
            import inspect
            key = getattr(f, "__func__", f)
            params = cls._sig_cache.get(key)
            if params is None:
                try:
                    params = [(n, p.default) for n, p in inspect.signature(f).parameters.items()
                              if p.default is not inspect.Parameter.empty
                              and p.kind in (p.POSITIONAL_OR_KEYWORD, p.KEYWORD_ONLY)]
                except (TypeError, ValueError):
                    params = []
                cls._sig_cache[key] = params
            for n, d in params:
                kw.setdefault(n, d)
        return f(**kw)

    def _run_world(self, aa, lu, case):
        from autoarray import exc
        cfg0 = self._cfg_get()
        out, prev = [], None
        try:
            for rnd in case.get("rounds") or [{}]:
                if rnd.get("cfg") is not None:
                    self._cfg_set(bool(rnd["cfg"]))
                o, prev = self._world_round(aa, lu, case, rnd, prev)
                out.append(o)
        except exc.RegionException:
            return {"err": "bad_region"}
        finally:
            self._cfg_set(cfg0)
        return out

    @staticmethod
    def _scribble(mode, arrays, regions, layouts, headers, aa):
        """overwrite, in place, what the previous calls returned or accepted (a caller may do that with its own
        objects; nothing a later call on fresh inputs returns may depend on it)."""
        for x in arrays:
            try:
                if not isinstance(x, np.ndarray):
                    x = x.array  # an Array1D / Array2D: its stored buffer
                if not isinstance(x, np.ndarray) or x.size == 0:
                    continue
                kind = x.dtype.kind
                if kind == "b":
                    x[...] = ~x
                elif mode == "nan":
                    x[...] = np.nan if kind == "f" else 77
                elif kind == "u":
                    x += 1
                else:
                    x *= -2
            except (ValueError, TypeError, AttributeError):
                pass  # read-only buffer
        for r in regions:
            if r is not None and hasattr(r, "region"):
                r.region = (0, 1) if isinstance(r, aa.Region1D) else (0, 1, 0, 1)
        for l in layouts:
            if l is not None:
                l.parallel_overscan, l.serial_prescan, l.serial_overscan = None, aa.Region2D(region=(0, 1, 0, 1)), None
                l.original_roe_corner = (1, 0) if tuple(l.original_roe_corner) != (1, 0) else (0, 1)
                l.shape_2d = (1, 1)
        for hd in headers:
            hd.original_roe_corner = (1, 0) if tuple(hd.original_roe_corner) != (1, 0) else (0, 1)

    def _world_round(self, aa, lu, case, rnd, prev):
        from autoarray import exc
        h, w = case["h"], case["w"]
        opt = case.get("opt") or {}
        var = self._var(case)
        dt = var.get("dt") or "f8"
        lay = var.get("lay", "C")
        xd = bool(opt.get("explicit_defaults"))
        call = self._call
        mul = Fraction(rnd.get("mul", 1))
        fr = [Fraction(v) * mul for v in case["values"]]
        conv = int if dt in INT_RANGE else float
        plain = np.array([conv(f) for f in fr], dtype=NP_DT[dt]).reshape(h, w)
        if rnd.get("src") == "reuse" and prev is not None and prev["a"].flags.writeable:
            a = prev["a"]  # the caller's own array object, overwritten in place with this round's values
            a[...] = plain
        else:
            a = _relayout(plain, lay)
        ret_arrays, ret_regions, ret_layouts = [], [], []
        acc_arrays, acc_regions, acc_headers = [a], [], []

        def keep(x, where=ret_arrays):
            where.append(x)
            return x

        def reg_out(r):
            return None if r is None else [int(v) for v in r.region]

        kinds = case.get("reg3") or ["tuple"] * 4

        def reg_arg(r, kind, tuple_only=False):
            if r is None:
                return None
            if kind == "obj":
                return keep(aa.Region2D(region=tuple(int(v) for v in r)), acc_regions)
            if kind == "list" and not tuple_only:
                return [int(v) for v in r]
            if kind == "npint":
                return tuple(np.int64(v) for v in r)
            return tuple(int(v) for v in r)

        shp = self._shp(case, (h, w))
        c, c2 = tuple(case["corner"]), tuple(case["corner2"])
        R0, win = case["region"], case["window"]
        obs = {}

        # -- (a) array / region rotation on the bare functions
        reg = reg_arg(R0, kinds[3])
        ra = keep(lu.rotate_array_via_roe_corner_from(array=a, roe_corner=c))
        rr = keep(lu.rotate_region_via_roe_corner_from(region=reg, shape_native=shp, roe_corner=c), ret_regions)
        back = keep(lu.rotate_region_via_roe_corner_from(region=rr if kinds[3] == "obj" else rr.region,
                                                         shape_native=shp, roe_corner=c), ret_regions)
        r0 = aa.Region2D(region=tuple(R0))
        ta = keep(lu.rotate_array_via_roe_corner_from(array=ra, roe_corner=c))
        obs["rotate"] = {"rotated_region": reg_out(rr), "rotated_array": _rows(ra),
                         "slice_of_rotated": _rows(keep(ra[rr.slice])), "slice": _rows(keep(a[r0.slice])),
                         "slice_xy": _rows(a[r0.y_slice, r0.x_slice]), "twice_array": _rows(ta),
                         "twice_region": reg_out(back)}

        # -- (b) region after extraction and what it addresses inside the window
        ext_r = keep(lu.region_after_extraction(original_region=reg_arg(R0, kinds[3]),
                                                extraction_region=reg_arg(win, kinds[0])), ret_regions)
        win_arr = a[aa.Region2D(region=tuple(win)).slice]
        obs["extract"] = {"region": reg_out(ext_r), "content": None if ext_r is None else _rows(win_arr[ext_r.slice])}

        # -- (c) front / trailing sub-regions of R0
        px = tuple(case["pixels"])
        if var.get("shp") == "list":
            px = list(px)
        elif var.get("shp") == "npint":
            px = tuple(np.int64(v) for v in px)

        def sub(f):
            try:
                return reg_out(keep(call(f, xd, pixels=px), ret_regions))
            except exc.RegionException:
                return dict(BAD)

        rs = aa.Region2D(region=tuple(R0))
        obs["sub"] = {"pfront": sub(rs.parallel_front_region_from), "sfront": sub(rs.serial_front_region_from),
                      "ptrail": sub(rs.parallel_trailing_region_from), "strail": sub(rs.serial_trailing_region_from)}

        # -- (d) the Layout2D scenario
        names = NAMES3
        regs = [reg_arg(r, kinds[i], tuple_only=opt.get("layout_via") == "ctor_then_rot")
                for i, r in enumerate(case["regions"])]
        kw = {n: r for n, r in zip(names, regs) if not (r is None and opt.get("omit_none"))}
        if opt.get("layout_via") == "ctor_then_rot":
            l0 = keep(call(aa.Layout2D, xd, shape_2d=shp, **kw), ret_layouts)
            lay_ = l0.new_rotated_from(roe_corner=c)
        else:
            lay_ = call(aa.Layout2D.rotated_from_roe_corner, xd, roe_corner=c, shape_native=shp, **kw)
        keep(lay_, ret_layouts)
        lobs = {"rotated": [reg_out(getattr(lay_, n)) for n in names],
                "roe": [int(v) for v in lay_.original_roe_corner], "shape": [int(v) for v in lay_.shape_2d]}
        lay2 = keep(lay_.new_rotated_from(roe_corner=c2), ret_layouts)
        lobs["rotated2"] = [reg_out(getattr(lay2, n)) for n in names]
        lobs["roe2"] = [int(v) for v in lay2.original_roe_corner]
        ext = keep(lay_.layout_extracted_from(extraction_region=reg_arg(win, kinds[0])), ret_layouts)
        lobs["extracted"] = [reg_out(getattr(ext, n)) for n in names]
        for l in (lay_, lay2, ext):
            ret_regions.extend(getattr(l, n) for n in names)
        lo = keep(lay_.original_orientation_from(array=a))
        lobs["orientation_from"] = _rows(lo)

        ps = opt.get("pixel_scales", 1.0)
        ps = tuple(ps) if isinstance(ps, list) else ps
        okw = {} if opt.get("origin") is None else {"origin": tuple(opt["origin"])}
        hdr = keep(aa.Header(original_roe_corner=c, **HDR_OPTS[opt.get("hdr_opts", 0)]), acc_headers)

        def mask(masked=()):
            mk = opt.get("mask_kind", "all_false")
            base = np.zeros((h, w), dtype=bool)
            for y, x in masked:
                base[y, x] = True
            if mk == "all_false" and not masked:
                return call(aa.Mask2D.all_false, xd, shape_native=(h, w), pixel_scales=ps, **okw)
            if mk == "list":
                return call(aa.Mask2D, xd, mask=base.tolist(), pixel_scales=ps, **okw)
            if mk == "from_mask":  # a mask built from a mask, origin given as exactly (0.0, 0.0) unless it is an option
                m0 = call(aa.Mask2D, xd, mask=base, pixel_scales=ps, **okw)
                return call(aa.Mask2D, xd, mask=m0, pixel_scales=ps, **(okw or {"origin": (0.0, 0.0)}))
            if mk == "inverted":
                return call(aa.Mask2D, xd, mask=keep(~base, acc_arrays), pixel_scales=ps, invert=True, **okw)
            return call(aa.Mask2D, xd, mask=keep(_relayout(base, lay), acc_arrays), pixel_scales=ps, **okw)

        def a2d(values, ctor, masked=(), header=None, store_native=False, skip_mask=None, as_list=False):
            """an Array2D holding `values` (a native ndarray) built the way the options say."""
            vals = values.tolist() if as_list else values
            ikw = {} if skip_mask is None or (skip_mask and masked) else {"skip_mask": skip_mask}
            if ctor == "no_mask" and not masked:
                return call(aa.Array2D.no_mask, xd, values=vals, pixel_scales=ps, header=header, **okw)
            if ctor == "no_mask_slim" and not masked:
                flat = [v for r in vals for v in r] if as_list else values.reshape(-1)
                return call(aa.Array2D.no_mask, xd, values=flat, shape_native=shp, pixel_scales=ps, header=header,
                            **okw)
            if ctor in ("from_a2d_slim", "from_a2d_native"):
                inner = call(aa.Array2D, xd, values=vals, mask=mask(masked), store_native=ctor == "from_a2d_native")
                return call(aa.Array2D, xd, values=inner, mask=mask(masked), header=header, store_native=store_native,
                            **ikw)
            if ctor == "apply_mask":
                return call(aa.Array2D.no_mask, xd, values=vals, pixel_scales=ps, header=header,
                            **okw).apply_mask(mask=mask(masked))
            if ctor in ("native_of", "slim_of"):
                base = call(aa.Array2D, xd, values=vals, mask=mask(masked), header=header,
                            store_native=ctor == "slim_of", **ikw)
                return base.native if ctor == "native_of" else base.slim
            return call(aa.Array2D, xd, values=vals, mask=mask(masked), header=header, store_native=store_native,
                        **ikw)

        # the layout lives on the rotated array
        ector = {"no_mask": "no_mask", "init_slim": "init", "init_native": "init", "native_of": "native_of"}[
            opt.get("ext_ctor", "no_mask")]
        arr = keep(a2d(lo, ector, header=None if opt.get("ext_header") is None else hdr,
                       store_native=opt.get("ext_ctor") == "init_native"), acc_arrays)
        po = so = None
        if lay_.parallel_overscan is not None:
            po = keep(lay_.extract_parallel_overscan_array_2d_from(array=arr))
        if lay_.serial_overscan is not None:
            so = keep(lay_.extract_serial_overscan_array_from(array=arr))
        lobs["parallel_overscan_array"] = None if po is None else _rows(po.native.array)
        lobs["serial_overscan_array"] = None if so is None else _rows(so.native.array)
        masked = [tuple(p) for p in opt.get("masked", ())] if opt.get("mask_kind") == "masked" else ()
        arr2 = keep(a2d(a, opt.get("a2d_ctor", "init"), masked=masked, header=hdr,
                        store_native=opt.get("store_native", False), skip_mask=opt.get("skip_mask"),
                        as_list=opt.get("a2d_values") == "list"), acc_arrays)
        oo = keep(arr2.original_orientation)
        lobs["original_orientation"] = _rows(np.asarray(oo))
        obs["layout"] = lobs

        # -- (e) the 1-D twin on the first row
        l1 = call(aa.Layout1D, xd, shape_1d=(w,), overscan=(int(win[2]), int(win[3])))
        arr1 = keep(call(aa.Array1D.no_mask, xd, values=a[0], pixel_scales=1.0), acc_arrays)
        o1 = keep(l1.extract_overscan_array_1d_from(array=arr1))
        ret_regions.append(l1.overscan)
        obs["l1d"] = {"overscan": reg_out(l1.overscan), "overscan_array": qlist(np.asarray(o1.native.array).ravel())}

        if rnd.get("reread_cfg") is not None:  # flip the configuration, then read the SAME objects again
            self._cfg_set(bool(rnd["reread_cfg"]))
            obs["reread"] = {
                "original_orientation": _rows(np.asarray(keep(arr2.original_orientation))),
                "parallel_overscan_array": None if po is None else _rows(
                    keep(lay_.extract_parallel_overscan_array_2d_from(array=arr)).native.array),
                "serial_overscan_array": None if so is None else _rows(
                    keep(lay_.extract_serial_overscan_array_from(array=arr)).native.array)}
        obs["intact"] = bool(a.shape == plain.shape and np.array_equal(a, plain))
        if rnd.get("scribble"):
            self._scribble(rnd["scribble"], ret_arrays + acc_arrays, ret_regions + acc_regions, ret_layouts,
                           acc_headers, aa)
        return obs, {"a": a}

    # ------------------------------------------------------------------ model
    def model_requests(self, case, impl_obs):
        kind = case["kind"]
        if case.get("large"):
            return []  # judged by the vectorised oracle alone
        if kind == "world":
            return self._world_requests(case)
        if kind == "history":
            arrays = [[a["values"][y * a["w"]:(y + 1) * a["w"]] for y in range(a["h"])] for a in case["arrays"]]
            return [{"op": "c19.history", "arrays": arrays, "steps": case["steps"]}]
        if kind == "rotate":
            h, w = case["h"], case["w"]
            rows = [case["values"][y * w:(y + 1) * w] for y in range(h)]
            return [{"op": "c19.rotate_slice", "rows": rows, "region": case["region"], "corner": case["corner"]}]
        if kind == "rotate_region":
            return [{"op": "c19.region_new", "dim": 2, "region": case["region"]},
                    {"op": "c19.rotate_region", "region": case["region"], "shape": [case["h"], case["w"]],
                     "corner": case["corner"]}]
        if kind == "x0x1":
            return [{"op": "c19.x0x1", "args": case["args"]}]
        if kind == "extract":
            h, w = case["h"], case["w"]
            rows = [case["values"][y * w:(y + 1) * w] for y in range(h)]
            return [{"op": "c19.extract_slice", "rows": rows, "orig": case["orig"], "window": case["window"]}]
        if kind == "sub":
            r = {"op": "c19.sub_region", "kind": case["sub"], "region": case["region"]}
            if case["pixels"] is not None:
                r["pixels"] = case["pixels"]
            if case["from_end"] is not None:
                r["from_end"] = case["from_end"]
            if "shape" in case:
                r["shape"] = case["shape"]
            return [r]
        if kind == "ctor":
            return [{"op": "c19.region_new", "dim": case["dim"], "region": case["region"]}]
        if kind == "layout1d":
            reqs = [{"op": "c19.region_new", "dim": 1, "region": case["overscan"]},
                    {"op": "c19.slice", "dim": 1, "region": case["overscan"], "values": case["values"]}]
            if case["prescan"] is not None:
                reqs.append({"op": "c19.region_new", "dim": 1, "region": case["prescan"]})
            return reqs
        if kind == "layout":
            h, w = case["h"], case["w"]
            rows = [case["values"][y * w:(y + 1) * w] for y in range(h)]
            return [{"op": "c19.layout", "rows": rows, "regions": case["regions"], "corner": case["corner"],
                     "corner2": case["corner2"], "window": case["window"]}]
        if kind == "layout_ctor":
            return [{"op": "c19.layout_new", "shape": [case["h"], case["w"]], "corner": case["corner"],
                     "regions": case["regions"]}]
        raise ValueError(kind)

    @staticmethod
    def _world_rows(case, rnd, zero=()):
        h, w = case["h"], case["w"]
        mul = Fraction(rnd.get("mul", 1))
        vals = [q(Fraction(v) * mul) for v in case["values"]]
        rows = [vals[y * w:(y + 1) * w] for y in range(h)]
        for y, x in zero:
            rows[y][x] = "0"
        return rows

    @staticmethod
    def _world_masked(case):
        opt = case.get("opt") or {}
        return [tuple(p) for p in opt.get("masked", ())] if opt.get("mask_kind") == "masked" else []

    _WORLD_SUBS = (("pfront", "parallel_front"), ("sfront", "serial_front"), ("ptrail", "parallel_trailing"),
                   ("strail", "serial_trailing"))

    def _world_requests(self, case):
        """per round: the existing single-purpose ops on the round's values (the model has no state)."""
        reqs = []
        masked = self._world_masked(case)
        win = case["window"]
        for rnd in case.get("rounds") or [{}]:
            rows = self._world_rows(case, rnd)
            reqs.append({"op": "c19.layout", "rows": rows, "regions": case["regions"], "corner": case["corner"],
                         "corner2": case["corner2"], "window": win})
            reqs.append({"op": "c19.rotate_slice", "rows": rows, "region": case["region"], "corner": case["corner"]})
            reqs.append({"op": "c19.extract_slice", "rows": rows, "orig": case["region"], "window": win})
            for _, k in self._WORLD_SUBS:
                reqs.append({"op": "c19.sub_region", "kind": k, "region": case["region"], "pixels": case["pixels"]})
            reqs.append({"op": "c19.region_new", "dim": 1, "region": [win[2], win[3]]})
            reqs.append({"op": "c19.slice", "dim": 1, "region": [win[2], win[3]], "values": rows[0]})
            # Array2D.original_orientation of a MASKED array: the native array has zeros at the masked pixels
            reqs.append({"op": "c19.rotate_array", "rows": self._world_rows(case, rnd, masked),
                         "corner": case["corner"]})
        return reqs

    _WORLD_NREQ = 10

    def _world_model_obs(self, case, responses):
        out = []
        n = self._WORLD_NREQ
        for i, rnd in enumerate(case.get("rounds") or [{}]):
            rs = responses[i * n:(i + 1) * n]

            def val(r):
                return r["ok"] if "ok" in r else {"err": r["err"]}

            for r in (rs[0], rs[1], rs[2], rs[7], rs[8], rs[9]):
                if "err" in r:
                    return {"err": r["err"]}
            lobs = dict(rs[0]["ok"])
            lobs["original_orientation"] = rs[9]["ok"]
            o = {"layout": lobs, "rotate": {**rs[1]["ok"], "slice_xy": rs[1]["ok"]["slice"]}, "extract": rs[2]["ok"],
                 "sub": {name: val(rs[3 + j]) for j, (name, _) in enumerate(self._WORLD_SUBS)},
                 "l1d": {"overscan": rs[7]["ok"], "overscan_array": rs[8]["ok"]}, "intact": True}
            if rnd.get("reread_cfg") is not None:
                o["reread"] = {k: lobs[k] for k in ("original_orientation", "parallel_overscan_array",
                                                    "serial_overscan_array")}
            out.append(o)
        return out

    def model_obs(self, case, responses):
        kind = case["kind"]
        if kind == "world":
            return self._world_model_obs(case, responses)
        if kind == "rotate_region":
            # `rotate_region_via_roe_corner_from` takes a tuple: only the rotated tuple is validated
            r = responses[1]
            return r["ok"] if "ok" in r else {"err": r["err"]}
        if kind == "layout1d":
            for r in responses:
                if "err" in r:
                    return {"err": r["err"]}
            return {"prescan": responses[2]["ok"] if len(responses) > 2 else None,
                    "overscan": responses[0]["ok"], "overscan_array": responses[1]["ok"]}
        r = responses[0]
        if kind == "history" and "ok" in r:
            return list(r["ok"]) + [{"intact": True}]
        if kind == "rotate" and "ok" in r:
            return {**r["ok"], "slice_xy": r["ok"]["slice"]}
        return r["ok"] if "ok" in r else {"err": r["err"]}

    def compare(self, case, impl_obs, model_obs, cmp):
        if isinstance(impl_obs, dict) and "err" in impl_obs:
            impl_obs = {"err": impl_obs["err"]}
        return cmp.diff(impl_obs, model_obs)

    # ------------------------------------------------------------------ oracle
    def oracle(self, case, obs):
        kind = case["kind"]
        return getattr(self, "_oracle_" + kind)(case, obs)

    @staticmethod
    def _rot_region(reg, h, w, corner):
        y0, y1, x0, x1 = reg
        corner = tuple(corner)
        if corner in ((0, 0), (0, 1)):
            y0, y1 = h - y1, h - y0
        if corner in ((1, 1), (0, 1)):
            x0, x1 = w - x1, w - x0
        return [y0, y1, x0, x1]

    def _oracle_rotate(self, case, obs):
        if "err" in obs:
            return False, f"valid region inside the array was rejected / raised: {obs}"
        h, w = case["h"], case["w"]
        rows = [case["values"][y * w:(y + 1) * w] for y in range(h)]
        rows = [[q(Fraction(v)) for v in r] for r in rows]
        c = case["corner"]
        if obs["rotated_array"] != _flip(rows, c):
            return False, f"rotated array is not the flip for corner {c}"
        want = _flip(_sl(rows, case["region"]), c)
        if obs["slice_of_rotated"] != want:
            return False, (f"corner {c}: rotated region {obs['rotated_region']} slices {obs['slice_of_rotated']} "
                           f"from the rotated array, rotated content of the original region is {want}")
        if obs["slice"] != _sl(rows, case["region"]):
            return False, "Region2D.slice does not address rows y0:y1, columns x0:x1"
        if obs["slice_xy"] != obs["slice"]:
            return False, "Region2D.y_slice / x_slice disagree with Region2D.slice"
        if obs["twice_array"] != rows:
            return False, "rotating the array twice does not restore it"
        if obs["twice_region"] != case["region"]:
            return False, "rotating the region twice does not restore it"
        return True, ""

    def _oracle_rotate_region(self, case, obs):
        reg = case["region"]
        h, w = case["h"], case["w"]
        inside = _valid2(reg) and reg[1] <= h and reg[3] <= w
        if inside:
            if obs != self._rot_region(reg, h, w, case["corner"]):
                return False, f"rotated region {obs} != reflected corners"
        return True, ""

    def _oracle_x0x1(self, case, obs):
        x0o, x1o, x0e, x1e = case["args"]
        if x0o >= x1o or x0e >= x1e:
            return True, ""  # invalid intervals are outside the statement
        lo, hi = max(x0o, x0e), min(x1o, x1e)
        want = [lo - x0e, hi - x0e] if lo < hi else None
        if obs != want:
            return False, f"x0x1_after_extraction{tuple(case['args'])} = {obs}, overlap in window coordinates is {want}"
        return True, ""

    def _oracle_extract(self, case, obs):
        if "err" in obs:
            return False, f"raised {obs}"
        h, w = case["h"], case["w"]
        rows = [[q(Fraction(v)) for v in case["values"][y * w:(y + 1) * w]] for y in range(h)]
        o, e = case["orig"], case["window"]
        ov = [max(o[0], e[0]), min(o[1], e[1]), max(o[2], e[2]), min(o[3], e[3])]
        if ov[0] >= ov[1] or ov[2] >= ov[3]:
            if obs["region"] is not None:
                return False, f"region {o} and window {e} do not overlap but a region {obs['region']} is returned"
            return True, ""
        want = [ov[0] - e[0], ov[1] - e[0], ov[2] - e[2], ov[3] - e[2]]
        if obs["region"] != want:
            return False, f"region after extraction {obs['region']} != overlap in window coordinates {want}"
        if obs["content"] != _sl(rows, ov):
            return False, "the returned region does not address the overlap inside the extracted window"
        return True, ""

    def _oracle_sub(self, case, obs):
        k = case["sub"]
        reg = case["region"]
        px, fe = case["pixels"], case["from_end"]
        if k in ("front1d", "trailing1d"):
            x0, x1 = reg
            if fe is not None:
                px = [(x1 - x0) - fe, x1 - x0]
            base = x0 if k == "front1d" else x1
            want = [base + px[0], base + px[1]]
            ok = _valid1(want)
        else:
            y0, y1, x0, x1 = reg
            sh = case["shape"]
            if k == "parallel_front":
                if fe is not None:
                    px = [(y1 - y0) - fe, y1 - y0]
                want = [y0 + px[0], y0 + px[1], x0, x1]
            elif k == "parallel_trailing":
                want = [y1 + px[0], y1 + px[1], x0, x1]
            elif k == "serial_front":
                if fe is not None:
                    px = [(x1 - x0) - fe, x1 - x0]
                want = [y0, y1, x0 + px[0], x0 + px[1]]
            elif k == "serial_trailing":
                want = [y0, y1, x1 + px[0], x1 + px[1]]
            elif k == "parallel_full":
                want = [y0, y1, 0, sh[1]]
            elif k == "serial_towards_roe_full":
                want = [0, sh[0], x0 + px[0], x0 + px[1]]
            elif k == "serial_x_front_range":
                if obs != [x0 + px[0], x0 + px[1]]:
                    return False, f"serial_x_front_range_from {obs} != {[x0 + px[0], x0 + px[1]]}"
                return True, ""
            ok = _valid2(want)
        if ok:
            if obs != want:
                return False, f"{k}(region={reg}, pixels={case['pixels']}, from_end={fe}) = {obs}, expected {want}"
        else:
            if obs != {"err": "bad_region"}:
                return False, f"{k}: invalid region {want} (negative or empty extent) was not rejected: {obs}"
        return True, ""

    def _oracle_ctor(self, case, obs):
        r = case["region"]
        ok = _valid1(r) if case["dim"] == 1 else _valid2(r)
        if ok and obs != r:
            return False, f"valid region {r} not accepted as is: {obs}"
        if not ok and obs != {"err": "bad_region"}:
            return False, f"invalid region {r} (negative or empty extent) was not rejected"
        return True, ""

    def _oracle_layout1d(self, case, obs):
        ok = _valid1(case["overscan"]) and (case["prescan"] is None or _valid1(case["prescan"]))
        if not ok:
            if obs != {"err": "bad_region"}:
                return False, f"Layout1D accepted an invalid region: {case['prescan']}, {case['overscan']}"
            return True, ""
        if "err" in obs:
            return False, f"Layout1D with valid regions raised {obs}"
        if obs["overscan"] != case["overscan"] or obs["prescan"] != case["prescan"]:
            return False, "Layout1D changed its regions"
        x0, x1 = case["overscan"]
        if obs["overscan_array"] != [q(Fraction(v)) for v in case["values"]][x0:x1]:
            return False, "extract_overscan_array_1d_from is not array[x0:x1]"
        return True, ""

    def _oracle_layout_ctor(self, case, obs):
        ok = all(r is None or _valid2(r) for r in case["regions"])
        if ok:
            want = {"regions": case["regions"], "roe": case["corner"], "shape": [case["h"], case["w"]]}
            if obs != want:
                return False, f"Layout2D(...) with valid regions = {obs}, expected {want}"
        elif obs != {"err": "bad_region"}:
            return False, f"Layout2D(...) accepted an invalid region (negative or empty extent): {case['regions']}"
        return True, ""

    def _oracle_layout(self, case, obs):
        h, w = case["h"], case["w"]
        if not all(r is None or (_valid2(r) and r[1] <= h and r[3] <= w) for r in case["regions"]):
            return True, ""  # a region leaves the frame: outside the statement (the model mirrors the code)
        if "err" in obs:
            return False, f"raised {obs}"
        rows = [[q(Fraction(v)) for v in case["values"][y * w:(y + 1) * w]] for y in range(h)]
        c, c2 = case["corner"], case["corner2"]
        rot = [None if r is None else self._rot_region(r, h, w, c) for r in case["regions"]]
        if obs["rotated"] != rot:
            return False, f"Layout2D.rotated_from_roe_corner regions {obs['rotated']} != {rot}"
        if obs["roe"] != c or obs["shape"] != [h, w] or obs["roe2"] != c2:
            return False, "layout lost its roe corner / shape"
        rot2 = [None if r is None else self._rot_region(r, h, w, c2) for r in rot]
        if obs["rotated2"] != rot2:
            return False, f"Layout2D.new_rotated_from regions {obs['rotated2']} != {rot2}"
        e = case["window"]
        ext = []
        for r in rot:
            if r is None:
                ext.append(None)
                continue
            ov = [max(r[0], e[0]), min(r[1], e[1]), max(r[2], e[2]), min(r[3], e[3])]
            ext.append(None if ov[0] >= ov[1] or ov[2] >= ov[3] else
                       [ov[0] - e[0], ov[1] - e[0], ov[2] - e[2], ov[3] - e[2]])
        if obs["extracted"] != ext:
            return False, f"Layout2D.layout_extracted_from regions {obs['extracted']} != {ext}"
        ra = _flip(rows, c)
        if obs["orientation_from"] != ra:
            return False, "Layout2D.original_orientation_from is not the flip for the layout's corner"
        # the rotated regions address, in the rotated array, the rotated content of the original regions
        for key, idx in (("parallel_overscan_array", 0), ("serial_overscan_array", 2)):
            if case["regions"][idx] is None:
                continue
            want = _flip(_sl(rows, case["regions"][idx]), c)
            if obs[key] != want:
                return False, f"{key}: extracted {obs[key]} != rotated content of the original region {want}"
        if obs["original_orientation"] != ra:
            return False, (f"Array2D.original_orientation (store_native={case['store_native']}, corner {c}) "
                           f"= {obs['original_orientation']}, expected the flipped native array")
        return True, ""

    def _oracle_world(self, case, obs):
        """every round, restated independently: a FRESH world with the round's values (flips by list reversal,
        reflection arithmetic, overlap by max / min, the closed sub-region arithmetic); nothing may depend on the
        earlier rounds, on what the caller did to returned / accepted objects, on the configuration, or on how the
        equal-valued inputs were spelled."""
        if isinstance(obs, dict):
            return False, f"the world raised: {obs}"
        rounds = case.get("rounds") or [{}]
        if len(obs) != len(rounds):
            return False, "world observation has the wrong number of rounds"
        h, w = case["h"], case["w"]
        masked = self._world_masked(case)
        win, R0, c = case["window"], case["region"], case["corner"]
        for i, (rnd, o) in enumerate(zip(rounds, obs)):
            pre = f"round {i} {json.dumps(rnd)}: "
            vals = [x for r in self._world_rows(case, rnd) for x in r]
            rows = [vals[y * w:(y + 1) * w] for y in range(h)]
            lo = dict(o["layout"])
            want_oo = _flip(self._world_rows(case, rnd, masked), c)
            if lo["original_orientation"] != want_oo:
                return False, (pre + f"Array2D.original_orientation (corner {c}, options {json.dumps(case.get('opt'))}) "
                               f"= {str(lo['original_orientation'])[:300]}, expected the flipped native array "
                               f"{str(want_oo)[:300]}")
            lo["original_orientation"] = _flip(rows, c)
            for sub_case, sub_obs, f in (
                    ({"h": h, "w": w, "values": vals, "regions": case["regions"], "corner": c,
                      "corner2": case["corner2"], "window": win, "store_native": None}, lo, self._oracle_layout),
                    ({"h": h, "w": w, "values": vals, "region": R0, "corner": c}, o["rotate"], self._oracle_rotate),
                    ({"h": h, "w": w, "values": vals, "orig": R0, "window": win}, o["extract"], self._oracle_extract)):
                ok, d = f(sub_case, sub_obs)
                if not ok:
                    return False, pre + d
            for name, k in self._WORLD_SUBS:
                ok, d = self._oracle_sub({"sub": k, "region": R0, "pixels": case["pixels"], "from_end": None,
                                          "shape": [h, w]}, o["sub"][name])
                if not ok:
                    return False, pre + d
            if o["l1d"] != {"overscan": [win[2], win[3]], "overscan_array": rows[0][win[2]:win[3]]}:
                return False, pre + f"Layout1D overscan extraction {o['l1d']} is not row[x0:x1]"
            if "reread" in o:
                for k, v in o["reread"].items():
                    if v != (want_oo if k == "original_orientation" else lo[k]):
                        return False, (pre + f"{k} read again from the same objects after the configuration changed to "
                                       f"native_binned_only={rnd.get('reread_cfg')} differs")
            if o.get("intact") is not True:
                return False, pre + "the caller's array was modified by the library"
        return True, ""

    # ================================================================== round-4: histories (implementation side)
    @staticmethod
    def _sweep(obj):
        """decoy: read every public attribute / property of an object (methods are not called)."""
        for n in dir(obj):
            if n.startswith("_"):
                continue
            try:
                getattr(obj, n)
            except Exception:
                pass

    def _run_history(self, aa, lu, case):
        import copy as _copy
        from autoarray import exc

        arrays = case["arrays"]

        def build(k):
            a = arrays[k]
            vals = np.array([float(Fraction(v)) for v in a["values"]]).reshape(a["h"], a["w"])
            return _relayout(vals, a.get("lay", "C"))

        pool = {}

        def arr(k):
            if k not in pool:
                pool[k] = build(k)
            return pool[k]

        L, H, A, R = {}, {}, {}, {}

        def reg_out(r):
            return None if r is None else [int(v) for v in r.region]

        def view(l):
            return {"regions": [reg_out(getattr(l, n)) for n in NAMES3],
                    "roe": [int(v) for v in l.original_roe_corner], "shape": [int(v) for v in l.shape_2d]}

        def region_arg(x, how):
            if x is None:
                return None
            if isinstance(x, dict):
                return R[x["ref"]]
            if how == "obj" and _valid2(x):
                return aa.Region2D(region=tuple(x))
            if how == "list":
                return [int(v) for v in x]
            if how == "npint":
                return tuple(np.int64(v) for v in x)
            return tuple(int(v) for v in x)

        def attempt(f):
            try:
                f()
            except Exception:
                pass

        out = []
        for st in case["steps"]:
            s = st["s"]
            try:
                if s == "new":
                    L[st["dst"]] = None
                    regs = [region_arg(x, st.get("as", "tuple")) for x in st["regions"]]
                    if st["via"] == "ctor":
                        l = aa.Layout2D(shape_2d=tuple(st["shape"]), original_roe_corner=tuple(st["corner"]),
                                        parallel_overscan=regs[0], serial_prescan=regs[1], serial_overscan=regs[2])
                    else:
                        l = aa.Layout2D.rotated_from_roe_corner(
                            roe_corner=tuple(st["corner"]), shape_native=tuple(st["shape"]),
                            parallel_overscan=regs[0], serial_prescan=regs[1], serial_overscan=regs[2])
                    L[st["dst"]] = l
                    out.append(view(l))
                elif s in ("rot", "ext", "copy"):
                    L[st["dst"]] = None
                    src = L.get(st["src"])
                    if src is None:
                        out.append(dict(NO_OBJ))
                        continue
                    if s == "rot":
                        l = src.new_rotated_from(roe_corner=tuple(st["corner"]))
                    elif s == "ext":
                        l = src.layout_extracted_from(extraction_region=region_arg(st["window"], st.get("as", "tuple")))
                    else:
                        l = _copy.deepcopy(src) if st.get("deep") else _copy.copy(src)
                    L[st["dst"]] = l
                    out.append("ok" if s == "copy" else view(l))
                elif s in ("read", "set", "set_roe", "orient", "decoy", "fault"):
                    src = L.get(st["src"])
                    if src is None:
                        out.append("ok" if s in ("decoy", "fault") else dict(NO_OBJ))
                        continue
                    if s == "read":
                        out.append(view(src))
                    elif s == "set":
                        setattr(src, NAMES3[st["name"]],
                                None if st["region"] is None else aa.Region2D(region=tuple(st["region"])))
                        out.append("ok")
                    elif s == "set_roe":
                        src.original_roe_corner = tuple(st["corner"])
                        out.append("ok")
                    elif s == "orient":
                        a = arr(st["arr"])
                        ra = src.original_orientation_from(array=a)
                        o = {"rows": _rows(ra), "po": None, "so": None}
                        if st["extract"]:
                            a2 = aa.Array2D.no_mask(values=ra, pixel_scales=1.0)
                            if src.parallel_overscan is not None:
                                o["po"] = _rows(src.extract_parallel_overscan_array_2d_from(array=a2).native.array)
                            if src.serial_overscan is not None:
                                o["so"] = _rows(src.extract_serial_overscan_array_from(array=a2).native.array)
                        out.append(o)
                    elif s == "decoy":
                        # every other public quantity and the sibling API, results discarded
                        self._sweep(src)
                        for n in NAMES3:
                            if getattr(src, n) is not None:
                                self._sweep(getattr(src, n))
                        for c in CORNERS:
                            attempt(lambda: src.new_rotated_from(roe_corner=c))
                        h, w = int(src.shape_2d[0]), int(src.shape_2d[1])
                        attempt(lambda: src.layout_extracted_from(extraction_region=(0, h, 0, w)))
                        attempt(lambda: src.layout_extracted_from(extraction_region=(0, 1, 0, 1)))
                        d2 = aa.Array2D.no_mask(values=np.arange(1.0, h * w + 1).reshape(h, w), pixel_scales=1.0)
                        attempt(lambda: src.original_orientation_from(array=np.array(d2.native)))
                        attempt(lambda: src.extract_parallel_overscan_array_2d_from(array=d2))
                        attempt(lambda: src.extract_serial_overscan_array_from(array=d2))
                        attempt(lambda: src.parallel_overscan_binned_array_1d_from(array=d2))
                        attempt(lambda: src.serial_overscan_binned_array_1d_from(array=d2))
                        out.append("ok")
                    else:  # a call that fails (possibly half-way); only what follows is observed
                        h, w = int(src.shape_2d[0]), int(src.shape_2d[1])
                        how = st.get("how", 0) % 6
                        attempt([
                            lambda: src.layout_extracted_from(extraction_region=None),
                            lambda: src.layout_extracted_from(extraction_region=(1,)),
                            lambda: src.original_orientation_from(array=None),
                            lambda: src.extract_serial_overscan_array_from(array=None),
                            lambda: aa.Layout2D.rotated_from_roe_corner(
                                roe_corner=(0, 1), shape_native=(h, w), parallel_overscan=(0, 1, 0, 1),
                                serial_prescan=(0, h + 3, 0, 1), serial_overscan=(0, 1, 0, 1)),
                            lambda: lu.rotate_region_via_roe_corner_from(
                                region=src.parallel_overscan or src.serial_overscan or (0, 1, 0, 1),
                                shape_native=(0, 0), roe_corner=(0, 1)),
                        ][how])
                        out.append("ok")
                elif s == "hnew":
                    H[st["dst"]] = aa.Header(original_roe_corner=tuple(st["corner"]))
                    out.append("ok")
                elif s == "hset":
                    H[st["src"]].original_roe_corner = tuple(st["corner"])
                    out.append("ok")
                elif s == "anew":
                    a = build(st["arr"])
                    h, w = a.shape
                    if st["ctor"] == "a":
                        A[st["dst"]] = aa.Array2D(values=a, mask=aa.Mask2D.all_false(shape_native=(h, w), pixel_scales=1.0),
                                                  header=H[st["hdr"]], store_native=st["store_native"])
                    else:
                        A[st["dst"]] = aa.Array2D.no_mask(values=a, pixel_scales=1.0, header=H[st["hdr"]])
                    out.append("ok")
                elif s in ("aread", "aset", "adecoy", "afault"):
                    a = A.get(st["src"])
                    if a is None:
                        out.append("ok" if s in ("adecoy", "afault") else dict(NO_OBJ))
                    elif s == "aread":
                        out.append(_rows(np.asarray(a.original_orientation)))
                    elif s == "aset":
                        v = float(Fraction(st["value"]))
                        if a.store_native:
                            a[st["y"], st["x"]] = v
                        else:
                            a[st["y"] * a.shape_native[1] + st["x"]] = v
                        out.append("ok")
                    elif s == "adecoy":
                        self._sweep(a)
                        out.append("ok")
                    else:
                        def bad_write():
                            a[10 ** 6] = 1.0
                        attempt(bad_write)
                        attempt(lambda: a.native[10 ** 6])
                        out.append("ok")
                elif s == "rnew":
                    R[st["dst"]] = None
                    R[st["dst"]] = aa.Region2D(region=tuple(st["region"]))
                    out.append(reg_out(R[st["dst"]]))
                elif s == "rset":
                    R[st["src"]].region = tuple(st["region"])
                    out.append("ok")
                elif s == "rdecoy":
                    r = R.get(st["src"])
                    if r is not None:
                        self._sweep(r)
                        for px in ((0, 1), (1, 3)):
                            for f in (r.parallel_front_region_from, r.serial_front_region_from,
                                      r.parallel_trailing_region_from, r.serial_trailing_region_from,
                                      r.serial_x_front_range_from):
                                attempt(lambda: f(pixels=px))
                        for c in CORNERS:
                            attempt(lambda: lu.rotate_region_via_roe_corner_from(region=r, shape_native=(50, 60),
                                                                                 roe_corner=c))
                    out.append("ok")
                elif s == "rread":
                    r = R.get(st["src"])
                    if r is None:
                        out.append(dict(NO_OBJ))
                        continue
                    sl = r.slice
                    slc = [int(sl[0].start), int(sl[0].stop), int(sl[1].start), int(sl[1].stop)]
                    if (r.y_slice, r.x_slice) != (sl[0], sl[1]):
                        slc = "y_slice / x_slice differ from slice"

                    def sub(f):
                        try:
                            return reg_out(f())
                        except exc.RegionException:
                            return dict(BAD)

                    px = tuple(st["pixels"])
                    o = {"region": reg_out(r), "rows": int(r.total_rows), "cols": int(r.total_columns), "slice": slc,
                         "rot": sub(lambda: lu.rotate_region_via_roe_corner_from(
                             region=r, shape_native=tuple(st["shape"]), roe_corner=tuple(st["corner"]))),
                         "pfront": sub(lambda: r.parallel_front_region_from(pixels=px)),
                         "sfront": sub(lambda: r.serial_front_region_from(pixels=px)),
                         "ptrail": sub(lambda: r.parallel_trailing_region_from(pixels=px)),
                         "ext": sub(lambda: lu.region_after_extraction(original_region=r,
                                                                       extraction_region=tuple(st["window"])))}
                    out.append(o)
                else:
                    raise ValueError(s)
            except exc.RegionException:
                out.append(dict(BAD))
        intact = all(np.array_equal(pool[k], build(k)) for k in pool)
        out.append({"intact": bool(intact)})
        return out

    def _oracle_history(self, case, obs):
        if isinstance(obs, dict):
            return False, f"the history raised: {obs}"
        sh = _Shadow(case["arrays"])
        if len(obs) != len(case["steps"]) + 1:
            return False, "history observation has the wrong length"
        for i, st in enumerate(case["steps"]):
            want = sh.step(st)
            if want is UNSPEC or want == UNSPEC:
                continue
            if obs[i] != want:
                return False, (f"step {i} {json.dumps(st)}: the reused object answered {json.dumps(obs[i])[:600]}; "
                               f"a fresh object in the same state gives {json.dumps(want)[:600]}")
        if obs[-1] != {"intact": True}:
            return False, "a caller-owned input array was modified by the history"
        return True, ""

    # ================================================================== round-4: large / size-directed cases
    @staticmethod
    def _large_values(h, w, dt):
        n = h * w
        v = np.arange(1, n + 1)
        if dt == "i8":
            return v.astype(np.int64).reshape(h, w)
        if dt == "f4" and n < 2 ** 24:
            return v.astype(np.float32).reshape(h, w)
        return (v.astype(np.float64) + 0.5).reshape(h, w)

    def _run_large_frame(self, aa, lu, case):
        h, w = case["h"], case["w"]
        var = self._var(case)
        a = _relayout(self._large_values(h, w, var.get("dt", "f8")), var.get("lay", "C"))
        c = tuple(case["corner"])
        reg, win = tuple(case["region"]), tuple(case["window"])
        ra = lu.rotate_array_via_roe_corner_from(array=a, roe_corner=c)
        rr = lu.rotate_region_via_roe_corner_from(region=reg, shape_native=(h, w), roe_corner=c)
        back = lu.rotate_region_via_roe_corner_from(region=rr, shape_native=(h, w), roe_corner=c)
        lay = aa.Layout2D.rotated_from_roe_corner(roe_corner=c, shape_native=(h, w), parallel_overscan=reg,
                                                  serial_overscan=win)
        lo = lay.original_orientation_from(array=a)
        # slim <-> native conversions are pure-Python loops here (numba absent): "full" exercises both storage
        # modes, "native" keeps frames native-stored and extracts only regions of moderate area
        full = case.get("a2d", "full") == "full"
        mask = aa.Mask2D.all_false(shape_native=(h, w), pixel_scales=1.0)
        arr = aa.Array2D.no_mask(values=lo, pixel_scales=1.0) if full else \
            aa.Array2D(values=lo, mask=mask, store_native=True)
        hdr = aa.Header(original_roe_corner=c)
        arr2 = aa.Array2D(values=a, mask=mask, header=hdr,
                          store_native=bool(case.get("store_native")) or not full)

        def area(r):
            return (r[1] - r[0]) * (r[3] - r[2])

        po = so = None
        if full or area(reg) <= 20_000:
            po = np.asarray(lay.extract_parallel_overscan_array_2d_from(array=arr).native.array)
        if full or area(win) <= 20_000:
            so = np.asarray(lay.extract_serial_overscan_array_from(array=arr).native.array)
        ext = lu.region_after_extraction(original_region=reg, extraction_region=win)
        lay2 = lay.new_rotated_from(roe_corner=c)
        return {
            "rotated_array": np.asarray(ra), "rotated_region": [int(v) for v in rr.region],
            "twice_array": np.asarray(lu.rotate_array_via_roe_corner_from(array=ra, roe_corner=c)),
            "twice_region": [int(v) for v in back.region],
            "orientation_from": np.asarray(lo),
            "layout_regions": [[int(v) for v in lay.parallel_overscan.region],
                               [int(v) for v in lay.serial_overscan.region]],
            "layout_twice": [[int(v) for v in lay2.parallel_overscan.region],
                             [int(v) for v in lay2.serial_overscan.region]],
            "parallel_overscan_array": po, "serial_overscan_array": so,
            "original_orientation": np.asarray(arr2.original_orientation),
            "ext_region": None if ext is None else [int(v) for v in ext.region],
            "ext_content": None if ext is None else np.asarray(a[win[0]:win[1], win[2]:win[3]][ext.slice]),
            "input_intact": bool(np.array_equal(a, self._large_values(h, w, var.get("dt", "f8")))),
        }

    def _oracle_large_frame(self, case, obs):
        if "err" in obs:
            return False, f"raised {obs}"
        h, w = case["h"], case["w"]
        a = self._large_values(h, w, self._var(case).get("dt", "f8"))
        c = tuple(case["corner"])
        # the four orientations by explicit index arithmetic: out[i, j] = a[yi[i], xi[j]]
        yi = np.arange(h) if c[0] == 1 else (h - 1) - np.arange(h)
        xi = np.arange(w) if c[1] == 0 else (w - 1) - np.arange(w)
        want = a[np.ix_(yi, xi)]

        def same(x, y):
            x = np.asarray(x)
            return x.shape == y.shape and bool(np.array_equal(x, y))

        def cut(m, r):
            return m[r[0]:r[1], r[2]:r[3]]

        reg, win = case["region"], case["window"]
        for key in ("rotated_array", "orientation_from", "original_orientation"):
            if not same(obs[key], want):
                return False, f"{key} ({h}x{w}, corner {c}) is not the flipped array"
        if not same(obs["twice_array"], a):
            return False, "rotating the array twice does not restore it"
        rr = _reflect(reg, h, w, c)
        if obs["rotated_region"] != rr or obs["twice_region"] != list(reg):
            return False, f"rotated region {obs['rotated_region']} / twice {obs['twice_region']} != {rr} / {list(reg)}"
        if obs["layout_regions"] != [rr, _reflect(win, h, w, c)] or obs["layout_twice"] != [list(reg), list(win)]:
            return False, "Layout2D rotation of the regions is not the reflection / not an involution"
        # the rotated region slices from the rotated array the rotated content of the original region
        ry = np.arange(reg[0], reg[1]) if c[0] == 1 else np.arange(reg[1] - 1, reg[0] - 1, -1)
        rx = np.arange(reg[2], reg[3]) if c[1] == 0 else np.arange(reg[3] - 1, reg[2] - 1, -1)
        if not same(cut(np.asarray(obs["rotated_array"]), obs["rotated_region"]), a[np.ix_(ry, rx)]):
            return False, "the rotated region does not slice the rotated content of the original region"
        if obs["parallel_overscan_array"] is not None and not same(obs["parallel_overscan_array"], a[np.ix_(ry, rx)]):
            return False, "extract_parallel_overscan_array_2d_from is not the rotated content of the region"
        wy = np.arange(win[0], win[1]) if c[0] == 1 else np.arange(win[1] - 1, win[0] - 1, -1)
        wx = np.arange(win[2], win[3]) if c[1] == 0 else np.arange(win[3] - 1, win[2] - 1, -1)
        if obs["serial_overscan_array"] is not None and not same(obs["serial_overscan_array"], a[np.ix_(wy, wx)]):
            return False, "extract_serial_overscan_array_from is not the rotated content of the region"
        ext = _overlap_in_window(reg, win)
        if obs["ext_region"] != ext:
            return False, f"region after extraction {obs['ext_region']} != overlap in window coordinates {ext}"
        if ext is not None:
            ov = [max(reg[0], win[0]), min(reg[1], win[1]), max(reg[2], win[2]), min(reg[3], win[3])]
            if not same(obs["ext_content"], cut(a, ov)):
                return False, "the region after extraction does not address the overlap inside the window"
        if not obs["input_intact"]:
            return False, "the caller's array was modified"
        return True, ""

    def _run_large_1d(self, aa, case):
        n = case["n"]
        var = self._var(case)
        vals = _relayout(self._large_values(1, n, var.get("dt", "f8")).reshape(n), var.get("lay", "C"))
        ov = tuple(case["overscan"])
        lay = aa.Layout1D(shape_1d=(n,), prescan=tuple(case["prescan"]), overscan=ov)
        arr = aa.Array1D.no_mask(values=vals, pixel_scales=1.0)
        r = aa.Region1D(region=ov)
        fr = r.front_region_from(pixels=tuple(case["pixels"]))
        return {"overscan": [int(v) for v in lay.overscan.region], "prescan": [int(v) for v in lay.prescan.region],
                "overscan_array": np.asarray(lay.extract_overscan_array_1d_from(array=arr).native.array).ravel(),
                "front": [int(v) for v in fr.region], "front_content": np.asarray(vals[fr.slice])}

    def _oracle_large_1d(self, case, obs):
        if "err" in obs:
            return False, f"raised {obs}"
        n = case["n"]
        a = self._large_values(1, n, self._var(case).get("dt", "f8")).reshape(n)
        x0, x1 = case["overscan"]
        if obs["overscan"] != [x0, x1] or obs["prescan"] != list(case["prescan"]):
            return False, "Layout1D changed its regions"
        if obs["overscan_array"].shape != (x1 - x0,) or not np.array_equal(obs["overscan_array"], a[x0:x1]):
            return False, "extract_overscan_array_1d_from is not array[x0:x1]"
        p = case["pixels"]
        if obs["front"] != [x0 + p[0], x0 + p[1]]:
            return False, f"front_region_from {obs['front']} != {[x0 + p[0], x0 + p[1]]}"
        if not np.array_equal(obs["front_content"], a[x0 + p[0]:x0 + p[1]]):
            return False, "front region does not slice the requested pixels"
        return True, ""

    def _large_frame_cases(self, sizes, rng, tag):
        import math
        for s in sizes:
            if s < 2 or s > 3_000_000:
                continue
            r0 = max(1, math.isqrt(s))
            shapes = {(1, s), (s, 1), (r0, -(-s // r0)), (-(-s // 3), 3), (7, -(-s // 7))}
            if s <= 200_000:
                shapes |= {(s, 2), (3, s)}  # one dimension alone at the size
            for k_s, (h, w) in enumerate(sorted(shapes)):
                corners = CORNERS if h * w <= 300_000 else rng.sample(CORNERS, 2)
                for k_c, c in enumerate(corners):
                    def iv(n):
                        k = rng.random()
                        if n == 1:
                            return (0, 1)
                        if k < 0.3:
                            return (0, rng.randint(1, n))
                        if k < 0.6:
                            return (rng.randint(0, n - 1), n)
                        a_ = rng.randint(0, n - 1)
                        return (a_, rng.randint(a_ + 1, n))
                    ry, rx, wy, wx = iv(h), iv(w), iv(h), iv(w)
                    yield {"tag": tag, "kind": "large_frame", "large": True, "h": h, "w": w, "corner": list(c),
                           "region": [ry[0], ry[1], rx[0], rx[1]], "window": [wy[0], wy[1], wx[0], wx[1]],
                           "store_native": rng.random() < 0.5,
                           "a2d": "full" if h * w <= 20_000 or (k_c == 0 and k_s == 2 and h * w <= 300_000) else "native",
                           "variant": {"dt": rng.choice(("f8", "f8", "i8", "f4")), "lay": rng.choice(LAYS2)}}
            if s >= 4:
                x0 = rng.randint(1, s // 2)
                yield {"tag": tag + "_1d", "kind": "large_1d", "large": True, "n": s, "prescan": [0, x0],
                       "overscan": [x0, s - rng.choice((0, 1))], "pixels": [rng.randint(0, 1), rng.randint(2, s - x0 - 1) if s - x0 - 1 >= 2 else 2],
                       "variant": {"dt": rng.choice(("f8", "i8")), "lay": rng.choice(LAYS1)}}

    def _bigcoord_cases(self, sizes, rng, tag):
        """coordinates / extents at a given magnitude: pure integer arithmetic, compared with the model."""
        s = 0

        def var():
            # numpy int64 spellings only where every derived coordinate (up to 2s + 9) fits an int64
            np_ok = s < 2 ** 61
            return {"dt": "f8", "reg": rng.choice(("tuple", "list", "npint", "obj") if np_ok else ("tuple", "list", "obj")),
                    "shp": rng.choice(("tuple", "list", "npint") if np_ok else ("tuple", "list")),
                    "omit_defaults": False, "ctor": "a", "lay": "C"}
        for s in sizes:
            if s < 4:
                continue
            for args in ((0, s, s - 1, s + 5), (s - 1, s + 1, 0, 2 * s), (3, s + 3, 2, s), (s, 2 * s, s + 1, 2 * s + 1),
                         (0, s, s, s + 1), (s, s + 2, 0, s)):
                yield {"tag": tag, "kind": "x0x1", "args": list(args), "variant": var()}
            for c in CORNERS:
                yield {"tag": tag, "kind": "rotate_region", "h": s + 3, "w": 5, "region": [1, s + 1, 1, 4],
                       "corner": list(c), "variant": var()}
                yield {"tag": tag, "kind": "rotate_region", "h": 4, "w": s + 2, "region": [0, 3, 2, s + 2],
                       "corner": list(c), "variant": var()}
                yield {"tag": tag, "kind": "rotate_region", "h": s, "w": s + 1, "region": [s - 1, s, 0, s],
                       "corner": list(c), "variant": var()}
            reg = [2, 2 + s, 3, 4 + s]
            for k in ("parallel_front", "parallel_trailing", "serial_front", "serial_trailing",
                      "serial_towards_roe_full", "serial_x_front_range"):
                for p in ((s - 1, s), (0, s), (s, s + 2), (1, s + 1)):
                    yield {"tag": tag, "kind": "sub", "sub": k, "region": reg, "pixels": list(p), "from_end": None,
                           "shape": [s + 5, s + 9], "variant": var()}
            for k in ("parallel_front", "serial_front"):
                for fe in (1, s - 1, s, s + 1):
                    yield {"tag": tag, "kind": "sub", "sub": k, "region": reg, "pixels": None, "from_end": fe,
                           "shape": [s + 5, s + 9], "variant": var()}
            yield {"tag": tag, "kind": "sub", "sub": "parallel_full", "region": reg, "pixels": None, "from_end": None,
                   "shape": [s + 5, s + 9], "variant": var()}
            for k in ("front1d", "trailing1d"):
                for p in ((s - 1, s), (0, s), (1, s + 1)):
                    yield {"tag": tag, "kind": "sub", "sub": k, "region": [5, 5 + s], "pixels": list(p),
                           "from_end": None, "variant": var()}
            yield {"tag": tag, "kind": "sub", "sub": "front1d", "region": [5, 5 + s], "pixels": None, "from_end": s - 1,
                   "variant": var()}
            for r in ([s, s + 1, 0, s], [0, s, s, s], [s - 1, s, s, 2 * s + 1], [s + 1, s, 0, 1]):
                yield {"tag": tag, "kind": "ctor", "dim": 2, "region": r, "variant": var()}
            for r in ([s, s + 1], [s, s], [0, s]):
                yield {"tag": tag, "kind": "ctor", "dim": 1, "region": r, "variant": var()}
            yield {"tag": tag, "kind": "layout_ctor", "h": s + 1, "w": s + 2, "regions": [[s - 1, s + 1, 0, s], None, [0, s, s, s + 2]],
                   "corner": list(rng.choice(CORNERS)), "variant": var()}

    def generate_large(self, hints, rng):
        """sizes on both sides of every new integer constant in the anchored source, in every size dimension
        this property has: frame pixels H*W (several aspect ratios incl. 1xN, Nx1), H or W alone, rows / columns
        of regions and windows, 1-D lengths, pixel ranges, and the magnitude of the coordinates themselves."""
        sizes = []
        for c in hints:
            for s in (c - 1, c, c + 1, c + c // 3 + 1, 2 * c + 1):
                if s not in sizes:
                    sizes.append(s)
        yield from self._bigcoord_cases(sizes, rng, "large_coord")
        # small constants first: they are the cheapest and the likeliest thresholds
        yield from self._large_frame_cases(sorted(sizes), rng, "large_frame")

    # ------------------------------------------------------------------ misc
    def nontrivial(self, case, obs):
        kind = case["kind"]
        if kind == "rotate":
            return case["region"] != [0, case["h"], 0, case["w"]]
        if kind == "extract":
            return case["orig"] != case["window"]
        return True

    def known_finding(self, case, obs):
        return None

    def _shrink_world(self, case):
        # The rounds (scribbles, configuration flips, re-use) are never shrunk: what they expose is process-wide state
        # (a memo handing out its own buffer, a latched configuration value).  Once that state is corrupted every
        # later evaluation in this process fails, also of a candidate without the round that corrupted it -- the
        # minimiser would drop exactly the steps a replay in a fresh process needs.
        v = self._var(case)
        if v.get("lay", "C") != "C":
            yield {**case, "variant": {**v, "lay": "C"}}
        if (v.get("dt") or "f8") != "f8":
            yield {**case, "variant": {**v, "dt": "f8"}}
        if v.get("shp", "tuple") != "tuple":
            yield {**case, "variant": {**v, "shp": "tuple"}}
        opt = case.get("opt") or {}
        for k in list(opt):
            if k == "masked":
                continue
            o2 = {kk: vv for kk, vv in opt.items() if kk != k and not (k == "mask_kind" and kk == "masked")}
            yield {**case, "opt": o2}
        if case.get("reg3") != ["tuple"] * 4:
            yield {**case, "reg3": ["tuple"] * 4}
        for i in range(3):
            if case["regions"][i] is not None:
                regs = list(case["regions"])
                regs[i] = None
                yield {**case, "regions": regs}
        if any(Fraction(x) != Fraction(i + 1) for i, x in enumerate(case["values"])):
            yield {**{k: x for k, x in case.items() if k != "dec"}, "values": qlist(range(1, case["h"] * case["w"] + 1))}
        h, w = case["h"], case["w"]
        for k in ("region", "window"):
            if case[k] != [0, h, 0, w]:
                yield {**case, k: [0, h, 0, w]}

    def shrink(self, case):
        if case["kind"] == "world":
            yield from self._shrink_world(case)
            return
        if case["kind"] == "history":
            steps = case["steps"]
            if len(steps) > 1:
                yield {**case, "steps": steps[:-1]}
            for i in range(len(steps) - 1, -1, -1):
                d = _step_def(steps[i])
                if d is not None and any(d in _step_uses(t) for t in steps[i + 1:]):
                    continue
                yield {**case, "steps": steps[:i] + steps[i + 1:]}
            for k, a in enumerate(case["arrays"]):
                if a.get("lay", "C") != "C":
                    arrs = list(case["arrays"])
                    arrs[k] = {**a, "lay": "C"}
                    yield {**case, "arrays": arrs}
            return
        if case.get("large"):
            v = self._var(case)
            if v.get("lay", "C") != "C":
                yield {**case, "variant": {**v, "lay": "C"}}
            if v.get("dt", "f8") != "f8":
                yield {**case, "variant": {**v, "dt": "f8"}}
            if case["kind"] == "large_frame":  # walk the frame down towards the size where the failure starts
                h, w = case["h"], case["w"]

                def clip(r, hh, ww):
                    r = [min(r[0], hh - 1), min(r[1], hh), min(r[2], ww - 1), min(r[3], ww)]
                    return r if _valid2(r) else [0, 1, 0, 1]

                for hh, ww in ((h // 2, w), (h, w // 2), (h - h // 4, w), (h, w - w // 4), (h - h // 16, w),
                               (h, w - w // 16), (h - 1, w), (h, w - 1)):
                    if hh >= 1 and ww >= 1 and (hh, ww) != (h, w):
                        yield {**case, "h": hh, "w": ww, "region": clip(case["region"], hh, ww),
                               "window": clip(case["window"], hh, ww)}
            return
        if case["kind"] == "rotate":
            v = self._var(case)
            if v.get("lay", "C") not in ("C", "F"):
                yield {**case, "variant": {**v, "lay": "F"}}
            if v.get("lay", "C") != "C":
                yield {**case, "variant": {**v, "lay": "C"}}
            if v.get("dt", "f8") != "f8":
                yield {**case, "variant": {**v, "dt": "f8"}}
            h, w = case["h"], case["w"]
            if case["region"] != [0, h, 0, w]:
                yield {**case, "region": [0, h, 0, w]}
            return
        if case["kind"] == "layout":
            for i in range(3):
                if case["regions"][i] is not None and sum(r is not None for r in case["regions"]) > 1:
                    regs = list(case["regions"])
                    regs[i] = None
                    yield {**case, "regions": regs}
            if case["corner2"] != [1, 0]:
                yield {**case, "corner2": [1, 0]}
            h, w = case["h"], case["w"]
            if case["window"] != [0, h, 0, w]:
                yield {**case, "window": [0, h, 0, w]}

    def theorems_for(self, case):
        return {
            "rotate": ["C19.rotate_commutes_with_slice", "C19.rotateArray_twice", "C19.rotateRegion_twice"],
            "rotate_region": ["C19.rotateRegion_inside"],
            "x0x1": ["C19.x0x1_after_extraction_eq_overlap"],
            "extract": ["C19.region_after_extraction_eq_overlap", "C19.extraction_addresses_overlap",
                        "C19.region_after_extraction_absent_iff"],
            "sub": ["C19.parallel_front_rows", "C19.parallel_front_from_end_rows", "C19.parallel_trailing_rows",
                    "C19.serial_front_columns", "C19.serial_front_from_end_columns",
                    "C19.serial_trailing_columns", "C19.front1d_pixels", "C19.front1d_from_end_pixels",
                    "C19.trailing1d_pixels", "C19.parallel_front_content", "C19.serial_front_content",
                    "C19.front1d_content"],
            "ctor": ["C19.region2d_rejects_iff_invalid", "C19.region1d_rejects_iff_invalid"],
            "layout": ["C19.layout_rotated_slices_rotated_content", "C19.layout_new_rotated_slices_rotated_content",
                       "C19.layout_rotated_twice", "C19.layout_extracted_regions",
                       "C19.original_orientation_undoes_rotation"],
            "layout_ctor": ["C19.layout_new_iff_valid"],
            "layout1d": ["C19.region1d_rejects_iff_invalid"],
            "history": ["C19.layout_rotated_slices_rotated_content", "C19.layout_new_rotated_slices_rotated_content",
                        "C19.layout_rotated_twice", "C19.layout_extracted_regions",
                        "C19.original_orientation_undoes_rotation", "C19.rotate_commutes_with_slice",
                        "C19.region_after_extraction_eq_overlap"],
            "large_frame": ["C19.rotate_commutes_with_slice", "C19.rotateArray_twice", "C19.rotateRegion_twice",
                            "C19.layout_rotated_slices_rotated_content", "C19.extraction_addresses_overlap"],
            "large_1d": ["C19.front1d_content", "C19.front1d_pixels"],
            "world": ["C19.layout_rotated_slices_rotated_content", "C19.layout_new_rotated_slices_rotated_content",
                      "C19.layout_rotated_twice", "C19.layout_extracted_regions",
                      "C19.original_orientation_undoes_rotation", "C19.rotate_commutes_with_slice",
                      "C19.rotateArray_twice", "C19.rotateRegion_twice", "C19.region_after_extraction_eq_overlap",
                      "C19.extraction_addresses_overlap", "C19.parallel_front_rows", "C19.serial_front_columns",
                      "C19.parallel_trailing_rows", "C19.serial_trailing_columns", "C19.front1d_content"],
        }.get(case["kind"], ["C19.*"])


CHECK = C19()
