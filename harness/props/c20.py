"""C20 — triangle up-sampling tiles exactly; neighbourhoods and selections are faithful."""
from __future__ import annotations

import functools
import itertools
import json
import math
from fractions import Fraction

import numpy as np

import gen
from common import PropertyCheck, Skip, load_autoarray, q

F = Fraction
TOL = F(1, 10**9)
H_FLOAT = 3**0.5 / 2          # the same expression as abstract.HEIGHT_FACTOR
H = F(H_FLOAT)


# ------------------------------------------------------------------------------------------------
# exact helpers
# ------------------------------------------------------------------------------------------------
@functools.lru_cache(maxsize=1 << 18)
def _fq(v):
    return F(v)


def fr_tri(t):
    """JSON triangle ("p/q" strings) -> exact Fractions (parsing memoised: the same values recur in the
    implementation's and the model's observation and from stage to stage)"""
    return tuple((_fq(v[0]), _fq(v[1])) for v in t)


def tris_from_array(a):
    """(N,3,2) float array -> list of triangles of exact Fractions."""
    return [tuple((F(float(v[0])), F(float(v[1]))) for v in t) for t in np.asarray(a, dtype=float)]


def tris_json(ts):
    return [[[q(v[0]), q(v[1])] for v in t] for t in ts]


def tris_q(a):
    """(N,3,2) float array -> JSON triangles of exact "p/q" strings; nan / inf survive as "nan" / "inf" so that
    a set reporting non-finite values is judged (and reported) instead of crashing the observation"""
    return [[[q(float(v[0])), q(float(v[1]))] for v in t] for t in np.asarray(a, dtype=float)]


def int_or_nan(v):
    v = float(v)
    return int(v) if math.isfinite(v) else q(v)


def orient(a, b, c):
    return (b[0] - a[0]) * (c[1] - a[1]) - (b[1] - a[1]) * (c[0] - a[0])


def area2(t):
    return orient(t[0], t[1], t[2])


def scale_of(ts):
    """max(1, largest |coordinate|), exactly: the candidates are found in floats (monotone, so the exact maximum is
    among the values whose float is largest), the result is the exact Fraction"""
    best, bf = F(1), 1.0
    for t in ts:
        for v in t:
            for c in v:
                n, d = c.numerator, c.denominator
                try:
                    f = abs(n / d) if d != 1 else abs(n)
                except OverflowError:
                    f = float("inf")
                if f >= bf:
                    a = abs(c)
                    if a > best:
                        best, bf = a, f
    return best


class TriSet:
    """set of triangles (vertex order irrelevant) with tolerance matching."""

    CELL = 1e-6

    def __init__(self, ts, tol):
        self.tol = float(tol)
        self.items = [sorted((float(v[0]), float(v[1])) for v in t) for t in ts]
        self.grid = {}
        for i, t in enumerate(self.items):
            self.grid.setdefault(self._key(t), []).append(i)

    def _cells(self, x):
        c = math.floor(x / self.CELL)
        out = {c, math.floor((x - self.tol) / self.CELL), math.floor((x + self.tol) / self.CELL)}
        return out

    def _key(self, t):
        return tuple(math.floor(c / self.CELL) for v in t for c in v)

    def _close(self, a, b):
        return all(abs(a[i][j] - b[i][j]) <= self.tol for i in range(3) for j in range(2))

    def contains(self, t):
        tf = sorted((float(v[0]), float(v[1])) for v in t)
        cands = [self._cells(c) for v in tf for c in v]
        for key in itertools.product(*cands):
            for i in self.grid.get(key, ()):
                if self._close(self.items[i], tf):
                    return True
        # slow path: any vertex permutation (float noise could reorder nearly-equal first columns)
        for it in self.items:
            for perm in itertools.permutations(tf):
                if self._close(it, perm):
                    return True
        return False


def set_diff(A, B, tol, what):
    """None if A and B describe the same set of triangles, else a message."""
    sa, sb = TriSet(A, tol), TriSet(B, tol)
    for t in A:
        if not sb.contains(t):
            return f"{what}: triangle {[tuple(map(float, v)) for v in t]} of impl is not in model/expected set"
    for t in B:
        if not sa.contains(t):
            return f"{what}: triangle {[tuple(map(float, v)) for v in t]} of model/expected set is missing in impl"
    return None


def mid(a, b):
    return ((a[0] + b[0]) / 2, (a[1] + b[1]) / 2)


def expected_children(t):
    """midpoint subdivision of one triangle (definition, independent of the code's ordering)."""
    a, b, c = t
    ab, bc, ca = mid(a, b), mid(b, c), mid(c, a)
    return [(a, ab, ca), (b, bc, ab), (c, ca, bc), (ab, bc, ca)]


def expected_neighbours(t):
    """the triangle and its three mirror images through the midpoints of its edges."""
    a, b, c = t
    ra = (b[0] + c[0] - a[0], b[1] + c[1] - a[1])
    rb = (a[0] + c[0] - b[0], a[1] + c[1] - b[1])
    rc = (a[0] + b[0] - c[0], a[1] + b[1] - c[1])
    return [(a, b, c), (ra, b, c), (a, rb, c), (a, b, rc)]


def coord_triangle(x, y, side, xo, yo, flipped, h=H):
    """vertex triangle of integer coordinate (x,y): independent restatement — equilateral triangle of
    side `side`, height h*side, centred (mid-height) at (side/2*x + xo, h*side*y + yo), pointing up
    when x+y is even (and the set is not flipped) else down."""
    cx = side / 2 * x + xo
    cy = h * side * y + yo
    up = ((x + y) % 2 == 0) != bool(flipped)
    s = 1 if up else -1
    hh = h * side / 2
    return ((cx, cy + s * hh), (cx + side / 2, cy - s * hh), (cx - side / 2, cy - s * hh))


def inside_closed(t, p):
    """(inside, margin): p in the closed non-degenerate triangle by orientation signs; margin = the
    smallest normalised |orientation| (0 = on an edge)."""
    d = area2(t)
    if d == 0:
        return False, F(0)
    o = [orient(t[0], t[1], p) / d, orient(t[1], t[2], p) / d, orient(t[2], t[0], p) / d]
    return all(v >= 0 for v in o), min(abs(v) for v in o)


def exact_as_float(fr):
    try:
        return F(float(fr)) == fr
    except OverflowError:
        return False


# ------------------------------------------------------------------------------------------------
# round 4: exact lattice statements (integer coordinates of any magnitude) and vectorised statements
# (large numbers of triangles)
# ------------------------------------------------------------------------------------------------
EPS = 2.0 ** -52
SHARP_RATIO = 2 ** 10     # coordinate scale / triangle size beyond which 1e-9*scale no longer resolves a triangle


def lattice_keys(ts, side, xo, yo, tol):
    """triangles (exact Fractions) -> list of frozensets of integer lattice points, in units of
    (side/4, h*side/2) measured from (xo, yo); None when a vertex is further than `tol` from that lattice."""
    ux, uy = side / 4, H * side / 2
    out = []
    for t in ts:
        key = []
        for v in t:
            i, j = (v[0] - xo) / ux, (v[1] - yo) / uy
            ir, jr = round(i), round(j)
            if abs(i - ir) * ux > tol or abs(j - jr) * uy > tol:
                return None
            key.append((ir, jr))
        out.append(tuple(sorted(key)))
    return out


PERMS3 = list(itertools.permutations(range(3)))


def np_lattice(coords, side, xo, yo, flipped):
    """(N,3,2) float vertex triangles of integer coordinates: the definition (equilateral, side `side`,
    mid-height centre at (side/2*x + xo, h*side*y + yo), up when x+y is even unless the set is flipped)."""
    c = np.asarray(coords)
    x, y = c[:, 0].astype(float), c[:, 1].astype(float)
    ci = np.rint(c).astype(np.int64)
    cx, cy = side / 2 * x + xo, H_FLOAT * side * y + yo
    up = (((ci[:, 0] + ci[:, 1]) % 2) == 0) != bool(flipped)
    s = np.where(up, 1.0, -1.0)
    hh = H_FLOAT * side / 2
    return np.stack([np.stack([cx, cy + s * hh], 1), np.stack([cx + side / 2, cy - s * hh], 1),
                     np.stack([cx - side / 2, cy - s * hh], 1)], 1)


def np_children(T):
    a, b, c = T[:, 0], T[:, 1], T[:, 2]
    ab, bc, ca = (a + b) / 2, (b + c) / 2, (c + a) / 2
    return np.concatenate([np.stack([a, ab, ca], 1), np.stack([b, bc, ab], 1), np.stack([c, ca, bc], 1),
                           np.stack([ab, bc, ca], 1)], 0)


def np_neighbours(T):
    a, b, c = T[:, 0], T[:, 1], T[:, 2]
    return np.concatenate([T, np.stack([b + c - a, b, c], 1), np.stack([a, a + c - b, c], 1),
                           np.stack([a, b, a + b - c], 1)], 0)


def np_area2(T):
    return ((T[:, 1, 0] - T[:, 0, 0]) * (T[:, 2, 1] - T[:, 0, 1])
            - (T[:, 1, 1] - T[:, 0, 1]) * (T[:, 2, 0] - T[:, 0, 0]))


def np_rows_match(A, B, tol):
    """row i of A and row i of B have the same three vertices (any order) within tol"""
    ok = np.zeros(len(A), dtype=bool)
    for p in PERMS3:
        ok |= np.abs(A - B[:, p, :]).reshape(len(A), -1).max(axis=1) <= tol
    return ok


def np_unmatched(A, B, tol, limit=50):
    """indices of triangles of A that have no partner (same vertex set within tol) in B"""
    if len(A) == 0:
        return []
    if len(B) == 0:
        return list(range(min(len(A), limit)))
    from scipy.spatial import cKDTree

    tree = cKDTree(B.mean(axis=1))
    k = min(8, len(B))
    _, j = tree.query(A.mean(axis=1), k=k, p=np.inf, distance_upper_bound=2 * tol)
    j = np.asarray(j).reshape(len(A), k)
    found = np.zeros(len(A), dtype=bool)
    for col in range(k):
        idx = np.where((j[:, col] < len(B)) & ~found)[0]
        if len(idx):
            found[idx] = np_rows_match(A[idx], B[j[idx, col]], tol)
    out = []
    for i in np.where(~found)[0][:limit]:   # the few left: against every triangle of B
        if not np_rows_match(np.broadcast_to(A[i], B.shape), B, tol).any():
            out.append(int(i))
    return out


def np_set_diff(A, B, tol, what):
    u = np_unmatched(A, B, tol)
    if u:
        return f"{what}: triangle {A[u[0]].tolist()} (#{u[0]}) of impl is not in the expected set ({len(u)}+ such)"
    u = np_unmatched(B, A, tol)
    if u:
        return f"{what}: expected triangle {B[u[0]].tolist()} is missing in impl ({len(u)}+ such)"
    return None


def np_bary_min(T, p):
    """(nondegenerate, smallest normalised orientation) of point p against every triangle"""
    d = np_area2(T)
    P = np.broadcast_to(np.asarray(p, dtype=float), (len(T), 2))

    def o(a, b):
        return (b[:, 0] - a[:, 0]) * (P[:, 1] - a[:, 1]) - (b[:, 1] - a[:, 1]) * (P[:, 0] - a[:, 0])

    with np.errstate(divide="ignore", invalid="ignore"):
        m = np.minimum(np.minimum(o(T[:, 0], T[:, 1]) / d, o(T[:, 1], T[:, 2]) / d), o(T[:, 2], T[:, 0]) / d)
    return d != 0, m


def shape_ref(s):
    """reference point of a shape, independently of the code (exact)"""
    if s["kind"] in ("point", "circle", "flaky", "scribbler"):
        return (F(s["x"]), F(s["y"]))
    if s["kind"] == "square":
        return ((F(s["left"]) + F(s["right"])) / 2, (F(s["top"]) + F(s["bottom"])) / 2)
    vs = [(F(a), F(b)) for a, b in s["vertices"]]
    return (sum(v[0] for v in vs) / len(vs), sum(v[1] for v in vs) / len(vs))


# ------------------------------------------------------------------------------------------------
# round 5/6: scaling by powers of two (decades stream), non-finite guard, array layouts
# ------------------------------------------------------------------------------------------------
NONFINITE = ("nan", "inf", "-inf")
POINT_KINDS = ("point", "flaky", "scribbler")
LEN1_KEYS = frozenset(["triangles", "view_triangles", "vertices", "view_vertices", "side", "x_offset", "y_offset",
                       "refs", "sel_ref", "after_ref", "ref"])      # quantities of dimension length
LEN2_KEYS = frozenset(["area"])                                     # ... of dimension length^2


def has_nonfinite(o):
    """does a (JSON-able) observation contain nan / inf, as "nan" / "inf" / "-inf" strings or as floats"""
    try:
        txt = json.dumps(o)
    except (TypeError, ValueError):
        return False
    return any(w in txt for w in ('"nan"', '"inf"', '"-inf"', "NaN", "Infinity"))


def _mul(v, s):
    if isinstance(v, list):
        return [_mul(x, s) for x in v]
    if isinstance(v, str) and v in NONFINITE:
        return v
    return q(F(v) * s)


def scale_obs(o, s):
    """an observation (implementation's or model's) with every length multiplied by s and every area by s^2
    (exact; integers, index lists, flags are left alone)"""
    if isinstance(o, dict):
        return {k: (_mul(v, s) if k in LEN1_KEYS else _mul(v, s * s) if k in LEN2_KEYS else scale_obs(v, s))
                for k, v in o.items()}
    if isinstance(o, list):
        return [scale_obs(x, s) for x in o]
    return o


def scale_shape(sp, U):
    o = dict(sp)
    for k in ("x", "y", "radius", "top", "bottom", "left", "right"):
        if k in o:
            o[k] = q(F(o[k]) * U)
    if "vertices" in o:
        o["vertices"] = [[q(F(a) * U), q(F(b) * U)] for a, b in o["vertices"]]
    return o


def scale_world(w, U):
    """the same world with every length multiplied by U (integer coordinates, index rows, flags unchanged)"""
    o = json.loads(json.dumps(w))
    for k in ("side", "x_offset", "y_offset"):
        if k in o:
            o[k] = q(F(o[k]) * U)
    if "vertices" in o:
        o["vertices"] = [[q(F(a) * U), q(F(b) * U)] for a, b in o["vertices"]]
    if "limits" in o:
        o["limits"] = {k: q(F(v) * U) for k, v in o["limits"].items()}
    if "shape" in o:
        o["shape"] = scale_shape(o["shape"], U)
    if "probe" in o:
        o["probe"] = [scale_shape(p, U) for p in o["probe"]]
    for op in o.get("ops", []):
        if not isinstance(op, dict):
            continue
        if "sel" in op:
            op["sel"] = scale_shape(op["sel"], U)
        if "edit" in op:
            op["edit"]["to"] = [q(F(v) * U) for v in op["edit"]["to"]]
        if "shape_edit" in op:
            for k in ("x", "y", "radius"):
                if k in op["shape_edit"]:
                    op["shape_edit"][k] = q(F(op["shape_edit"][k]) * U)
        if "fault" in op and "x" in op:
            op["x"], op["y"] = q(F(op["x"]) * U), q(F(op["y"]) * U)
    o["unit"] = q(F(o.get("unit", "1")) * U)
    return o


def lay(a, how):
    """an equal-valued array in another memory layout: F = Fortran order, strided = every other row / column
    of a larger buffer, neg = negative strides, wide = the leading columns of a wider C array, ro = read-only"""
    a = np.asarray(a)
    if how in (None, "C") or a.ndim == 0:
        return a
    if how == "ro":
        b = a.copy()
        b.setflags(write=False)
        return b
    if how == "F":
        return np.asfortranarray(a)
    if how == "neg":
        return a[::-1].copy()[::-1]
    if how == "T":     # a transposed view of the C-ordered transpose
        return np.ascontiguousarray(a.transpose()).transpose()
    if how == "wide":
        big = np.zeros(a.shape[:-1] + (a.shape[-1] + 2,), dtype=a.dtype)
        big[..., :a.shape[-1]] = a
        return big[..., :a.shape[-1]]
    if how == "strided":
        big = np.zeros(tuple(2 * n + 1 for n in a.shape[:1]) + tuple(2 * n for n in a.shape[1:]), dtype=a.dtype)
        sl = (slice(1, None, 2),) + tuple(slice(1, None, 2) for _ in a.shape[1:])
        big[sl] = a
        return big[sl]
    raise ValueError(f"unknown layout {how}")


# ------------------------------------------------------------------------------------------------
class C20(PropertyCheck):
    pid = "C20"
    title = "triangles"
    rtol = TOL
    nontrivial_rule = (
        "a case is non-trivial when the set has >=1 non-degenerate triangle and (for chains) at least one "
        "operation, or (for shapes) at least one triangle contains the reference point and one does not; "
        "distinct = distinct (representation, set, operation chain / shape)"
    )
    exhaustive_note = {
        "quick": "coordinate form: every single coordinate in [-2,2]^2 x both flip states x chains "
                 "{up, nb, up-up, up-nb, nb-up} (fixed side/offsets)",
        "thorough": "coordinate form: every single coordinate in [-3,3]^2 and every pair of edge-adjacent "
                    "coordinates in [-2,2]^2 x both flip states x 7 chains",
    }
    modelled_functions = [
        "autoarray/structures/triangles/abstract.py:AbstractTriangles.__init__",
        "autoarray/structures/triangles/abstract.py:AbstractTriangles.__len__",
        "autoarray/structures/triangles/abstract.py:AbstractTriangles.area",
        "autoarray/structures/triangles/abstract.py:AbstractTriangles._up_sample_triangle",
        "autoarray/structures/triangles/abstract.py:AbstractTriangles._neighborhood_triangles",
        "autoarray/structures/triangles/abstract.py:AbstractTriangles.for_limits_and_scale",
        "autoarray/structures/triangles/abstract.py:AbstractTriangles.for_grid",
        "autoarray/structures/triangles/array.py:ArrayTriangles.triangles",
        "autoarray/structures/triangles/array.py:ArrayTriangles.containing_indices",
        "autoarray/structures/triangles/array.py:ArrayTriangles.for_indexes",
        "autoarray/structures/triangles/array.py:ArrayTriangles.up_sample",
        "autoarray/structures/triangles/array.py:ArrayTriangles.neighborhood",
        "autoarray/structures/triangles/array.py:ArrayTriangles.with_vertices",
        "autoarray/structures/triangles/abstract_coordinate_array.py:AbstractCoordinateArray.__init__",
        "autoarray/structures/triangles/abstract_coordinate_array.py:AbstractCoordinateArray.triangles",
        "autoarray/structures/triangles/abstract_coordinate_array.py:AbstractCoordinateArray.centres",
        "autoarray/structures/triangles/abstract_coordinate_array.py:AbstractCoordinateArray.flip_mask",
        "autoarray/structures/triangles/abstract_coordinate_array.py:AbstractCoordinateArray.vertices",
        "autoarray/structures/triangles/abstract_coordinate_array.py:AbstractCoordinateArray.indices",
        "autoarray/structures/triangles/abstract_coordinate_array.py:AbstractCoordinateArray.for_limits_and_scale",
        "autoarray/structures/triangles/abstract_coordinate_array.py:AbstractCoordinateArray.area",
        "autoarray/structures/triangles/abstract_coordinate_array.py:AbstractCoordinateArray.__len__",
        "autoarray/structures/triangles/coordinate_array.py:CoordinateArrayTriangles.flip_array",
        "autoarray/structures/triangles/coordinate_array.py:CoordinateArrayTriangles.up_sample",
        "autoarray/structures/triangles/coordinate_array.py:CoordinateArrayTriangles.neighborhood",
        "autoarray/structures/triangles/coordinate_array.py:CoordinateArrayTriangles._vertices_and_indices",
        "autoarray/structures/triangles/coordinate_array.py:CoordinateArrayTriangles.with_vertices",
        "autoarray/structures/triangles/coordinate_array.py:CoordinateArrayTriangles.for_indexes",
        "autoarray/structures/triangles/coordinate_array.py:CoordinateArrayTriangles.containing_indices",
        "autoarray/structures/triangles/shape.py:Point.__init__",
        "autoarray/structures/triangles/shape.py:Point.mask",
        "autoarray/structures/triangles/shape.py:centroid",
        "autoarray/structures/triangles/shape.py:Circle.__init__",
        "autoarray/structures/triangles/shape.py:Circle.mask",
        "autoarray/structures/triangles/shape.py:Triangle.__init__",
        "autoarray/structures/triangles/shape.py:Triangle.mask",
        "autoarray/structures/triangles/shape.py:Triangle.triangle_contains_mask",
        "autoarray/structures/triangles/shape.py:Polygon.__init__",
        "autoarray/structures/triangles/shape.py:Polygon.mask",
        "autoarray/structures/triangles/shape.py:Square.__init__",
        "autoarray/structures/triangles/shape.py:Square.mask",
    ]
    trusted_extra = [
        "HEIGHT_FACTOR = 3**0.5/2 is a free parameter h of the theorems; the driver receives the double's "
        "exact rational value",
        "np.unique / fancy indexing glue: modelled (sort + de-duplicate + inverse), exact float equality of "
        "coincident vertices is NOT modelled (sets are compared at 1e-9, multiplicity only where the "
        "property fixes the count)",
        "ArrayTriangles.for_limits_and_scale (np.arange) is used as a generator only; jax variants out of scope",
    ]
    assumptions = [
        "finite coordinates; containment decisions within 1e-9 (normalised barycentric) of an edge are not "
        "compared unless the float computation is exact",
    ]

    CHAINS_Q = [["up"], ["nb"], ["up", "up"], ["up", "nb"], ["nb", "up"]]
    CHAINS_T = CHAINS_Q + [["nb", "nb"], ["up", "up", "nb"]]

    # ------------------------------------------------------------------ generation
    def generate(self, tier, rng):
        quick = tier == "quick"
        chains = self.CHAINS_Q if quick else self.CHAINS_T
        # 1. exhaustive single coordinates
        R = 2 if quick else 3
        for x in range(-R, R + 1):
            for y in range(-R, R + 1):
                for fl in (False, True):
                    for ch in chains:
                        yield self._coord_case("exh_single", [[x, y]], F(3, 2), F(1, 4), F(-1, 2), fl, ch)
        if not quick:
            for x in range(-2, 3):
                for y in range(-2, 3):
                    for dx, dy in ((1, 0), (0, 1)):
                        for fl in (False, True):
                            for ch in chains:
                                yield self._coord_case("exh_pair", [[x, y], [x + dx, y + dy]], F(1), F(0),
                                                       F(3, 8), fl, ch)
        # 2. random coordinate sets
        n = 120 if quick else 1200
        sides = [F(1, 4), F(1, 2), F(1), F(3, 2), F(2), F(3), F(5, 8)]
        for i in range(n):
            k = rng.randint(1, 10)
            span = rng.choice([2, 4, 9])
            coords = [[rng.randint(-span, span), rng.randint(-span, span)] for _ in range(k)]
            if rng.random() < 0.2 and k > 1:
                coords[-1] = list(coords[0])  # duplicate row
            side = rng.choice(sides)
            xo = gen.dyadic(rng, -4, 4, 3) if rng.random() < 0.7 else F(0)
            yo = gen.dyadic(rng, -4, 4, 3) if rng.random() < 0.7 else F(0)
            fl = rng.random() < 0.5
            ch = self._random_chain(rng, k)
            c = self._coord_case("rand_coord", coords, side, xo, yo, fl, ch)
            c["coord_dtype"] = ["int64", "int32", "float64", "int64"][i % 4]
            c["int_scalars"] = i % 2 == 0
            if i % 3 == 0:
                c["shape"] = self._shape_for(rng, [coord_triangle(x, y, side, xo, yo, fl) for x, y in coords])
                c["ops"] = [] if rng.random() < 0.6 else ["up"]
                c["tag"] = "rand_coord_shape_" + c["shape"]["kind"]
            yield c
        # 3. coordinate sets from limits and scale
        n = 40 if quick else 300
        for i in range(n):
            x0, y0 = gen.dyadic(rng, -3, 3, 2), gen.dyadic(rng, -3, 3, 2)
            w, hh = gen.pos_dyadic(rng, 1, 3, 2), gen.pos_dyadic(rng, 1, 3, 2)
            scale = rng.choice([F(1, 2), F(1), F(3, 2), F(2), F(3, 4)])
            ch = rng.choice([[], ["up"], ["nb"], ["up", "nb"]])
            c = {"tag": "coord_limits", "kind": "coord", "limits":
                 {"x_min": q(x0), "x_max": q(x0 + w), "y_min": q(y0), "y_max": q(y0 + hh), "scale": q(scale)},
                 "ops": ch}
            if i % 4 == 0:
                c["shape"] = self._shape_for(rng, [coord_triangle(0, 0, scale, F(0), F(0), False)])
                c["ops"] = []
            yield c
        # 4. vertex-array sets
        n = 120 if quick else 1200
        for i in range(n):
            nv = rng.randint(3, 9)
            verts = [[gen.dyadic(rng, -8, 8, 3), gen.dyadic(rng, -8, 8, 3)] for _ in range(nv)]
            if rng.random() < 0.2:
                verts[-1] = list(verts[0])  # coincident vertices with different indices
            nt = rng.randint(1, 7)
            idx = []
            for _ in range(nt):
                if rng.random() < 0.1:
                    a = rng.randrange(nv)
                    idx.append([a, a, rng.randrange(nv)])  # degenerate
                else:
                    idx.append(rng.sample(range(nv), 3))
            if rng.random() < 0.3 and nt > 1:
                # a neighbour pair sharing an edge (reflection of one vertex)
                a, b, c = idx[0]
                verts.append([verts[b][0] + verts[c][0] - verts[a][0], verts[b][1] + verts[c][1] - verts[a][1]])
                idx[1] = [len(verts) - 1, c, b]
            ch = self._random_chain(rng, nt)
            c = {"tag": "rand_arr", "kind": "arr", "vertices": [[q(a), q(b)] for a, b in verts],
                 "indices": idx, "ops": ch}
            if i % 4 == 1:
                verts = [[F(round(a)), F(round(b))] for a, b in verts]
                c["vertices"] = [[q(a), q(b)] for a, b in verts]
                c["vert_form"] = "int64"
                c["int_scalars"] = True
                c["tag"] = "rand_arr_int64"
            elif i % 4 == 2:
                c["vert_form"] = "float32"   # dyadic, |v| <= 16 with 3 fractional bits: exact in float32
            if i % 3 == 0:
                ts = [tuple((F(verts[j][0]), F(verts[j][1])) for j in tr) for tr in idx]
                c["shape"] = self._shape_for(rng, ts)
                c["ops"] = []
                c["tag"] = "rand_arr_shape_" + c["shape"]["kind"]
            yield c
        # 4b. round-3 hardening: every index-subset form x both representations (seed independent),
        #     integer-dtype / float32 vertices and coordinates, int scalars, empty and for_grid sets
        coords6 = [[0, 0], [1, 0], [1, 1], [-2, 1], [3, -2], [0, -1]]
        verts6 = [["0", "0"], ["4", "0"], ["0", "4"], ["4", "4"], ["-2", "1"], ["1", "-3"]]
        idx6 = [[0, 1, 2], [1, 3, 2], [4, 0, 2], [5, 1, 0], [4, 5, 3]]
        sels = {"int64": [4, 1, 1], "int32": [0, 3], "list": [2, 2, 0], "bool": [1, 2], "bool_list": [0, 1, 4],
                "empty": []}
        for form, sel in sels.items():
            for tail in ([], ["up"], ["nb"]):
                op = {"idx": sel, "form": form}
                for k, vform in enumerate(["float64", "int64", "float32"]):
                    yield {"tag": f"idxform_arr_{form}", "kind": "arr", "vertices": verts6, "indices": idx6,
                           "ops": [op] + tail, "vert_form": vform, "index_dtype": "int32" if k == 1 else "int64"}
                for k, cdt in enumerate(["int64", "int32", "float64"]):
                    c = self._coord_case(f"idxform_coord_{form}", coords6, F(2), F(1), F(-3), k == 2, [op] + tail)
                    c["coord_dtype"] = cdt
                    c["int_scalars"] = k != 1
                    yield c
        for ch in ([], ["up"], ["nb"], [{"idx": [], "form": "list"}]):
            yield self._coord_case("empty_coord_set", [], F(1), F(0), F(0), False, ch)
            yield {"tag": "empty_arr_set", "kind": "arr", "vertices": verts6, "indices": [], "ops": ch}
        # (a 1x1 grid / zero-extent limits box yields NO triangle and a float `indices` array whose
        #  `.triangles` raises IndexError: not a triangle set, outside the quantifier — see design note)
        for (h_, w_), ps_ in (((3, 3), "1"), ((2, 4), "1/2"), ((2, 2), "2")):
            for ch in (["up"], ["nb"], [{"idx": [0], "form": "bool_list"}]):
                yield {"tag": "arr_for_grid", "kind": "arr", "grid": {"shape": [h_, w_], "ps": ps_}, "ops": ch}
        # 5. vertex-array sets from limits and scale
        n = 25 if quick else 200
        for i in range(n):
            y0, x0 = gen.dyadic(rng, -2, 2, 2), gen.dyadic(rng, -2, 2, 2)
            hh, w = gen.pos_dyadic(rng, 2, 2, 2), gen.pos_dyadic(rng, 2, 2, 2)
            scale = rng.choice([F(1, 2), F(1), F(3, 4)])
            yield {"tag": "arr_limits", "kind": "arr", "limits":
                   {"y_min": q(y0), "y_max": q(y0 + hh), "x_min": q(x0), "x_max": q(x0 + w), "scale": q(scale)},
                   "ops": rng.choice([["up"], ["nb"], ["up", "nb"], [{"idx": [0]}, "up"]])}
        # 6.-8. round-4 hardening: coordinate magnitude, refinement depth, histories on reused objects
        yield from self._magnitude_stream(tier, rng)
        yield from self._deep_stream(tier, rng)
        yield from self._history_stream(tier, rng)
        # 9.-13. round-5/6 hardening (DESIGN §14): decades, ownership histories, containers / layouts,
        #        constructor options, always-on large sets
        yield from self._decades_stream(tier, rng)
        yield from self._own_stream(tier, rng)
        yield from self._layout_stream(tier, rng)
        yield from self._options_stream(tier, rng)
        yield from self._big_always(tier, rng)

    IDX_FORMS = ["int64", "int32", "list", "bool", "bool_list", "empty"]

    def _idx_op(self, rng, n, form=None, kmax=None):
        """an index-subset operation in one of the forms numpy fancy indexing accepts on axis 0:
        integer ndarray (int64 / int32), Python list of ints, boolean mask (ndarray / list), empty."""
        form = form or rng.choice(self.IDX_FORMS)
        if form == "empty" or n == 0:
            return {"idx": [], "form": "empty" if form in ("empty", "bool", "bool_list") else form}
        k = rng.randint(1, max(1, min(n, kmax or n)))
        if form in ("bool", "bool_list"):
            return {"idx": sorted(rng.sample(range(n), k)), "form": form}
        return {"idx": [rng.randrange(n) for _ in range(k)], "form": form}

    def _random_chain(self, rng, n):
        r = rng.random()
        if r < 0.12:
            return ["up"]
        if r < 0.24:
            return ["nb"]
        if r < 0.32:
            return ["up", "up"]
        if r < 0.44:
            return ["up", "nb"]
        if r < 0.52:
            return ["nb", "up"]
        if r < 0.58:
            return ["nb", "nb"]
        if r < 0.72:
            return [self._idx_op(rng, n)]
        if r < 0.88:
            return [self._idx_op(rng, n), rng.choice(["up", "nb"])]
        return ["up", self._idx_op(rng, 4 * n, kmax=5), "nb"]

    def _coord_case(self, tag, coords, side, xo, yo, fl, ch):
        return {"tag": tag, "kind": "coord", "coords": coords, "side": q(side), "x_offset": q(xo),
                "y_offset": q(yo), "flipped": bool(fl), "ops": ch}

    def _shape_for(self, rng, ts):
        """a shape whose reference point is placed relative to one of the triangles `ts`."""
        t = ts[rng.randrange(len(ts))]
        r = rng.random()
        if r < 0.25:
            w = rng.choice([(F(1, 2), F(1, 2), F(0)), (F(1), F(0), F(0)), (F(0), F(1, 4), F(3, 4)),
                            (F(0), F(0), F(1))])   # on an edge / at a vertex
        elif r < 0.7:
            a = F(rng.randint(1, 6), 8)
            b = F(rng.randint(0, 8 - int(a * 8)), 8)
            w = (a, b, 1 - a - b)                   # inside (possibly on an edge)
        elif r < 0.85:
            w = (F(1, 2) + F(1, 2**20), F(1, 2) - F(1, 2**20) - F(1, 2**21), F(1, 2**21))  # hugging an edge
        else:
            w = (F(rng.randint(-8, 16), 8), F(rng.randint(-8, 16), 8), 0)
            w = (w[0], w[1], 1 - w[0] - w[1])       # anywhere (often outside)
        px = sum(w[i] * t[i][0] for i in range(3))
        py = sum(w[i] * t[i][1] for i in range(3))
        px, py = F(float(px)), F(float(py))
        kind = rng.choice(["point", "point", "circle", "square", "polygon"])
        if kind == "point":
            return {"kind": "point", "x": q(px), "y": q(py)}
        if kind == "circle":
            rad = rng.choice([F(0), F(1, 64), F(1, 4), F(1), F(3)])
            return {"kind": "circle", "x": q(px), "y": q(py), "radius": q(rad)}
        if kind == "square":
            hw, hh = rng.choice([F(1, 128), F(1, 8), F(1), F(2)]), rng.choice([F(1, 128), F(1, 8), F(1)])
            return {"kind": "square", "top": q(py - hh), "bottom": q(py + hh), "left": q(px - hw),
                    "right": q(px + hw)}
        # polygon with mean exactly (px,py): symmetric offsets
        k = rng.randint(3, 6)
        offs = [(gen.dyadic(rng, -2, 2, 3), gen.dyadic(rng, -2, 2, 3)) for _ in range(k - 1)]
        last = (-sum(o[0] for o in offs), -sum(o[1] for o in offs))
        offs.append(last)
        sc = rng.choice([F(1, 64), F(1, 4), F(1)])
        return {"kind": "polygon", "vertices": [[q(px + sc * a), q(py + sc * b)] for a, b in offs]}

    # ------------------------------------------------------------------ round 4: generators
    # (A) coordinate MAGNITUDE: integer coordinates near the limits of narrower number formats.  The buffers
    #     of up_sample / neighborhood hold 2c, 2c+-1, c+-1: exact in float64 up to 2^53, in float32 only up
    #     to 2^24, in int32 up to 2^31.  |c| <= 2^52-16 so that the as-is float64 buffers are exact.
    MAG_LIMIT = 2 ** 52 - 16
    MAG_FIXED = [2 ** 23 - 2, 2 ** 23 + 1, 2 ** 24 - 3, 2 ** 24 + 1, 2 ** 31 - 2, 2 ** 31 + 1, 2 ** 32 + 5,
                 2 ** 40 + 3, 2 ** 52 - 21]
    MAG_CHAINS = [["up"], ["nb"], ["up", "nb"], ["nb", "up"], [{"idx": [1, 0, 2, 2], "form": "int64"}, "up"],
                  ["nb", "nb"], ["up", "up"], [{"idx": [0, 3], "form": "bool"}, "nb"]]

    def _mag_cases(self, rng, mags, tag):
        k = 0
        for M0 in mags:
            M = min(int(M0), self.MAG_LIMIT)
            for axis in ("x", "y", "xy"):
                if axis == "xy":       # flip_mask adds x + y in the coordinates' own float64: |2x| + |2y| < 2^53
                    M = min(M, 2 ** 51 - 16)
                for fl in (False, True):
                    sgn = 1 if k % 2 == 0 else -1
                    m2 = M // 3 + 5
                    base = {"x": [[M, 3], [M + 1, 3], [M + 2, 4], [M - 1, -7], [M + 5, 4]],
                            "y": [[3, M], [4, M], [4, M + 1], [-7, M - 1], [6, M + 2]],
                            "xy": [[M, m2], [M + 1, m2], [M + 1, m2 + 1], [M - 2, m2 - 1], [M + 4, m2 + 3]]}[axis]
                    coords = [[sgn * a, sgn * b] for a, b in base]
                    side = [F(1), F(1, 2), F(3, 2), F(2)][k % 4]
                    chains = [c for c in self.MAG_CHAINS if not (M > 2 ** 49 and c == ["up", "up"])]
                    ch = chains[k % len(chains)]
                    # x is scaled by the dyadic side/2: an exactly cancelling offset brings the set back to
                    # the origin, where 1e-9 resolves the triangles (only while side/2*M is an exact double)
                    cancel = axis == "x" and M < 2 ** 40 and k % 3 != 1
                    xo = -(side / 2) * sgn * M + F(1, 4) if cancel else gen.dyadic(rng, -4, 4, 3)
                    yo = gen.dyadic(rng, -4, 4, 3)
                    c = self._coord_case(f"{tag}_{axis}", coords, side, xo, yo, fl, ch)
                    c["coord_dtype"] = "float64" if k % 3 == 1 else "int64"
                    c["int_scalars"] = k % 2 == 0
                    if k % 4 == 3:
                        t = coord_triangle(coords[0][0], coords[0][1], side, xo, yo, fl)
                        px = F(float((t[0][0] * 2 + t[1][0] + t[2][0]) / 4))
                        py = F(float((t[0][1] * 2 + t[1][1] + t[2][1]) / 4))
                        c["probe"] = [{"kind": "point", "x": q(px), "y": q(py)}]
                        c["probe_pos"] = "first"
                    k += 1
                    yield c

    def _magnitude_stream(self, tier, rng):
        mags = self.MAG_FIXED if tier == "quick" else self.MAG_FIXED + [2 ** 23, 2 ** 24, 2 ** 24 + 2, 2 ** 30 + 1,
                                                                        2 ** 31, 2 ** 36 + 7, 2 ** 48 + 1, 2 ** 51 + 9]
        yield from self._mag_cases(rng, mags, "mag")

    # (B) DEPTH: the refinement loop of a point solver — keep the triangles containing the point, (add the
    #     neighbours,) up-sample — repeated; the integer coordinates double at every level.
    def _deep_case(self, rng, levels, tag, with_nb, from_limits):
        # at least half a unit from the lattice origin on both axes, so that the coordinates really double per level
        px = rng.choice([-1, 1]) * (F(1, 2) + gen.dyadic(rng, 0, 2, 10) + F(1, 2 ** 12))
        py = rng.choice([-1, 1]) * (F(1, 2) + gen.dyadic(rng, 0, 2, 10) + F(1, 2 ** 13))
        if not from_limits:
            xo0, yo0 = gen.dyadic(rng, -2, 2, 3), gen.dyadic(rng, -2, 2, 3)
            px, py = px + xo0, py + yo0
        pt = {"kind": "point", "x": q(px), "y": q(py)}
        ops = []
        for lv in range(levels):
            ops.append({"sel": pt})
            if with_nb and lv % with_nb == 1:
                ops += ["nb", {"sel": pt}]
            ops.append("up")
        ops.append({"sel": pt})
        if from_limits:
            sc = rng.choice([F(1), F(1, 2), F(3, 2)])
            return {"tag": tag, "kind": "coord", "limits": {"x_min": q(px - 1), "x_max": q(px + 1), "y_min": q(py - 1),
                                                            "y_max": q(py + 1), "scale": q(sc)}, "ops": ops,
                    "probe": [pt], "probe_pos": "first"}
        side = rng.choice([F(1), F(3, 2), F(2)])
        xo, yo = xo0, yo0
        fl = rng.random() < 0.5
        cx, cy = int((px - xo) / (side / 2)), int((py - yo) / (H * side))
        coords = [[x, y] for x in range(cx - 2, cx + 3) for y in range(cy - 2, cy + 3)]
        c = self._coord_case(tag, coords, side, xo, yo, fl, ops)
        c["probe"], c["probe_pos"] = [pt], "last"
        return c

    def _deep_stream(self, tier, rng):
        plan = [(27, 0, True), (31, 3, False)] if tier == "quick" else \
            [(23, 0, True), (25, 2, False), (27, 0, False), (29, 3, True), (31, 4, False), (33, 0, True),
             (36, 5, False), (40, 0, True)]
        for levels, with_nb, lim in plan:
            yield self._deep_case(rng, levels, f"deep_{levels}", with_nb, lim)

    # (C) HISTORIES on real, reused objects
    def _rand_coord_world(self, rng, kmin=2, kmax=8):
        k = rng.randint(kmin, kmax)
        span = rng.choice([2, 4, 9])
        coords = [[rng.randint(-span, span), rng.randint(-span, span)] for _ in range(k)]
        side = rng.choice([F(1, 4), F(1, 2), F(1), F(3, 2), F(2), F(3), F(5, 8)])
        xo = gen.dyadic(rng, -4, 4, 3) if rng.random() < 0.7 else F(0)
        yo = gen.dyadic(rng, -4, 4, 3) if rng.random() < 0.7 else F(0)
        c = self._coord_case("hist", coords, side, xo, yo, rng.random() < 0.5, [])
        c["coord_dtype"] = rng.choice(["int64", "int64", "int32", "float64"])
        return c

    def _rand_arr_world(self, rng):
        nv = rng.randint(4, 9)
        verts = [[gen.dyadic(rng, -8, 8, 3), gen.dyadic(rng, -8, 8, 3)] for _ in range(nv)]
        nt = rng.randint(2, 7)
        idx = [rng.sample(range(nv), 3) for _ in range(nt)]
        return {"tag": "hist", "kind": "arr", "vertices": [[q(a), q(b)] for a, b in verts], "indices": idx, "ops": []}

    @staticmethod
    def _world_tris(c):
        """exact stage-0 triangles of an explicit world"""
        if c["kind"] == "coord":
            return [coord_triangle(x, y, F(c["side"]), F(c["x_offset"]), F(c["y_offset"]), c["flipped"])
                    for x, y in c["coords"]]
        vs = [(F(a), F(b)) for a, b in c["vertices"]]
        return [tuple(vs[i] for i in r) for r in c["indices"]]

    @staticmethod
    def _pt(t, w):
        px = F(float(sum(w[i] * t[i][0] for i in range(3))))
        py = F(float(sum(w[i] * t[i][1] for i in range(3))))
        return {"kind": "point", "x": q(px), "y": q(py)}

    def _inner_point(self, rng, t):
        a = F(rng.randint(2, 5), 8) + F(1, 64)
        b = F(rng.randint(1, 2), 8) + F(1, 128)
        return self._pt(t, (a, b, 1 - a - b))

    def _hug_pair(self, t):
        """two points ~1e-6 apart (inside np.allclose's default tolerance, far outside 1e-9) on either side
        of an edge of t: the first inside, the second outside"""
        e = F(1, 2 ** 21)
        return [self._pt(t, (F(1, 2) + 2 * e, F(1, 2) - 3 * e, e)), self._pt(t, (F(1, 2) + 2 * e, F(1, 2) - e, -e))]

    def _hist_chain(self, rng, n):
        r = rng.random()
        perm = list(range(n))
        rng.shuffle(perm)
        sub = {"idx": perm[:max(1, (n + 1) // 2)] + [perm[0]], "form": rng.choice(["int64", "list", "int32"])}
        if r < 0.2:
            return [sub]
        if r < 0.35:
            return ["nb"]
        if r < 0.5:
            return [sub, "nb"]
        if r < 0.6:
            return ["nb", {"idx": [2, 0, 1], "form": "list"}]
        if r < 0.7:
            return ["up", "nb"]
        if r < 0.8:
            return [{"idx": sorted(perm[:max(1, n // 2)]), "form": "bool"}, "up"]
        if r < 0.9:
            return ["nb", "nb"]
        return [sub, "up", {"idx": [3, 1], "form": "int64"}]

    def _perturbed(self, rng, w):
        """a near-duplicate twin of a world: one parameter moved by ~2^-18 relative (exact doubles)"""
        t = json.loads(json.dumps(w))
        e = F(1, 2 ** 18)
        if w["kind"] == "coord":
            key = rng.choice(["side", "x_offset", "y_offset", "side"])
            v = F(w[key])
            t[key] = q(v * (1 + e) if v != 0 else F(1, 2 ** 33))
        else:
            i, j = rng.randrange(len(w["vertices"])), rng.randrange(2)
            v = F(w["vertices"][i][j])
            t["vertices"][i][j] = q(v * (1 + e) if v != 0 else F(1, 2 ** 33))
        return t

    def _history_stream(self, tier, rng):
        quick = tier == "quick"
        mk = lambda: self._rand_coord_world(rng) if rng.random() < 0.6 else self._rand_arr_world(rng)  # noqa: E731

        # H1. containing_indices of probe shapes at EVERY stage of a chain (before deriving, on the derived
        #     set, ...), the query before or after the other reads, with / without decoy reads of every other
        #     derived quantity and sibling operation; near-duplicate probe pairs on either side of an edge
        for i in range(50 if quick else 450):
            c = mk()
            ts = self._world_tris(c)
            t = ts[rng.randrange(len(ts))]
            if area2(t) == 0:
                continue
            if i % 3 == 0:
                c["probe"] = self._hug_pair(t)
            elif i % 3 == 1:
                c["probe"] = [self._inner_point(rng, t)]
            else:
                c["probe"] = [self._shape_for(rng, ts), self._inner_point(rng, t)]
            c["probe_pos"] = "first" if i % 2 == 0 else "last"
            if i % 4 == 1:
                c["decoy"] = "a" if i % 8 == 1 else "b"
            c["ops"] = self._hist_chain(rng, len(ts))
            c["tag"] = f"hist_probe_{c['kind']}"
            yield c
        # H2. short refinement loops: select by shape, derive, select again on the derived set
        for i in range(16 if quick else 150):
            c = mk()
            ts = self._world_tris(c)
            t = ts[rng.randrange(len(ts))]
            if area2(t) == 0:
                continue
            pt = self._inner_point(rng, t)
            c["ops"] = rng.choice([[{"sel": pt}, "up", {"sel": pt}], ["nb", {"sel": pt}, "nb", {"sel": pt}],
                                   [{"sel": pt}, "nb", {"sel": pt}, "up", {"sel": pt}],
                                   ["up", {"sel": pt}, "nb", "up", {"sel": pt}]])
            if i % 2:
                c["probe"], c["probe_pos"] = [pt], "first"
            c["tag"] = f"hist_select_{c['kind']}"
            yield c
        # H3. near-duplicate twins (same calls, one parameter moved by ~4e-6 relative; tiny sets moved by
        #     ~1e-10 absolute), sharing the probe shape objects; H4. two different worlds sharing the shape
        #     objects, and branches from one shared root object — each in both orders and interleaved
        for i in range(36 if quick else 320):
            a = mk()
            ts = self._world_tris(a)
            t = ts[rng.randrange(len(ts))]
            if area2(t) == 0:
                continue
            mode = i % 3
            probe = self._hug_pair(t) if i % 2 else [self._inner_point(rng, t)]
            a["ops"] = self._hist_chain(rng, len(ts))
            a["probe"] = probe
            if mode == 0 and i % 12 == 3:   # twins of the constructor from limits and scale
                sc = rng.choice([F(1), F(1, 2), F(3, 2)])
                x0, y0 = gen.dyadic(rng, -3, 3, 2), gen.dyadic(rng, -3, 3, 2)
                lim = {"x_min": q(x0), "x_max": q(x0 + 1), "y_min": q(y0), "y_max": q(y0 + 1), "scale": q(sc)}
                probe = self._hug_pair(coord_triangle(int(2 * x0 / sc) + 1, int(y0 / (H * sc)) + 1, sc, F(0), F(0), False))
                a = {"tag": "hist", "kind": "coord", "limits": lim, "ops": rng.choice([["nb"], ["up"], []]),
                     "probe": probe}
                b = json.loads(json.dumps(a))
                key = rng.choice(["scale", "x_min", "y_max", "scale"])
                v = F(lim[key])
                b["limits"][key] = q(v * (1 + F(1, 2 ** 18)) if v != 0 else F(1, 2 ** 20))
                worlds, tag, share_root = [a, b], "hist_twins_limits", False
            elif mode == 0:      # twins
                if i % 4 == 0 and a["kind"] == "coord":   # tiny world: ~1e-10 absolute differences
                    a["side"], a["x_offset"], a["y_offset"] = q(F(a["side"]) / 2 ** 30), q(F(a["x_offset"]) / 2 ** 30), \
                        q(F(a["y_offset"]) / 2 ** 30)
                    t = self._world_tris(a)[0]
                    a["probe"] = probe = self._hug_pair(t)
                b = self._perturbed(rng, a)
                worlds, tag, share_root = [a, b], "hist_twins", False
            elif mode == 1:    # different worlds, shared shape objects
                b = mk()
                b["ops"] = self._hist_chain(rng, len(self._world_tris(b)))
                b["probe"] = probe
                worlds, tag, share_root = [a, b], "hist_shared_shapes", False
            else:              # branches of one root object: sibling operations in both orders
                b = json.loads(json.dumps(a))
                b["ops"] = self._hist_chain(rng, len(ts))
                c3 = json.loads(json.dumps(a))
                c3["ops"] = ["up"] if "up" not in a["ops"] else ["nb"]
                worlds, tag, share_root = [a, b, c3], "hist_branches", True
                for w in worlds:
                    w["probe_pos"] = "first"
            yield {"tag": tag, "kind": "multi", "worlds": worlds, "order": ["seq", "rev", "interleave"][(i // 3) % 3],
                   "share_shapes": True, "share_root": share_root}
        # H5. fault, then reuse of the same objects
        for i in range(24 if quick else 200):
            c = mk()
            ts = self._world_tris(c)
            t = ts[rng.randrange(len(ts))]
            if area2(t) == 0:
                continue
            pt = self._inner_point(rng, t)
            # the query that follows a fault differs from the one before it (another triangle, or outside)
            others = [u for u in ts if area2(u) != 0 and set(u) != set(t)]
            fpt = self._inner_point(rng, others[rng.randrange(len(others))]) if others and i % 8 != 7 else \
                self._pt(t, (F(3, 2), F(-1, 4), F(-1, 4)))
            fault = [{"fault": "idx_oob"}, {"fault": "idx_oob_list"}, {"fault": "bad_vertices"},
                     {"fault": "flaky_shape", "x": fpt["x"], "y": fpt["y"]}][i % 4]
            tail = self._hist_chain(rng, len(ts))
            c["ops"] = [[fault] + tail, tail[:1] + [fault] + tail[1:], [fault, fault] + tail][i % 3]
            c["probe"], c["probe_pos"] = [fpt, pt], ("first" if i % 2 else "last")
            if i % 5 == 0:
                c["readonly"] = True
            c["tag"] = f"hist_fault_{fault['fault']}"
            yield c
        # H6. in-place edits: a vertex of a vertex-array set (caller-visible array), attributes of a Point /
        #     Circle probe object — the next read must be that of a fresh object in the edited state
        for i in range(24 if quick else 200):
            if i % 2 == 0:
                c = self._rand_arr_world(rng)
                nv = len(c["vertices"])
                ed = lambda: {"edit": {"v": rng.randrange(nv), "to": [q(gen.dyadic(rng, -8, 8, 3)),  # noqa: E731
                                                                      q(gen.dyadic(rng, -8, 8, 3))]}}
                c["ops"] = [[ed(), "up"], [ed(), "nb"], [ed(), ed(), {"idx": [1, 0], "form": "list"}],
                            [{"idx": [1, 0], "form": "list"}, ed(), "up"]][(i // 2) % 4]
                if c["ops"][0] != {"idx": [1, 0], "form": "list"}:
                    pass
                else:   # after a selection the vertex table is the selection's own: at most 6 rows
                    c["ops"][1]["edit"]["v"] = 0
                ts = self._world_tris(c)
                c["probe"] = [self._shape_for(rng, ts)]
                c["decoy"] = "a" if i % 4 == 0 else None
                c["tag"] = "hist_edit_vertices"
            else:
                c = mk()
                ts = self._world_tris(c)
                t, t2 = ts[rng.randrange(len(ts))], ts[rng.randrange(len(ts))]
                if area2(t) == 0 or area2(t2) == 0:
                    continue
                p1, p2 = self._inner_point(rng, t), self._inner_point(rng, t2)
                if i % 4 == 1:
                    c["probe"] = [p1]
                    e = {"shape_edit": {"i": 0, "x": p2["x"], "y": p2["y"]}}
                else:
                    c["probe"] = [{"kind": "circle", "x": p1["x"], "y": p1["y"], "radius": "1/64"}]
                    e = {"shape_edit": {"i": 0, "x": p2["x"], "radius": rng.choice(["0", "1/2", "2"])}}
                hug = self._hug_pair(t)
                e2 = {"shape_edit": {"i": 0, "x": hug[1]["x"], "y": hug[1]["y"]}}
                c["ops"] = [[e, "nb"], [e, e2], ["up", e, e2], [e2, {"idx": [0], "form": "list"}, e]][(i // 2) % 4]
                c["probe_pos"] = "first" if i % 4 == 1 else "last"
                c["tag"] = "hist_edit_shape"
            c = {k: v for k, v in c.items() if v is not None}
            yield c

    # ------------------------------------------------------------------ round 5/6: generators (DESIGN §14)
    # (R5-A / R5-E) DECADES.  An ordinary world with every length multiplied by 2^k (exact in binary floating
    # point: the implementation's float results scale exactly too, so nothing new is demanded of the code) —
    # judged in units of 2^k.  A tolerance / rounding / shortcut written in absolute terms (isclose, allclose,
    # round(.., 8), `< 1e-12`) is harmless at unit scale and wrong a few decades away.  |k| <= 450 keeps every
    # squared quantity (areas, barycentric denominators, r^2) a normal double (2^-1022 < 2^-900-12, 2^908 < 2^1023).
    DEC_K_QUICK = [-450, -300, -150, -100, -64, -45, -40, -33, -30, -27, -24, -20, -17, -14, -10, -7, -4,
                   4, 7, 10, 14, 17, 20, 24, 27, 30, 33, 40, 45, 64, 100, 150, 300, 450]
    DEC_K_THOROUGH = sorted(set(range(-46, 47)) | {s * k for s in (1, -1) for k in
                                                   (52, 60, 64, 80, 100, 120, 150, 200, 250, 300, 350, 400, 450)})
    DEC_CHAINS = [["up"], ["nb"], ["up", "nb"], ["nb", "up"], ["up", "up"]]

    @staticmethod
    def _fx(v):
        """the double nearest to an exact value, as an exact value (what the implementation will receive)"""
        return F(float(v))

    def _dec_probes(self, rng, ts, mode):
        """probe shapes placed relative to the (unit-scale) triangles ts"""
        good = [t for t in ts if area2(t) != 0]
        if not good:
            return []
        t = good[rng.randrange(len(good))]
        if mode == 0:
            return self._hug_pair(t)
        if mode == 1:
            e = F(1, 2 ** rng.choice([20, 24, 26]))     # hugging an edge from inside / outside at 2^-20 .. 2^-26
            return [self._pt(t, (F(1, 2) + 2 * e, F(1, 2) - 3 * e, e)), self._pt(t, (F(1, 4), F(3, 4) + e, -e)),
                    self._inner_point(rng, t)]
        p = self._inner_point(rng, t)
        px, py = F(p["x"]), F(p["y"])
        j = rng.choice([-40, -30, -20, -10, -3, 0, 2, 10, 20, 30, 40])    # the shape's own size: 2^j world units
        r = F(2) ** j
        kind = rng.choice(["circle", "square", "polygon"])
        if kind == "circle":
            sp = {"kind": "circle", "x": q(px), "y": q(py), "radius": q(r * rng.choice([1, 3]))}
        elif kind == "square":
            ha, hb = r * rng.choice([1, 3]), r * rng.choice([1, 3])
            sp = {"kind": "square", "top": q(self._fx(py - ha)), "bottom": q(self._fx(py + ha)),
                  "left": q(self._fx(px - hb)), "right": q(self._fx(px + hb))}
        else:
            k = rng.randint(3, 5)
            offs = [(gen.dyadic(rng, -2, 2, 3), gen.dyadic(rng, -2, 2, 3)) for _ in range(k - 1)]
            offs.append((-sum(o[0] for o in offs), -sum(o[1] for o in offs)))
            sp = {"kind": "polygon", "vertices": [[q(self._fx(px + r * a)), q(self._fx(py + r * b))] for a, b in offs]}
        return [sp, p]

    def _dec_chain(self, rng, n, probes):
        r = rng.random()
        if r < 0.45:
            return list(rng.choice(self.DEC_CHAINS))
        if r < 0.7:
            return [self._idx_op(rng, n, form=rng.choice(["int64", "list", "bool", "int32"])), rng.choice(["up", "nb"])]
        pts = [p for p in probes if p["kind"] == "point"]
        if not pts:
            return ["up"]
        return [{"sel": pts[-1]}, "up", {"sel": pts[-1]}] if r < 0.85 else ["nb", {"sel": pts[-1]}, "up"]

    def _sliver_world(self, rng):
        """a vertex-array set with NEARLY coincident vertices (2^-20 / 2^-23 apart — far outside 1e-9, inside
        np.isclose / np.allclose defaults) and NEARLY degenerate triangles built on them"""
        e = F(1, 2 ** rng.choice([20, 23]))
        while True:
            a = (gen.dyadic(rng, -6, 6, 2), gen.dyadic(rng, -6, 6, 2))
            b = (a[0] + rng.choice([-3, -2, 2, 3]), a[1] + gen.dyadic(rng, -2, 2, 1))
            c = (a[0] + gen.dyadic(rng, -2, 2, 1), a[1] + rng.choice([-4, -3, 3, 4]))
            d = (c[0] + rng.choice([-2, 2]), c[1] + rng.choice([-1, 1]) * F(3, 2))
            a2 = (a[0] + e, a[1]) if rng.random() < 0.5 else (a[0], a[1] - e)      # twin of a
            if orient(a, b, c) != 0 and orient(a, c, d) != 0 and orient(b, c, d) != 0 and orient(a, a2, d) != 0 \
                    and orient(a2, b, c) != 0:
                break
        nrm = (-(b[1] - a[1]), b[0] - a[0])
        apex = ((a[0] + b[0]) / 2 + e * nrm[0] / 2, (a[1] + b[1]) / 2 + e * nrm[1] / 2)   # sliver over the edge ab
        verts = [a, b, c, a2, apex, d]
        idx = [[0, 1, 2], [3, 1, 2], [0, 1, 4], [0, 3, 5], [2, 5, 1]]
        w = {"tag": "dec_sliver", "kind": "arr", "vertices": [[q(x), q(y)] for x, y in verts], "indices": idx, "ops": []}
        ts = self._world_tris(w)
        # probes: well inside the ordinary triangle, well inside the sliver, well inside the needle
        w["probe"] = [self._pt(ts[0], (F(3, 8) + F(1, 64), F(1, 4) + F(1, 128), F(3, 8) - F(3, 128))),
                      self._pt(ts[2], (F(1, 4) + F(1, 64), F(1, 4), F(1, 2) - F(1, 64))),
                      self._pt(ts[3], (F(1, 4), F(1, 4) + F(1, 32), F(1, 2) - F(1, 32)))][:rng.randint(2, 3)]
        w["ops"] = rng.choice([["up"], ["nb"], [{"idx": [2, 0, 3], "form": "list"}, "nb"], [{"idx": [1, 3], "form": "int64"}, "up"],
                               [{"sel": w["probe"][1]}, "up"], []])
        return w

    def _far_world(self, rng):
        """an ordinary world whose origin / centre is 2^8 .. 2^20 world units away from zero"""
        j = rng.choice([8, 12, 16, 20])
        ox = rng.choice([-1, 1]) * F(2) ** j * (1 + gen.dyadic(rng, 0, 3, 2))
        oy = rng.choice([-1, 1]) * F(2) ** rng.choice([j, j, 0]) * (1 + gen.dyadic(rng, 0, 3, 2))
        if rng.random() < 0.55:
            w = self._rand_coord_world(rng, 2, 6)
            w["coord_dtype"] = "int64"
            w["x_offset"], w["y_offset"] = q(F(w["x_offset"]) + ox), q(F(w["y_offset"]) + oy)
        else:
            w = self._rand_arr_world(rng)
            w["vertices"] = [[q(F(a) + ox), q(F(b) + oy)] for a, b in w["vertices"]]
        w["tag"] = f"dec_far_{w['kind']}"
        return w

    def _hug_limits_world(self, rng, j, which, sign):
        """for_limits_and_scale with one limit at m * (1 +- 2^-j) lattice units: int() must not be off by a hair"""
        sc = rng.choice([F(1), F(1, 2), F(3, 2), F(3, 4)])
        m = rng.choice([-1, 1, -1, 1, -2, 2, 3, -3])
        f = 1 + sign * F(1, 2 ** j)
        x0, y0 = gen.dyadic(rng, -2, 2, 2), gen.dyadic(rng, -2, 2, 2)
        L = {"x_min": x0, "x_max": x0 + gen.pos_dyadic(rng, 1, 1, 2), "y_min": y0, "y_max": y0 + gen.pos_dyadic(rng, 1, 1, 2)}
        v = sc / 2 * m * f if which[0] == "x" else self._fx(H * sc * m * f)
        L[which] = v
        if which == "x_min":
            L["x_max"] = v + gen.pos_dyadic(rng, 1, 1, 2)
        elif which == "x_max":
            L["x_min"] = v - gen.pos_dyadic(rng, 1, 1, 2)
        elif which == "y_min":
            L["y_max"] = self._fx(v + gen.pos_dyadic(rng, 1, 1, 2))
        else:
            L["y_min"] = self._fx(v - gen.pos_dyadic(rng, 1, 1, 2))
        if not all(exact_as_float(x) for x in L.values()):
            return None
        return {"tag": "dec_limits_hug", "kind": "coord", "limits": {**{k: q(x) for k, x in L.items()}, "scale": q(sc)},
                "ops": rng.choice([[], ["nb"], ["up"]])}

    def _decades_stream(self, tier, rng):
        quick = tier == "quick"
        ks = self.DEC_K_QUICK if quick else self.DEC_K_THOROUGH
        n = 0
        for k in ks:
            U = F(2) ** k
            for rcp in range(3 if quick else 5):
                mode = (n + rcp) % 3
                n += 1
                if rcp == 0:      # coordinate set
                    w = self._rand_coord_world(rng, 1, 6)
                    w["coord_dtype"] = rng.choice(["int64", "int64", "int32", "float64"])
                elif rcp == 1 or rcp == 3:    # vertex-array set (every other one float32 where float32 holds it)
                    w = self._rand_arr_world(rng)
                    if abs(k) <= 40 and n % 4 == 0:
                        w["vert_form"] = "float32"
                elif n % 3 == 0:  # sets from limits and scale (both representations)
                    x0, y0 = gen.dyadic(rng, -3, 3, 2), gen.dyadic(rng, -3, 3, 2)
                    w = {"tag": "dec", "kind": rng.choice(["coord", "arr"]), "limits":
                         {"x_min": q(x0), "x_max": q(x0 + gen.pos_dyadic(rng, 1, 1, 2)), "y_min": q(y0),
                          "y_max": q(y0 + gen.pos_dyadic(rng, 1, 1, 2)), "scale": q(rng.choice([F(1, 2), F(1), F(3, 4)]))},
                         "ops": []}
                elif n % 3 == 1:
                    w = self._sliver_world(rng)
                else:
                    w = self._far_world(rng)
                    if abs(k) > 150:      # offsets 2^20 further out: keep the squares inside the double range
                        continue
                if abs(k) <= 30 and n % 5 == 0:
                    w["int_scalars"] = True
                if "limits" in w:
                    if w["kind"] == "coord":
                        sc = F(w["limits"]["scale"])
                        ts = [coord_triangle(int(2 * F(w["limits"]["x_min"]) / sc) + 1,
                                             int(F(w["limits"]["y_min"]) / (H * sc)) + 1, sc, F(0), F(0), False)]
                        w["probe"] = self._dec_probes(rng, ts, mode)
                    w["ops"] = rng.choice([["up"], ["nb"], []])
                elif w["tag"] != "dec_sliver":
                    ts = self._world_tris(w)
                    if w.get("vert_form") != "float32":      # (float32 sets: chains only, see the design note)
                        w["probe"] = self._dec_probes(rng, ts, mode)
                        w["probe_pos"] = rng.choice(["first", "last"])
                    w["ops"] = self._dec_chain(rng, len(ts), w.get("probe", []))
                    if w.get("vert_form") == "float32":
                        w["ops"] = [o for o in w["ops"][:1]]
                if w["tag"] in ("hist", "dec"):
                    w["tag"] = f"dec_{w['kind']}" + ("_limits" if "limits" in w else "") + \
                               ("_f32" if w.get("vert_form") == "float32" else "")
                yield scale_world(w, U)
        # one ingredient only: the far / sliver / shape-size worlds at unit scale and a few decades
        for i in range(24 if quick else 240):
            w = [self._far_world, self._sliver_world][i % 2](rng)
            if "probe" not in w:
                ts = self._world_tris(w)
                w["probe"] = self._dec_probes(rng, ts, i % 3)
                w["ops"] = self._dec_chain(rng, len(ts), w["probe"])
            yield scale_world(w, F(2) ** rng.choice([0, 0, -12, 12, -36, 36]))
        # limits hugging an integer number of lattice units
        for j in (20, 24, 27):
            for which in ("x_min", "x_max", "y_min", "y_max"):
                for sign in (1, -1):
                    for _ in range(1 if quick else 6):
                        w = self._hug_limits_world(rng, j, which, sign)
                        if w is not None:
                            yield scale_world(w, F(2) ** rng.choice([0, 0, -30, 30, -200, 200]))
        # near-duplicate twins (one parameter moved by 2^-18 relative) and worlds sharing shape objects, at decades
        for i in range(10 if quick else 100):
            a = self._rand_coord_world(rng) if i % 2 == 0 else self._rand_arr_world(rng)
            ts = self._world_tris(a)
            t = ts[rng.randrange(len(ts))]
            if area2(t) == 0:
                continue
            a["probe"] = self._hug_pair(t)
            a["ops"] = self._hist_chain(rng, len(ts))
            b = self._perturbed(rng, a)
            U = F(2) ** rng.choice([-40, -27, -20, -14, 14, 20, 27, 40, 120, -120])
            yield {"tag": "dec_twins", "kind": "multi", "worlds": [scale_world(a, U), scale_world(b, U)],
                   "order": ["seq", "rev", "interleave"][i % 3], "share_shapes": True, "share_root": False}

    # (R5-B) OWNERSHIP histories: observe -> the caller scribbles over every array it was handed / it handed in ->
    # the same world is rebuilt from fresh equal inputs / derived again -> observe; three rounds (a process-wide
    # memo handing out its own buffers is often wrong only from the second or third request on).
    OWN_CHAINS = [["up"], ["nb"], ["up", "nb"], ["nb", "up"]]

    def _own_stream(self, tier, rng):
        quick = tier == "quick"
        for i in range(36 if quick else 300):
            r = i % 6
            if r == 4:     # the constructors from limits and scale / from a grid
                x0, y0 = gen.dyadic(rng, -3, 3, 2), gen.dyadic(rng, -3, 3, 2)
                w = {"tag": "own", "kind": ["coord", "arr"][(i // 6) % 2], "limits":
                     {"x_min": q(x0), "x_max": q(x0 + 1), "y_min": q(y0), "y_max": q(y0 + 1),
                      "scale": q(rng.choice([F(1, 2), F(1), F(3, 4)]))}, "ops": list(rng.choice(self.OWN_CHAINS))}
                if w["kind"] == "coord":
                    sc = F(w["limits"]["scale"])
                    t = coord_triangle(int(2 * x0 / sc) + 1, int(y0 / (H * sc)) + 1, sc, F(0), F(0), False)
                    w["probe"] = [self._inner_point(rng, t)]
            elif r == 5 and (i // 6) % 2:
                w = {"tag": "own", "kind": "arr", "grid": {"shape": [3, 3], "ps": "1"}, "ops": list(rng.choice(self.OWN_CHAINS))}
            else:
                w = self._rand_coord_world(rng) if r % 2 == 0 else self._rand_arr_world(rng)
                ts = self._world_tris(w)
                t = ts[rng.randrange(len(ts))]
                if area2(t) == 0:
                    continue
                pt = self._inner_point(rng, t)
                w["probe"] = [pt] if i % 3 else [pt, self._shape_for(rng, ts)]
                w["probe_pos"] = "first" if i % 2 else "last"
                sub = self._idx_op(rng, len(ts), form=rng.choice(["int64", "int32", "bool"]))
                w["ops"] = [list(rng.choice(self.OWN_CHAINS)), [sub, "up"], ["nb", sub], [{"sel": pt}, "up", {"sel": pt}],
                            [sub, "nb", {"sel": pt}]][(i // 2) % 5]
            yield {"tag": f"own_{w['kind']}" + ("_limits" if "limits" in w else "_grid" if "grid" in w else ""),
                   "kind": "own", "world": w, "rounds": 3, "scribble": "nan" if i % 3 else "inc"}
        # a user shape whose mask edits the array it is handed in place: the set must be unaffected
        for i in range(24 if quick else 200):
            w = self._rand_coord_world(rng) if i % 3 != 2 else self._rand_arr_world(rng)
            ts = self._world_tris(w)
            t = ts[rng.randrange(len(ts))]
            if area2(t) == 0:
                continue
            pt = self._inner_point(rng, t)
            scr = {"kind": "scribbler", "x": pt["x"], "y": pt["y"], "how": "nan" if i % 2 else "shift"}
            w["probe"] = [scr, self._inner_point(rng, t)] if i % 4 else [scr]
            w["probe_pos"] = "first" if i % 4 != 3 else "last"
            w["ops"] = [["up"], ["nb"], [{"sel": scr}, "up"], [{"idx": [0], "form": "list"}, "nb"], [{"sel": scr}, "nb", {"sel": scr}],
                        []][i % 6]
            w["tag"] = f"own_callback_{w['kind']}"
            yield w

    # (R5-C) CONTAINERS / LAYOUTS: equal-valued inputs handed over as Fortran-ordered / transposed / strided /
    # negatively strided / read-only arrays, narrower or unsigned integer dtypes, float32, other containers for
    # polygon vertices, an autoarray structure as vertex table, structures built from the parts of structures.
    LAYOUTS = ["F", "strided", "neg", "ro", "wide", "T"]

    def _layout_stream(self, tier, rng):
        quick = tier == "quick"
        coords6 = [[0, 0], [1, 0], [1, 1], [2, 1], [3, 2], [0, 1]]
        coords6n = [[0, 0], [1, 0], [1, 1], [-2, 1], [3, -2], [0, -1]]
        verts6 = [["0", "0"], ["4", "0"], ["0", "4"], ["4", "4"], ["-2", "1"], ["1", "-3"]]
        idx6 = [[0, 1, 2], [1, 3, 2], [4, 0, 2], [5, 1, 0], [4, 5, 3]]
        chains = [["up"], ["nb"], [{"idx": [4, 1, 1], "form": "strided"}, "up"], [{"idx": [0, 3], "form": "neg"}, "nb"],
                  [{"idx": [2, 2, 0], "form": "ro"}], [{"idx": [1, 2], "form": "bool_ro"}, "up"],
                  [{"idx": [0, 1, 4], "form": "bool_strided"}, "nb"], [{"idx": [3, 0], "form": "uint16"}, "up"],
                  [{"idx": [1, 4], "form": "int16"}], [{"idx": [2], "form": "uint8"}, "nb"]]
        k = 0
        for lay_ in self.LAYOUTS:
            for dt in ("int64", "int32", "int16", "int8", "float64", "float32", "uint16", "uint8"):
                for rep_ in range(1 if quick else 3):
                    unsigned = dt.startswith("u")
                    c = self._coord_case("lay_coord", coords6 if unsigned else coords6n, [F(2), F(1), F(3, 2)][k % 3],
                                         [F(1), F(0), F(-5, 4)][k % 3], F(-3) if k % 2 else F(1, 2), k % 4 < 2,
                                         chains[(k + rep_) % len(chains)])
                    c["coord_dtype"], c["layout"] = dt, {"coords": lay_}
                    ts = self._world_tris(c)
                    c["probe"] = [self._inner_point(rng, ts[k % len(ts)])]
                    if k % 3 == 0:
                        c["mask_layout"] = self.LAYOUTS[(k // 3) % len(self.LAYOUTS)]
                    k += 1
                    yield c
        k = 0
        for lv in [None] + self.LAYOUTS:
            for li in [None] + self.LAYOUTS:
                if lv is None and li is None:
                    continue
                if quick and lv is not None and li is not None and (self.LAYOUTS.index(lv) + self.LAYOUTS.index(li)) % 3:
                    continue
                vform = ["float64", "int64", "float32", "int32", "int16"][k % 5]
                idt = ["int64", "int32", "int16", "uint16", "uint8", "uint32"][k % 6]
                c = {"tag": "lay_arr", "kind": "arr", "vertices": verts6, "indices": idx6, "ops": chains[k % len(chains)],
                     "vert_form": vform, "index_dtype": idt, "layout": {"verts": lv, "indices": li}}
                if vform != "float32":
                    ts = self._world_tris(c)
                    c["probe"] = [self._inner_point(rng, ts[k % len(ts)])]
                    if k % 3 == 1:
                        c["mask_layout"] = self.LAYOUTS[(k // 3) % len(self.LAYOUTS)]
                k += 1
                yield c
        # the same set handed over in another container in the MIDDLE of a chain
        sames = ["wv", "wv:F", "wv:strided", "wv:ro", "wv:neg", "wv:grid", "wv:f32", "rebuild", "rebuild:F", "rebuild:strided",
                 "rebuild:ro", "soup", "soup:F", "soup:strided"]
        for k, sm in enumerate(sames * (1 if quick else 4)):
            tail = [["up"], ["nb"], [{"idx": [1, 0], "form": "list"}, "nb"], ["up", "nb"]][k % 4]
            c = {"tag": "lay_same_arr", "kind": "arr", "vertices": verts6, "indices": idx6,
                 "ops": [[{"same": sm}] + tail, ["up", {"same": sm}, "nb"], [{"idx": [4, 1, 2], "form": "list"}, {"same": sm}] + tail][k % 3]}
            if k >= len(sames):
                w = self._rand_arr_world(rng)
                c["vertices"], c["indices"] = w["vertices"], w["indices"]
                c["ops"] = json.loads(json.dumps(c["ops"]).replace("[4, 1, 2]", "[1, 0, 1]").replace("wv:f32", "wv:T"))
            ts = self._world_tris(c)
            c["probe"] = [self._inner_point(rng, ts[k % len(ts)])]
            yield c
        for k, sm in enumerate(["rebuild", "rebuild:F", "rebuild:strided", "rebuild:ro", "rebuild:neg", "rebuild:wide"] * (1 if quick else 4)):
            w = self._rand_coord_world(rng)
            tail = [["up"], ["nb"], [{"idx": [0], "form": "list"}, "nb"], ["up", "nb"]][k % 4]
            w["ops"] = [[{"same": sm}] + tail, ["up", {"same": sm}, "nb"], ["nb", {"same": sm}, "up"]][k % 3]
            ts = self._world_tris(w)
            if area2(ts[0]) != 0:
                w["probe"] = [self._inner_point(rng, ts[0])]
            w["tag"] = "lay_same_coord"
            yield w
        # polygon vertices in other containers (lists, tuples, ndarrays in several layouts, integer ndarrays)
        for k, pf in enumerate(["tuple", "lists", "nd", "nd_F", "nd_strided", "nd_ro", "nd_neg"] * (2 if quick else 8)):
            w = self._rand_coord_world(rng) if k % 2 else self._rand_arr_world(rng)
            ts = self._world_tris(w)
            for _ in range(8):
                sp = self._shape_for(rng, ts)
                if sp["kind"] == "polygon":
                    break
            else:
                continue
            sp["poly_form"] = pf
            if k % 4 == 3 and all(F(a).denominator == 1 and F(b).denominator == 1 for a, b in sp["vertices"]):
                w["int_scalars"] = True
            w["shape"], w["ops"], w["tag"] = sp, rng.choice([[], ["up"], ["nb"]]), "lay_polygon"
            yield w

    # (R5-F) OPTIONS: the constructor signatures are introspected; every option is omitted (default), passed
    # explicitly at its default, in its falsy / numpy-scalar forms and at non-default values; non-default values
    # of every pair of options are crossed with each other.
    def _options_stream(self, tier, rng):
        import inspect
        from autoarray.structures.triangles.coordinate_array import CoordinateArrayTriangles

        quick = tier == "quick"
        try:
            sig = inspect.signature(CoordinateArrayTriangles.__init__).parameters
            lsig = inspect.signature(CoordinateArrayTriangles.for_limits_and_scale).parameters
        except (TypeError, ValueError):
            return
        want = {"side_length": 1.0, "x_offset": 0.0, "y_offset": 0.0, "flipped": False}
        # only options that exist with the documented default can be omitted; anything else is always passed
        omittable = [n for n, d in want.items() if n in sig and sig[n].default is not inspect.Parameter.empty
                     and sig[n].default == d and type(sig[n].default) is type(d)]
        if "coordinates" not in sig or any(n not in sig for n in want):
            return      # another constructor interface: nothing this stream knows how to vary
        values = {"side_length": [F(1), F(1, 2), F(3), F(5, 8)], "x_offset": [F(0), F(3, 8), F(-2), F(1)],
                  "y_offset": [F(0), F(-5, 8), F(2), F(1)], "flipped": [False, True]}
        coords = [[0, 0], [1, 0], [2, 1], [-1, -1], [-2, 1]]
        chains = [["up"], ["nb"], [{"idx": [3, 0, 0], "form": "list"}, "up"], ["up", "nb"], ["nb", "up"], []]
        k = 0

        def case(vals, ctor):
            nonlocal k
            c = self._coord_case("opt_coord", coords, vals["side_length"], vals["x_offset"], vals["y_offset"],
                                 vals["flipped"], chains[k % len(chains)])
            c["ctor"] = {kk: v for kk, v in ctor.items() if v}
            c["int_scalars"] = bool(ctor.get("ints"))
            ts = self._world_tris(c)
            c["probe"] = [self._inner_point(rng, ts[k % len(ts)])]
            c["probe_pos"] = "first" if k % 2 else "last"
            k += 1
            return c

        base = {n: values[n][0] for n in want}
        names = list(want)
        # (i) all defaults omitted / explicit / in falsy and numpy-scalar forms
        for omit in ([], omittable, omittable[:1], omittable[1:3], omittable[3:]):
            for zf in ("float", "int", "negzero", "np", "npint"):
                for ff in ("bool", "int", "np"):
                    if quick and (len(omit) + ["float", "int", "negzero", "np", "npint"].index(zf) + ["bool", "int", "np"].index(ff)) % 3:
                        continue
                    yield case(base, {"omit": list(omit), "zero_form": zf, "flipped_form": ff})
        # (ii) each non-default value of one option x each non-default value of another, the rest omitted
        for a in range(len(names)):
            for b in range(a + 1, len(names)):
                for va in values[names[a]][1:]:
                    for vb in values[names[b]][1:]:
                        vals = {**base, names[a]: va, names[b]: vb}
                        omit = [n for n in omittable if n not in (names[a], names[b])]
                        yield case(vals, {"omit": omit if k % 3 else [], "zero_form": ["int", "float", "negzero"][k % 3],
                                          "flipped_form": ["np", "int", "bool"][k % 3], "ints": k % 2,
                                          "scalar_form": "np" if k % 4 == 1 else None})
        # (iii) for_limits_and_scale: scale omitted (its default) / explicit, extra keywords, int arguments
        ldef = lsig.get("scale")
        can_omit_scale = ldef is not None and ldef.default == 1.0
        takes_kw = any(p.kind is inspect.Parameter.VAR_KEYWORD for p in lsig.values())
        for i in range(12 if quick else 60):
            x0, y0 = gen.dyadic(rng, -3, 3, 2), gen.dyadic(rng, -3, 3, 2)
            sc = F(1) if i % 3 != 2 else rng.choice([F(1, 2), F(3, 4)])
            c = {"tag": "opt_limits", "kind": "coord" if i % 4 != 3 else "arr", "limits":
                 {"x_min": q(x0), "x_max": q(x0 + gen.pos_dyadic(rng, 1, 1, 2)), "y_min": q(y0),
                  "y_max": q(y0 + gen.pos_dyadic(rng, 1, 1, 2)), "scale": q(sc)}, "ops": rng.choice([[], ["up"], ["nb"]]),
                 "int_scalars": i % 2 == 0, "ctor": {}}
            if c["kind"] == "coord" and sc == 1 and can_omit_scale and i % 3 == 0:
                c["ctor"]["omit"] = ["scale"]
            if takes_kw and i % 2:
                c["ctor"]["junk"] = True
            yield c

    # (R5-E) always-on LARGE sets (beyond 2^16 rows): judged by the vectorised statement only
    def _big_always(self, tier, rng):
        n = 65536 + 3 + rng.randrange(0, 64)
        want = [("coord", "nb")] if tier == "quick" else [("coord", "nb"), ("arr", "nb"), ("coord", "up"), ("arr", "up")]
        if tier == "quick":
            m = 33000 + rng.randrange(0, 64)
            for c in self._big_cases(rng, m, 0, lean=True):
                if c["rep"] == "arr" and c["ops"] == ["up"] and "limits" not in c["recipe"]:
                    yield {**c, "tag": "big_always_arr"}
                    break
        seen = set()
        for c in self._big_cases(rng, n, 0, lean=True):
            key = (c["rep"], c["ops"][0] if c["ops"] and isinstance(c["ops"][0], str) else None)
            if key in want and key not in seen and "limits" not in c["recipe"]:
                seen.add(key)
                yield {**c, "tag": f"big_always_{c['rep']}"}
        if tier != "quick":     # more than 2^16 unique vertices
            for c in self._big_cases(rng, 2 * 65536 + 9000 + rng.randrange(0, 64), 0, lean=True):
                if c["ops"] == ["nb"] and "limits" not in c["recipe"]:
                    yield {**c, "tag": f"big_always_{c['rep']}"}

    # ------------------------------------------------------------------ implementation
    COORD_DTYPES = {"int32": np.int32, "float64": float, "float32": np.float32, "int16": np.int16,
                    "int8": np.int8, "uint16": np.uint16, "uint8": np.uint8}
    INDEX_DTYPES = {"int32": np.int32, "int16": np.int16, "uint16": np.uint16, "uint8": np.uint8, "uint32": np.uint32}

    def _build(self, aa_mod, case, keep=None):
        """the triangle set of a case.  `layout` (memory layout of the arrays handed over), `ctor` (which
        constructor options are omitted / in which falsy or numpy-scalar form they are passed) are round-5
        variants of EQUAL-VALUED inputs; `keep` collects the arrays handed to the constructor."""
        from autoarray.structures.triangles.array import ArrayTriangles
        from autoarray.structures.triangles.coordinate_array import CoordinateArrayTriangles

        ints = case.get("int_scalars", False)
        layout = case.get("layout") or {}
        ctor = case.get("ctor") or {}

        def rec(a):
            if keep is not None:
                keep.append(a)
            return a

        def fl(v):
            fr = F(v)
            return int(fr) if ints and fr.denominator == 1 else float(fr)

        if case["kind"] == "arr":
            if "limits" in case:
                L = case["limits"]
                kw = {"max_containing_size": 10} if ctor.get("junk") else {}   # passed on to, and ignored by, __init__
                return ArrayTriangles.for_limits_and_scale(
                    y_min=fl(L["y_min"]), y_max=fl(L["y_max"]), x_min=fl(L["x_min"]), x_max=fl(L["x_max"]),
                    scale=fl(L["scale"]), **kw)
            if "grid" in case:
                g = case["grid"]
                return ArrayTriangles.for_grid(grid=aa_mod.Grid2D.uniform(
                    shape_native=tuple(g["shape"]), pixel_scales=float(F(g["ps"]))))
            vform = case.get("vert_form", "float64")
            if vform in ("int64", "int32", "int16"):
                verts = np.array([[int(F(a)), int(F(b))] for a, b in case["vertices"]],
                                 dtype={"int64": np.int64, "int32": np.int32, "int16": np.int16}[vform])
            else:
                verts = np.array([[float(F(a)), float(F(b))] for a, b in case["vertices"]],
                                 dtype=np.float32 if vform == "float32" else float)
            idt = self.INDEX_DTYPES.get(case.get("index_dtype"), np.int64)
            kw = {}
            if ctor.get("junk"):      # AbstractTriangles.__init__ takes and ignores **kwargs
                kw["max_containing_size"] = 10
            return ArrayTriangles(indices=rec(lay(np.array(case["indices"], dtype=idt).reshape(-1, 3),
                                                  layout.get("indices"))),
                                  vertices=rec(lay(verts.reshape(-1, 2), layout.get("verts"))), **kw)
        if "limits" in case:
            L = case["limits"]
            kw = dict(x_min=fl(L["x_min"]), x_max=fl(L["x_max"]), y_min=fl(L["y_min"]), y_max=fl(L["y_max"]),
                      scale=fl(L["scale"]))
            for name in ctor.get("omit", []):
                kw.pop(name)
            if ctor.get("junk"):      # for_limits_and_scale takes and ignores further keywords (**_)
                kw["max_containing_size"] = 10
            return CoordinateArrayTriangles.for_limits_and_scale(**kw)
        cdt = self.COORD_DTYPES.get(case.get("coord_dtype"), np.int64)
        kw = dict(coordinates=rec(lay(np.array(case["coords"], dtype=cdt).reshape(-1, 2), layout.get("coords"))),
                  side_length=fl(case["side"]), x_offset=fl(case["x_offset"]), y_offset=fl(case["y_offset"]),
                  flipped=case["flipped"])
        for name in ctor.get("omit", []):          # the generator only omits values equal to the signature default
            kw.pop(name)
        ff = ctor.get("flipped_form")
        if ff and "flipped" in kw:
            kw["flipped"] = {"int": int, "np": np.bool_, "bool": bool}[ff](kw["flipped"])
        zf = ctor.get("zero_form")
        for name in ("x_offset", "y_offset"):
            if zf and name in kw and kw[name] == 0:
                kw[name] = {"int": 0, "float": 0.0, "negzero": -0.0, "np": np.float64(0.0), "npint": np.int64(0)}[zf]
        sf = ctor.get("scalar_form")               # numpy scalars instead of Python floats
        if sf == "np":
            for name in ("side_length", "x_offset", "y_offset"):
                if name in kw and not isinstance(kw[name], int):
                    kw[name] = np.float64(kw[name])
        return CoordinateArrayTriangles(**kw)

    @staticmethod
    def _routes_comparable(ops):
        """index selections address each representation's own ordering; up_sample / neighborhood
        order their output differently in the two representations, so the two routes are only
        comparable when every selection comes before the first up/nb."""
        seen = False
        for o in ops:
            if isinstance(o, dict):
                if seen:
                    return False
            else:
                seen = True
        return True

    @staticmethod
    def _apply(obj, op, keep=None):
        if op == "up":
            return obj.up_sample()
        if op == "nb":
            return obj.neighborhood()
        form = op.get("form", "int64")
        idx = [int(i) for i in op["idx"]]

        def rec(a):
            if keep is not None:
                keep.append(a)
            return a

        if form in ("bool", "bool_list", "bool_ro", "bool_strided"):
            n = len(np.asarray(obj.triangles))
            m = [i in set(idx) for i in range(n)]
            if form == "bool_list":
                return obj.for_indexes(m)
            return obj.for_indexes(rec(lay(np.array(m, dtype=bool), {"bool_ro": "ro", "bool_strided": "strided"}.get(form))))
        if form == "list":
            return obj.for_indexes(idx)
        if form == "empty":
            return obj.for_indexes([])
        if form in ("strided", "neg", "ro"):       # round 5: equal-valued index arrays in other layouts
            return obj.for_indexes(rec(lay(np.array(idx, dtype=np.int64), form)))
        dt = {"int32": np.int32, "int16": np.int16, "uint16": np.uint16, "uint8": np.uint8, "uint32": np.uint32,
              "int8": np.int8}.get(form, np.int64)
        return obj.for_indexes(rec(np.array(idx, dtype=dt)))

    @staticmethod
    def _obs_arr(a):
        tr = np.asarray(a.triangles, dtype=float)
        return {"triangles": tris_q(tr), "n": int(len(a)),
                "area": q(float(a.area)) if len(tr) else "0",
                "vertices": [[q(float(v[0])), q(float(v[1]))] for v in np.asarray(a.vertices, dtype=float)],
                "indices": [[int(i) for i in r] for r in np.asarray(a.indices)]}

    @staticmethod
    def _obs_coord(c):
        co = np.asarray(c.coordinates)
        tr = np.asarray(c.triangles, dtype=float)
        view = c.with_vertices(c.vertices)
        return {"coords": [[int_or_nan(v[0]), int_or_nan(v[1])] for v in co], "coords_integral":
                bool(np.all(co == np.round(co))),
                "side": q(float(c.side_length)), "x_offset": q(float(c.x_offset)),
                "y_offset": q(float(c.y_offset)), "flipped": bool(c.flipped),
                "triangles": tris_q(tr),
                "flip_mask": [bool(b) for b in np.asarray(c.flip_mask)],
                "area": q(float(c.area)), "n": int(len(c)),
                "view_triangles": tris_q(np.asarray(view.triangles, dtype=float)),
                "view_vertices": [[q(float(v[0])), q(float(v[1]))] for v in np.asarray(view.vertices)]}

    # ------------------------------------------------------------------ round 4: worlds, probes, histories
    @staticmethod
    def _num(case):
        ints = case.get("int_scalars", False)

        def fl(v):
            fr = F(v)
            return int(fr) if ints and fr.denominator == 1 else float(fr)

        return fl

    _flaky_cls = None

    @classmethod
    def _flaky(cls):
        """a user-defined shape (a Point) whose mask raises on its first call and works afterwards"""
        if cls._flaky_cls is None:
            from autoarray.structures.triangles import shape as sh

            class FlakyPoint(sh.Point):
                def __init__(self, x, y, fail_on=1):
                    super().__init__(x, y)
                    self.calls, self.fail_on = 0, fail_on

                def mask(self, triangles):
                    self.calls += 1
                    if self.calls == self.fail_on:
                        raise RuntimeError("user shape failed")
                    return super().mask(triangles)

            cls._flaky_cls = FlakyPoint
        return cls._flaky_cls

    _scribbler_cls = None

    @classmethod
    def _scribbler(cls):
        """a user-defined shape (a Point) whose mask, after computing its answer, edits the array it was handed
        IN PLACE (recentres the triangles on itself, or blanks them) — a user callback is free to do that with
        its own argument; the triangle set must not be affected"""
        if cls._scribbler_cls is None:
            from autoarray.structures.triangles import shape as sh

            class ScribblePoint(sh.Point):
                def __init__(self, x, y, how="nan"):
                    super().__init__(x, y)
                    self.how = how

                def mask(self, triangles):
                    out = np.array(super().mask(triangles), copy=True)
                    if isinstance(triangles, np.ndarray) and triangles.dtype.kind == "f":
                        try:
                            if self.how == "nan":
                                triangles[...] = np.nan
                            else:
                                triangles -= np.array([self.x, self.y], dtype=triangles.dtype)
                        except ValueError:      # a read-only array: the owner protected its buffer
                            pass
                    return out

            cls._scribbler_cls = ScribblePoint
        return cls._scribbler_cls

    def _shape_obj(self, s, case, pool=None):
        """the library's shape object for a shape spec; `pool` (spec -> object) makes worlds of one history
        share the very same object"""
        from autoarray.structures.triangles import shape as sh

        ints = case.get("int_scalars", False)
        fl = self._num(case)
        key = json.dumps([s, bool(ints)], sort_keys=True)
        if pool is not None and key in pool:
            return pool[key]
        if s["kind"] == "point":
            shp = sh.Point(x=fl(s["x"]), y=fl(s["y"]))
        elif s["kind"] == "flaky":
            shp = self._flaky()(fl(s["x"]), fl(s["y"]), int(s.get("fail_on", 1)))
        elif s["kind"] == "scribbler":
            shp = self._scribbler()(fl(s["x"]), fl(s["y"]), s.get("how", "nan"))
        elif s["kind"] == "circle":
            shp = sh.Circle(x=fl(s["x"]), y=fl(s["y"]), radius=fl(s["radius"]))
        elif s["kind"] == "square":
            shp = sh.Square(top=fl(s["top"]), bottom=fl(s["bottom"]), left=fl(s["left"]), right=fl(s["right"]))
        else:
            vs = [[fl(a), fl(b)] if ints else (fl(a), fl(b)) for a, b in s["vertices"]]
            pf = s.get("poly_form")     # round 5: the same vertices in other containers
            if pf == "tuple":
                vs = tuple(tuple(v) for v in vs)
            elif pf == "lists":
                vs = [list(v) for v in vs]
            elif pf in ("nd", "nd_F", "nd_strided", "nd_ro", "nd_neg"):
                vs = lay(np.array(vs), {"nd": None}.get(pf, pf[3:]))
            shp = sh.Polygon(vertices=vs)
        if pool is not None:
            pool[key] = shp
        return shp

    @staticmethod
    def _drv_shape(s):
        """the shape as the model driver knows it (user subclasses of Point are points; container form dropped)"""
        if s["kind"] in POINT_KINDS:
            return {"kind": "point", "x": s["x"], "y": s["y"]}
        return {k: v for k, v in s.items() if k != "poly_form"}

    @staticmethod
    def _decoy(o, is_arr, mode):
        """read every OTHER public derived quantity / sibling operation of the object (results discarded)
        before the observed reads; mode "a": properties first, "b": sibling operations first."""
        from autoarray.structures.triangles import shape as sh

        def props():
            _ = o.area, len(o), str(type(o)), o.means
            _ = np.asarray(o.vertices).shape, np.asarray(o.indices).shape
            for _t in o:
                break
            if not is_arr:
                _ = o.centres, o.flip_mask, o.flip_array, o.scaling_factors
            else:
                _ = str(o), repr(o)

        def siblings():
            n = len(np.asarray(o.triangles))
            _ = o.containing_indices(sh.Point(0.123, -0.321))
            _ = o.containing_indices(sh.Circle(0.5, 0.25, 0.75))
            _ = o.with_vertices(o.vertices).area
            u, nb = o.up_sample(), o.neighborhood()
            _ = u.triangles, nb.triangles, u.area
            if n:
                sel = o.for_indexes(np.array([n - 1, 0]))
                _ = sel.triangles, sel.containing_indices(sh.Point(0.123, -0.321))

        for f in ((props, siblings) if mode == "a" else (siblings, props)):
            f()

    def _same(self, obj, kind):
        from autoarray.structures.triangles.array import ArrayTriangles
        from autoarray.structures.triangles.coordinate_array import CoordinateArrayTriangles

        is_arr = isinstance(obj, ArrayTriangles)
        how = kind.split(":")[1] if ":" in kind else None
        if kind.startswith("wv"):          # with_vertices of an equal-valued vertex table
            v = np.asarray(obj.vertices)
            if how == "grid":              # an autoarray structure, as a ray-traced grid would be
                vv = load_autoarray().Grid2DIrregular(values=np.array(v, dtype=float))
            elif how == "f32":             # the generator only asks for this where float32 holds the values
                vv = v.astype(np.float32)
            else:
                vv = lay(v, how)
            return obj.with_vertices(vv)
        if kind.startswith("rebuild"):     # a structure built from the parts of another structure
            if is_arr:
                return ArrayTriangles(indices=lay(obj.indices, how), vertices=lay(obj.vertices, how))
            return CoordinateArrayTriangles(coordinates=lay(obj.coordinates, how), side_length=obj.side_length,
                                            x_offset=obj.x_offset, y_offset=obj.y_offset, flipped=obj.flipped)
        if kind.startswith("soup"):        # every triangle with its own three vertex rows (no sharing)
            T = np.asarray(obj.triangles)
            return ArrayTriangles(indices=lay(np.arange(3 * len(T)).reshape(-1, 3), how),
                                  vertices=lay(T.reshape(-1, 2), how))
        raise ValueError(f"unknown identity step {kind}")

    def _apply2(self, obj, op, case, probes, pool, keep=None):
        """one history step: (object after the step, extra observations of the step)"""
        if not isinstance(op, dict) or "idx" in op:
            return self._apply(obj, op, keep), {}
        if "same" in op:     # round 5: a step that hands the SAME set over in another container / layout
            return self._same(obj, op["same"]), {}
        if "sel" in op:      # the refinement step of a point solver: keep the triangles containing the shape
            shp = self._shape_obj(op["sel"], case, pool)
            idx = np.asarray(obj.containing_indices(shp))
            extra = {"sel_idx": [int(i) for i in idx], "sel_ref": [q(float(shp.x)), q(float(shp.y))]}
            new = obj.for_indexes(idx)
            if keep is not None:
                keep.append(idx)
            return new, extra
        if "fault" in op:    # a call that raises in the middle; the same object is used afterwards
            kind, raised, extra = op["fault"], None, {}
            n = len(np.asarray(obj.triangles))
            shp = None
            try:
                if kind == "idx_oob":
                    obj.for_indexes(np.array([0, n + 3]))
                elif kind == "idx_oob_list":
                    obj.for_indexes([n + 1])
                elif kind == "bad_vertices":
                    _ = obj.with_vertices(np.asarray(obj.vertices)[:1]).triangles
                elif kind == "flaky_shape":
                    shp = self._shape_obj({"kind": "flaky", "x": op["x"], "y": op["y"]}, case, None)
                    obj.containing_indices(shp)
            except Exception as e:  # noqa: BLE001 (the fault is the point of the step)
                raised = type(e).__name__
            extra = {"fault": kind, "raised": raised}
            if shp is not None:
                extra["after"] = [int(i) for i in np.asarray(obj.containing_indices(shp))]
                extra["after_ref"] = [q(float(shp.x)), q(float(shp.y))]
            return obj, extra
        if "edit" in op:     # in-place edit of the (caller-visible) vertex array of a vertex-array set
            e = op["edit"]
            obj.vertices[int(e["v"])] = (float(F(e["to"][0])), float(F(e["to"][1])))
            return obj, {}
        if "shape_edit" in op:   # in-place edit of a probe shape object (Point / Circle attributes)
            e = op["shape_edit"]
            fl = self._num(case)
            for k in ("x", "y", "radius"):
                if k in e:
                    setattr(probes[int(e["i"])], k, fl(e[k]))
            return obj, {}
        raise ValueError(f"unknown op {op}")

    @staticmethod
    def _scribble(a, how):
        """edit an array IN PLACE as its owner may: floats -> nan (or +1), integers -> 0 (or +1), flags -> inverted.
        A read-only array is left alone (whoever handed it out protected it)."""
        if not isinstance(a, np.ndarray) or a.size == 0:
            return
        try:
            if a.dtype.kind == "f":
                a[...] = np.nan if how == "nan" else a + 1.0
            elif a.dtype.kind in "iu":
                a[...] = 0 if how == "nan" else a + 1
            elif a.dtype.kind == "b":
                a[...] = ~a
        except ValueError:
            pass

    @classmethod
    def _scribble_obj(cls, o, how):
        """scribble over every array the object hands out (all fetched first, then edited)"""
        arrs = []
        for name in ("coordinates", "triangles", "flip_mask", "flip_array", "vertices", "indices", "scaling_factors",
                     "centres", "means"):
            try:
                arrs.append(getattr(o, name))
            except Exception:  # noqa: BLE001
                pass
        for a in arrs:
            cls._scribble(a, how)

    def _world(self, aa, case, pool, root=None, own=None):
        """generator running one world (one triangle set + its chain of steps), yielding after every step;
        returns the observation.  Probe shapes are queried with containing_indices at EVERY stage.
        `own` (round 5, ownership histories): {"how", "objs", "inputs"} — every index array handed to a step
        and every array returned by a query is scribbled over as soon as the call has returned, and the
        objects of all stages / the arrays handed to the constructor are collected for the caller."""
        is_arr = case["kind"] == "arr"
        ob = self._obs_arr if is_arr else self._obs_coord
        keep0 = [] if own is not None else None
        obj = root if root is not None else self._build(aa, case, keep0)
        if own is not None:
            own["inputs"] = keep0
            own["objs"] = [obj]
        if case.get("readonly") and root is None:
            for name in (("vertices", "indices") if is_arr else ("coordinates",)):
                np.asarray(getattr(obj, name)).setflags(write=False)
        probes = [self._shape_obj(s, case, pool) for s in case.get("probe", [])]
        ppos, decoy = case.get("probe_pos", "last"), case.get("decoy")

        mlay = case.get("mask_layout")

        def contain(o):
            out = {"containing": [], "refs": [[q(float(p.x)), q(float(p.y))] for p in probes]}
            for p in probes:
                r = o.containing_indices(p)
                out["containing"].append([int(i) for i in np.asarray(r)])
                if own is not None:
                    self._scribble(r, own["how"])
            if mlay:   # round 5: the shape's mask called directly on an equal-valued array in another layout
                T = lay(np.array(o.triangles), mlay)
                out["containing_direct"] = [[int(i) for i in np.where(np.asarray(p.mask(T)))[0]] for p in probes]
            return out

        def observe(o):
            st = {}
            if probes and ppos == "first":
                st.update(contain(o))
            if decoy:
                self._decoy(o, is_arr, decoy)
            st.update(ob(o))
            if probes and ppos != "first":
                st.update(contain(o))
            return st

        stages = [observe(obj)]
        yield
        for op in case["ops"]:
            keep = [] if own is not None else None
            obj, extra = self._apply2(obj, op, case, probes, pool, keep)
            if own is not None:
                own["objs"].append(obj)
                for a in keep:
                    self._scribble(a, own["how"])
            st = observe(obj)
            st.update(extra)
            stages.append(st)
            yield
        obs = {"stages": stages}
        if not is_arr and self._routes_comparable(case["ops"]) and self._plain_ops(case["ops"]):
            # the same chain in the vertex-array representation of the same set
            start = self._build(aa, case)
            arr = start.with_vertices(start.vertices)
            for op in case["ops"]:
                arr = self._apply(arr, op)
            obs["array_route"] = {"triangles": tris_q(np.asarray(arr.triangles, dtype=float)),
                                  "area": q(float(arr.area)), "n": int(len(arr))}
        if "shape" in case:
            shp = self._shape_obj(case["shape"], case, pool)
            obs["containing"] = [int(i) for i in np.asarray(obj.containing_indices(shp))]
            obs["ref"] = [q(float(shp.x)), q(float(shp.y))]
        return obs

    @staticmethod
    def _plain_ops(ops):
        return all((not isinstance(o, dict)) or "idx" in o for o in ops)

    @staticmethod
    def _drain(g):
        try:
            while True:
                next(g)
        except StopIteration as s:
            return s.value

    def run_impl(self, case):
        aa = load_autoarray()
        if case["kind"] == "big":
            return self._run_big(aa, case)
        if case["kind"] == "multi":
            return self._run_multi(aa, case)
        if case["kind"] == "own":
            return self._run_own(aa, case)
        return self._drain(self._world(aa, case, {}))

    def _run_own(self, aa, case):
        """ownership history (round 5, R5-B): per round — build the world from FRESH equal inputs and observe the
        chain (phase a); scribble over every array of every derived object (and, already during the run, over
        every index array handed in and every query result handed out); derive again from the same root and
        observe (phase b); scribble over the root's arrays and the arrays handed to the constructor as well.
        Every observation must be that of a fresh world."""
        w, how = case["world"], case.get("scribble", "nan")
        rounds = []
        for _ in range(int(case.get("rounds", 3))):
            own = {"how": how}
            a = self._drain(self._world(aa, w, {}, own=own))
            root, inputs = own["objs"][0], own["inputs"]
            for o in own["objs"][1:]:
                if o is not root:
                    self._scribble_obj(o, how)
            own2 = {"how": how}
            b = self._drain(self._world(aa, w, {}, root=root, own=own2))
            for o in own2["objs"][1:] + [root]:
                self._scribble_obj(o, how)
            for arr in inputs or []:
                self._scribble(arr, how)
            rounds.append([a, b])
        return {"rounds": rounds}

    def _run_multi(self, aa, case):
        """several worlds in one history: executed one after the other, in reverse, or interleaved step by
        step; optionally sharing the shape objects (same spec -> same object) and the root triangle set."""
        worlds = case["worlds"]
        pool = {} if case.get("share_shapes", True) else None
        root = self._build(aa, worlds[0]) if case.get("share_root") else None
        gens = [self._world(aa, w, pool if pool is not None else {}, root=root) for w in worlds]
        out = [None] * len(worlds)
        order = case.get("order", "seq")
        if order == "interleave":
            live = list(range(len(worlds)))
            while live:
                for i in list(live):
                    try:
                        next(gens[i])
                    except StopIteration as s:
                        out[i] = s.value
                        live.remove(i)
        else:
            for i in (range(len(worlds)) if order == "seq" else reversed(range(len(worlds)))):
                out[i] = self._drain(gens[i])
        return {"worlds": out}

    # ------------------------------------------------------------------ round 4: LARGE sets (no model comparison)
    # A "big" case is a compact recipe; the arrays are derived from it with numpy.  The vectorised statement of
    # the property (`_big_judge_*`, numpy on the implementation's outputs, independent formulas) alone judges it;
    # the verdict travels in the observation so that no large array is kept or written to the evidence.
    BIG_MAX_N = 70000

    @staticmethod
    def _big_coords(r):
        i = np.arange(int(r["n"]), dtype=np.int64)
        return np.stack([int(r["x0"]) + i % int(r["w"]), int(r["y0"]) + i // int(r["w"])], axis=1)

    @staticmethod
    def _big_arr(r):
        rows, cols, n = int(r["rows"]), int(r["cols"]), int(r["n"])
        A = np.array([[float(F(v)) for v in row] for row in r["A"]])
        b = np.array([float(F(v)) for v in r["b"]])
        cc, rr = np.meshgrid(np.arange(cols), np.arange(rows))
        verts = np.stack([cc.ravel(), rr.ravel()], 1).astype(float) @ A.T + b
        vid = lambda rw, cl: rw * cols + cl  # noqa: E731
        r0, c0 = np.meshgrid(np.arange(rows - 1), np.arange(cols - 1), indexing="ij")
        r0, c0 = r0.ravel(), c0.ravel()
        t1 = np.stack([vid(r0, c0), vid(r0, c0 + 1), vid(r0 + 1, c0)], 1)
        t2 = np.stack([vid(r0, c0 + 1), vid(r0 + 1, c0 + 1), vid(r0 + 1, c0)], 1)
        idx = np.stack([t1, t2], 1).reshape(-1, 3)[:n]
        return verts, idx

    @staticmethod
    def _big_idx(spec, n):
        k, mode = int(spec["k"]), spec["mode"]
        g = np.random.default_rng(int(spec["seed"]))
        if mode == "bool":
            m = np.zeros(n, dtype=bool)
            m[g.permutation(n)[:min(k, n)]] = True
            return m, np.flatnonzero(m)
        if mode == "stride":
            sel = (int(spec.get("start", 0)) + int(spec.get("step", 7)) * np.arange(k)) % n
        else:
            sel = g.integers(0, n, size=k)
        sel = sel.astype(np.int32 if spec.get("form") == "int32" else np.int64)
        return (sel.tolist() if spec.get("form") == "list" else sel), sel.astype(np.int64)

    def _run_big(self, aa, case):
        from autoarray.structures.triangles.array import ArrayTriangles
        from autoarray.structures.triangles.coordinate_array import CoordinateArrayTriangles

        r, is_arr = case["recipe"], case["rep"] == "arr"
        fl = self._num(case)
        if is_arr:
            if "limits" in r:
                L = r["limits"]
                obj = ArrayTriangles.for_limits_and_scale(y_min=fl(L["y_min"]), y_max=fl(L["y_max"]), x_min=fl(L["x_min"]),
                                                          x_max=fl(L["x_max"]), scale=fl(L["scale"]))
            else:
                v, i = self._big_arr(r)
                if r.get("vert_form") == "float32":
                    v = v.astype(np.float32)
                obj = ArrayTriangles(indices=i.astype(np.int32) if r.get("index_dtype") == "int32" else i, vertices=v)
        elif "limits" in r:
            L = r["limits"]
            obj = CoordinateArrayTriangles.for_limits_and_scale(x_min=fl(L["x_min"]), x_max=fl(L["x_max"]),
                                                                y_min=fl(L["y_min"]), y_max=fl(L["y_max"]), scale=fl(L["scale"]))
        else:
            co = self._big_coords(r)
            obj = CoordinateArrayTriangles(coordinates=co.astype(float) if r.get("dtype") == "float64" else co,
                                           side_length=fl(r["side"]), x_offset=fl(r["x_offset"]),
                                           y_offset=fl(r["y_offset"]), flipped=bool(r["flipped"]))
        snap = self._big_snap_arr if is_arr else self._big_snap_coord
        prev = snap(obj)
        ok, d = self._big_judge_stage(prev, is_arr, "stage 0")
        summary = [{"n": prev["n"], "area": prev["area"]}]
        n0 = prev["n"]
        if not is_arr and "limits" in r and ok:
            ok, d = self._big_judge_limits(r["limits"], prev)
        for k, op in enumerate(case["ops"], 1):
            if not ok:
                break
            sel = None
            if op == "up":
                obj = obj.up_sample()
            elif op == "nb":
                obj = obj.neighborhood()
            elif "idxr" in op:
                arg, sel = self._big_idx(op["idxr"], prev["n"])
                obj = obj.for_indexes(arg)
            else:
                shp = self._shape_obj(op["sel"], case)
                sel = np.asarray(obj.containing_indices(shp)).astype(np.int64)
                ok, d = self._big_judge_contain(prev["T"], op["sel"], sel, f"stage {k} selection")
                if not ok:
                    break
                obj = obj.for_indexes(sel)
            cur = snap(obj)
            summary.append({"n": cur["n"], "area": cur["area"]})
            ok, d = self._big_judge_stage(cur, is_arr, f"stage {k}")
            if ok:
                ok, d = self._big_judge_step(k, op, sel, prev, cur, is_arr)
            prev = cur
        if ok and "shape" in case:
            shp = self._shape_obj(case["shape"], case)
            got = np.asarray(obj.containing_indices(shp)).astype(np.int64)
            summary.append({"containing": int(len(got))})
            ok, d = self._big_judge_contain(prev["T"], case["shape"], got, "final query")
        return {"big": True, "n0": int(n0), "stages": summary, "verdict": [bool(ok), d]}

    @staticmethod
    def _big_snap_arr(a):
        T = np.asarray(a.triangles, dtype=float)
        return {"T": T, "n": int(len(a)), "area": float(a.area) if len(T) else 0.0,
                "V": np.asarray(a.vertices, dtype=float), "I": np.asarray(a.indices)}

    @staticmethod
    def _big_snap_coord(c):
        view = c.with_vertices(c.vertices)
        return {"T": np.asarray(c.triangles, dtype=float), "n": int(len(c)), "area": float(c.area),
                "C": np.asarray(c.coordinates), "side": float(c.side_length), "xo": float(c.x_offset),
                "yo": float(c.y_offset), "flipped": bool(c.flipped), "fm": np.asarray(c.flip_mask),
                "VT": np.asarray(view.triangles, dtype=float), "VV": np.asarray(view.vertices, dtype=float)}

    @staticmethod
    def _np_tol(*Ts):
        m = 1.0
        for T in Ts:
            if len(T):
                m = max(m, float(np.abs(T).max()))
        return 1e-9 * m

    def _big_judge_stage(self, s, is_arr, label):
        T = s["T"]
        if s["n"] != len(T):
            return False, f"{label}: len() = {s['n']} but {len(T)} triangles"
        tol = self._np_tol(T)
        if is_arr:
            if len(T) and not np.array_equal(s["V"][s["I"]], T):
                return False, f"{label}: vertices[indices] != triangles"
            ex = float(np.abs(np_area2(T)).sum() / 2)
            if abs(s["area"] - ex) > 1e-9 * max(1.0, ex):
                return False, f"{label}: area {s['area']} != sum of triangle areas {ex}"
            return True, ""
        C = s["C"]
        if not np.all(C == np.round(C)):
            return False, f"{label}: non-integer coordinates"
        E = np_lattice(C, s["side"], s["xo"], s["yo"], s["flipped"])
        bad = np.where(~np_rows_match(T, E, tol))[0]
        if len(bad):
            return False, (f"{label}: triangle {int(bad[0])} {T[bad[0]].tolist()} is not the equilateral lattice "
                           f"triangle of coordinate {C[bad[0]].tolist()} ({len(bad)} such)")
        ci = np.rint(C).astype(np.int64)
        if not np.array_equal(s["fm"], (((ci[:, 0] + ci[:, 1]) % 2) != 0) != s["flipped"]):
            return False, f"{label}: flip_mask does not match the orientation of the triangles"
        ex = H_FLOAT / 2 * s["side"] ** 2 * len(T)
        if abs(s["area"] - ex) > 1e-9 * max(1.0, ex):
            return False, f"{label}: area {s['area']} != {ex}"
        if len(s["VT"]) != len(T) or not np_rows_match(s["VT"], T, tol).all():
            return False, f"{label}: with_vertices(vertices) does not describe the same triangles"
        if len(np.unique(s["VV"], axis=0)) != len(s["VV"]):
            return False, f"{label}: duplicate rows in the unique vertex table"
        return True, ""

    def _big_judge_limits(self, L, s):
        """(quantifier) for_limits_and_scale: the coordinates form a full integer box without repetitions"""
        C = np.rint(s["C"]).astype(np.int64)
        xs, ys = np.unique(C[:, 0]), np.unique(C[:, 1])
        if len(C) != len(xs) * len(ys) or len(np.unique(C, axis=0)) != len(C) or \
                xs[-1] - xs[0] + 1 != len(xs) or ys[-1] - ys[0] + 1 != len(ys):
            return False, "for_limits_and_scale: coordinates are not a full integer box"
        return True, ""

    def _big_judge_step(self, k, op, sel, p, c, is_arr):
        P, T = p["T"], c["T"]
        tol = self._np_tol(P, T)
        if op == "up":
            if len(T) != 4 * len(P):
                return False, f"(a) up_sample: {len(P)} triangles became {len(T)}, expected {4 * len(P)}"
            d = np_set_diff(T, np_children(P), tol, f"stage {k}: (a) up_sample children")
            if d:
                return False, d
            if abs(p["area"] - c["area"]) > 4e-9 * max(1.0, p["area"]):
                return False, f"(a) up_sample: total area {p['area']} -> {c['area']}"
            qa = np.sort(np.abs(np_area2(T)))
            pa = np.sort(np.repeat(np.abs(np_area2(P)) / 4, 4))
            if len(qa) and np.abs(qa - pa).max() > 8 * tol * max(1.0, float(np.abs(T).max())):
                return False, "(a) up_sample: children are not one quarter of their parents' areas"
            if len(P):
                from scipy.spatial import cKDTree

                dist, _ = cKDTree(T.reshape(-1, 2)).query(P.reshape(-1, 2), k=1, p=np.inf)
                if dist.max() > tol:
                    return False, (f"(a) up_sample: original vertex {P.reshape(-1, 2)[int(dist.argmax())].tolist()} "
                                   f"is lost")
            if not is_arr and (c["side"] != p["side"] / 2 or not c["flipped"]):
                pass  # representation detail; the lattice statement of the stage already ties side/flip to T
            return True, ""
        if op == "nb":
            d = np_set_diff(T, np_neighbours(P), tol, f"stage {k}: (c) neighbourhood")
            if d:
                return False, d
            if not is_arr and len(np.unique(np.rint(c["C"]).astype(np.int64), axis=0)) != len(T):
                return False, f"stage {k}: (c) neighbourhood contains a triangle twice"
            return True, ""
        if len(sel) and (sel.min() < 0 or sel.max() >= len(P)):
            return False, f"stage {k}: (d) selection addresses no triangle of the set"
        S = P[sel]
        if len(S) != len(T):
            return False, f"(d) for_indexes: {len(S)} selected, {len(T)} returned"
        bad = np.where(~np_rows_match(T, S, tol))[0] if len(T) else []
        if len(bad):
            return False, (f"stage {k}: (d) for_indexes: returned triangle {int(bad[0])} {T[bad[0]].tolist()} is not "
                           f"the selected triangle {int(sel[bad[0]])} {S[bad[0]].tolist()} ({len(bad)} such)")
        return True, ""

    @staticmethod
    def _big_judge_contain(T, s, got, label, margin=1e-7):
        ref = shape_ref(s)
        p = (float(ref[0]), float(ref[1]))
        if len(got) and (got.min() < 0 or got.max() >= len(T)):
            return False, f"{label}: reports index {int(got.max())} but the set has {len(T)} triangles"
        rep = np.zeros(len(T), dtype=bool)
        rep[got] = True
        nondeg, m = np_bary_min(T, p)
        miss = np.where(nondeg & (m >= margin) & ~rep)[0]
        if len(miss):
            return False, (f"{label}: (d) triangle {int(miss[0])} {T[miss[0]].tolist()} contains the {s['kind']}'s "
                           f"reference point {p} but is not reported ({len(miss)} such)")
        if s["kind"] == "point":
            extra = np.where(nondeg & (m <= -margin) & rep)[0]
            if len(extra):
                return False, f"{label}: (d) triangle {int(extra[0])} reported as containing a point outside it"
        return True, ""

    # ------------------------------------------------------------------ round 4: constant-directed cases
    def generate_large(self, hints, rng):
        """cases on both sides of every new integer constant c of the anchored source, in every size dimension of
        the property: coordinate MAGNITUDE (any c), refinement DEPTH (c <= 44), number of TRIANGLES of a
        coordinate / vertex-array set and of for_limits_and_scale sets (so also vertices, 4x children, 4x
        neighbours), length of an INDEX subset, number of polygon vertices (c <= BIG_MAX_N / 6000)."""
        def around(c):
            return [c - 1, c, c + 1, c + c // 3 + 1, 2 * c + 1]

        hints = sorted({int(h) for h in hints})
        # 1. magnitude: around every hint and around the format limits, both signs, both axes, both flip states
        mags = sorted({m for c in hints for m in around(c) if m >= 8} | set(self.MAG_FIXED) | {2 ** 24, 2 ** 31})
        yield from self._mag_cases(rng, mags, "large_mag")
        # 2. depth of repeated up-sampling
        depths = sorted({d for c in hints if c <= 44 for d in (c - 1, c, c + 1) if 2 <= d <= 46} | {24, 28})
        for d in depths:
            yield self._deep_case(rng, d, f"large_deep_{d}", d % 3, d % 2 == 0)
        # 3. sizes
        est = 0.0
        for c in hints:
            for n in (c + 1, c, c + c // 3 + 1, c - 1, 2 * c + 1):     # most telling first
                lean = n > 20000
                cost = n * (2e-4 if lean else 4e-4)                    # measured, pure Python / numpy, busy machine
                if n < 8 or n > self.BIG_MAX_N or est + cost > 45.0:
                    continue
                est += cost
                yield from self._big_cases(rng, n, c, lean)

    def _big_cases(self, rng, n, c, lean=False):
        side = rng.choice(["1/2", "1", "3/2", "1/4"])
        w = max(3, int(math.isqrt(n) * rng.choice([0.37, 0.61, 1.9, 3.3])))     # non-square boxes, off-origin
        rc = {"x0": rng.randint(-40, 40) - w // 2, "y0": rng.randint(-25, 25), "w": w, "n": n, "side": side,
              "x_offset": q(gen.dyadic(rng, -4, 4, 3)), "y_offset": q(gen.dyadic(rng, -4, 4, 3)),
              "flipped": rng.random() < 0.5, "dtype": rng.choice(["int64", "float64", "int64"])}
        pt_c = coord_triangle(rc["x0"] + w // 2, rc["y0"] + (n // w) // 2, F(side), F(rc["x_offset"]), F(rc["y_offset"]),
                              rc["flipped"])
        pc = self._pt(pt_c, (F(1, 2), F(1, 4) + F(1, 64), F(1, 4) - F(1, 64)))
        sub = {"idxr": {"mode": "stride", "k": n // 2 + 1, "seed": rng.randrange(1 << 30), "start": 3,
                        "step": rng.choice([1, 7, 11]), "form": rng.choice(["int64", "int32", "list"])}}
        boolsel = {"idxr": {"mode": "bool", "k": (2 * n) // 3, "seed": rng.randrange(1 << 30)}}
        rep = {"idxr": {"mode": "rand", "k": n + n // 3 + 1, "seed": rng.randrange(1 << 30), "form": "int64"}}
        variants = [(["up"], None), (["nb"], None), ([sub, "up"], None), ([boolsel, "nb"], pc if lean else None),
                    ([rep], pc), ([{"sel": {"kind": "circle", "x": pc["x"], "y": pc["y"], "radius": "3"}}, "nb",
                                   {"sel": pc}, "up"], pc)]
        for ops, shape in (variants[:2] + variants[3:4] + variants[5:] if lean else variants):
            case = {"tag": "large_coord", "kind": "big", "rep": "coord", "recipe": dict(rc), "ops": ops, "hint": c}
            if shape:
                case["shape"] = shape
            yield case
        # vertex-array sets: a sheared, anisotropic, off-origin triangulated grid (generic triangles, dyadic vertices)
        cols = max(2, int(math.isqrt(n // 2 + 1) * rng.choice([0.45, 1.7, 2.9])) + 1)
        rows = (n + 2 * (cols - 1) - 1) // (2 * (cols - 1)) + 1
        ra = {"rows": rows, "cols": cols, "n": n, "A": rng.choice([[["1", "1/4"], ["-1/8", "3/4"]], [["1/2", "0"], ["3/8", "2"]],
                                                                  [["3/2", "-1/2"], ["1/4", "1/2"]],
                                                                  # not dyadic: vertices that no narrower float holds
                                                                  [["1/3", "2/7"], ["-1/9", "5/11"]],
                                                                  [["7/5", "0"], ["3/13", "9/7"]]]),
              "b": [q(gen.dyadic(rng, -6, 6, 3)), q(gen.dyadic(rng, -6, 6, 3))],
              "index_dtype": rng.choice(["int64", "int32"])}
        va, ia = self._big_arr({**ra, "n": min(n, 4)})
        ta = tuple((F(float(v[0])), F(float(v[1]))) for v in va[ia[min(n, 4) - 1]])
        pa = self._pt(ta, (F(1, 4) + F(1, 32), F(1, 2), F(1, 4) - F(1, 32)))
        variants = [(["up"], None), (["nb"], None), ([sub, "nb"], None), ([boolsel, "up"], pa), ([rep], pa)]
        for ops, shape in (variants[:2] + variants[4:] if lean else variants):
            case = {"tag": "large_arr", "kind": "big", "rep": "arr", "recipe": dict(ra), "ops": ops, "hint": c}
            if shape:
                case["shape"] = shape
            yield case
        # sets from limits and scale with about n triangles (both representations)
        sc = rng.choice([F(1, 2), F(1), F(3, 4)])
        wx = F(max(2, int(math.isqrt(n) * rng.choice([0.5, 1.4]))))
        hy = max(F(1), (F(n) / (wx + 2) - 3) * F(866, 1000))      # about n coordinate triangles
        x0, y0 = gen.dyadic(rng, -9, 9, 2), gen.dyadic(rng, -9, 9, 2)
        lim = {"x_min": q(x0), "x_max": q(x0 + wx * sc / 2), "y_min": q(y0), "y_max": q(y0 + hy * sc),
               "scale": q(sc)}
        for repn in ("coord", "arr"):
            for ops in (["up"], ["nb"]):
                if lean and (repn == "coord") != (ops == ["up"]):
                    continue
                yield {"tag": f"large_{repn}_limits", "kind": "big", "rep": repn, "recipe": {"limits": lim}, "ops": ops,
                       "hint": c}
        # a polygon with about n vertices (n <= 6000: Polygon.mask is a Python loop over its fan triangles)
        if n <= 6000:
            k = max(3, n)
            ang = [2 * math.pi * i / k for i in range(k)]
            small = {**rc, "n": min(n, 600) + 7, "w": 23}
            ps = self._pt(coord_triangle(small["x0"] + 3, small["y0"], F(side), F(rc["x_offset"]), F(rc["y_offset"]),
                                         rc["flipped"]), (F(1, 2), F(1, 4), F(1, 4)))
            cx, cy = F(ps["x"]), F(ps["y"])
            vs = [[q(cx + F(round(math.cos(a) * 64), 64)), q(cy + F(round(math.sin(a) * 48), 64))] for a in ang]
            yield {"tag": "large_polygon", "kind": "big", "rep": "coord", "recipe": small, "ops": [],
                   "shape": {"kind": "polygon", "vertices": vs}, "hint": c}

    # ------------------------------------------------------------------ model
    def _layout(self, case):
        """the driver requests of one world, as slots (depends on the case only, not on the observation)"""
        ops = case["ops"]
        slots = []
        if case["kind"] == "coord" and "limits" in case:
            slots.append(("limits",))
        for k in range(len(ops) + 1):
            slots.append(("stage", k))
            for i in range(len(case.get("probe", []))):
                slots.append(("probe", k, i))
            if k > 0 and isinstance(ops[k - 1], dict) and ops[k - 1].get("fault") == "flaky_shape":
                slots.append(("after", k))
        if "shape" in case:
            slots.append(("shape",))
        return slots

    @staticmethod
    def _probe_specs(case, k):
        """the probe shapes as they are after the first k steps (shape_edit steps edit them in place)"""
        specs = [dict(s) for s in case.get("probe", [])]
        for op in case["ops"][:k]:
            if isinstance(op, dict) and "shape_edit" in op:
                e = op["shape_edit"]
                for key in ("x", "y", "radius"):
                    if key in e:
                        specs[int(e["i"])][key] = e[key]
        return specs

    def _model_chain(self, case, obs, k):
        """(anchor set, model operations) describing a FRESH object in the state after the first k steps"""
        st0 = obs["stages"][0]
        if case["kind"] == "arr":
            anchor = {"vertices": st0["vertices"], "indices": st0["indices"]}
        elif "limits" in case:
            anchor = {"coords": st0["coords"], "side": case["limits"]["scale"], "x_offset": "0",
                      "y_offset": "0", "flipped": False}
        else:
            anchor = {key: case[key] for key in ("coords", "side", "x_offset", "y_offset", "flipped")}
        mops = []
        for j, op in enumerate(case["ops"][:k]):
            if not isinstance(op, dict) or "idx" in op:
                mops.append(op)
            elif "sel" in op:
                mops.append({"idx": obs["stages"][j + 1]["sel_idx"]})
            elif "edit" in op:
                prev = obs["stages"][j]
                vs = [list(v) for v in prev["vertices"]]
                vs[int(op["edit"]["v"])] = [q(F(op["edit"]["to"][0])), q(F(op["edit"]["to"][1]))]
                anchor, mops = {"vertices": vs, "indices": prev["indices"]}, []
            # fault / shape_edit steps leave the set as it is
        return anchor, mops

    def _world_requests(self, case, obs):
        reqs = []
        for slot in self._layout(case):
            if slot[0] == "limits":
                reqs.append({"op": "c20.coord_limits", "h": q(H), **case["limits"]})
            elif slot[0] == "stage":
                anchor, mops = self._model_chain(case, obs, slot[1])
                if case["kind"] == "arr":
                    reqs.append({"op": "c20.arr_chain", "arr": anchor, "ops": mops})
                else:
                    reqs.append({"op": "c20.coord_chain", "coord": anchor, "h": q(H), "ops": mops})
            elif slot[0] == "probe":
                reqs.append({"op": "c20.shape_mask", "triangles": obs["stages"][slot[1]]["triangles"],
                             "shape": self._drv_shape(self._probe_specs(case, slot[1])[slot[2]])})
            elif slot[0] == "after":
                op = case["ops"][slot[1] - 1]
                reqs.append({"op": "c20.shape_mask", "triangles": obs["stages"][slot[1]]["triangles"],
                             "shape": {"kind": "point", "x": op["x"], "y": op["y"]}})
            else:
                reqs.append({"op": "c20.shape_mask", "triangles": obs["stages"][-1]["triangles"],
                             "shape": self._drv_shape(case["shape"])})
        return reqs

    def model_requests(self, case, impl_obs):
        if "err" in impl_obs or case["kind"] == "big":
            return []      # "big" cases: no model comparison, the vectorised oracle alone judges them
        if case["kind"] == "own":   # the model's value for a FRESH world, asked once (from the first observation)
            first = impl_obs["rounds"][0][0]
            return [] if has_nonfinite(first) else self._world_requests(case["world"], first)
        if case["kind"] == "multi":
            return [r for w, o in zip(case["worlds"], impl_obs["worlds"]) for r in self._world_requests(w, o)]
        return self._world_requests(case, impl_obs)

    def _world_model_obs(self, case, responses):
        for r in responses:
            if "err" in r:
                return {"err": r["err"]}
        out = {"stages": [], "probes": {}, "after": {}}
        for slot, r in zip(self._layout(case), responses):
            r = r["ok"]
            if slot[0] == "limits":
                out["limits_coords"] = r
            elif slot[0] == "stage":
                out["stages"].append(r)
            elif slot[0] == "probe":
                out["probes"][f"{slot[1]}:{slot[2]}"] = r
            elif slot[0] == "after":
                out["after"][str(slot[1])] = r
            else:
                out["containing"], out["ref"] = r["indices"], r["ref"]
        return out

    def model_obs(self, case, responses):
        if case["kind"] == "own":
            return self._world_model_obs(case["world"], responses)
        if case["kind"] == "multi":
            out, a = [], 0
            for w in case["worlds"]:
                n = len(self._layout(w))
                out.append(self._world_model_obs(w, responses[a:a + n]))
                a += n
            return {"worlds": out}
        return self._world_model_obs(case, responses)

    def _limits_band(self, case):
        """int() truncations of for_limits_and_scale inside the 1e-9 band of an integer?"""
        L = {k: F(v) for k, v in case["limits"].items()}
        vals = [2 * L["x_min"] / L["scale"], 2 * L["x_max"] / L["scale"],
                L["y_min"] / (H * L["scale"]), L["y_max"] / (H * L["scale"])]
        for v in vals:
            r = round(v)
            if v != r and abs(v - r) <= 4 * TOL * max(1, abs(v)):
                return True
            if v == r and not exact_as_float(v):
                return True
        # y quotients equal to an integer only when 0 (h irrational): v == r == 0 is exact
        return False

    def compare(self, case, impl_obs, model_obs, cmp):
        if "err" in impl_obs or "err" in model_obs:
            return cmp.diff(impl_obs, model_obs)
        if case["kind"] == "multi":
            for i, (w, oi, om) in enumerate(zip(case["worlds"], impl_obs["worlds"], model_obs["worlds"])):
                d = cmp.diff(oi, om) if ("err" in oi or "err" in om) else self._world_compare(w, oi, om, cmp)
                if d:
                    return f"world {i}: {d}"
            return None
        if case["kind"] == "own":
            seen = []
            for r, phases in enumerate(impl_obs["rounds"]):
                for ph, o in zip("ab", phases):
                    if o in seen:       # identical to an observation already compared
                        continue
                    seen.append(o)
                    d = self._world_compare(case["world"], o, model_obs, cmp)
                    if d:
                        return f"round {r}{ph} ({self.OWN_PHASE[ph]}): {d}"
            return None
        return self._world_compare(case, impl_obs, model_obs, cmp)

    OWN_PHASE = {"a": "world rebuilt from fresh inputs after the earlier arrays were edited in place by their owner",
                 "b": "derived again from the same root after the derived objects' arrays were edited in place"}

    def _world_compare(self, case, impl_obs, model_obs, cmp):
        if has_nonfinite(impl_obs):
            return "$: the observation contains non-finite values (nan / inf)"
        if "unit" in case:      # decades stream: judge in units of the world's own scale 2^k (exact rescaling)
            inv = 1 / F(case["unit"])
            d = self._world_compare({k: v for k, v in scale_world(case, inv).items() if k != "unit"},
                                    scale_obs(impl_obs, inv), scale_obs(model_obs, inv), cmp)
            return d and f"{d} [lengths in units of the world's scale {self._unit_str(case['unit'])}]"
        is_arr = case["kind"] == "arr"
        if "limits_coords" in model_obs:
            if self._limits_band(case):
                raise Skip("for_limits_and_scale truncation inside the 1e-9 band")
            d = cmp.diff(sorted(impl_obs["stages"][0]["coords"]), sorted(model_obs["limits_coords"]),
                         "$.limits.coords")
            if d:
                return d
        for k, (si, sm) in enumerate(zip(impl_obs["stages"], model_obs["stages"])):
            p = f"$.stages[{k}]"
            ti, tm = [fr_tri(t) for t in si["triangles"]], [fr_tri(t) for t in sm["triangles"]]
            tol = TOL * scale_of(tm)
            ops_so_far = case["ops"][:k]
            count_fixed = "nb" not in ops_so_far or not is_arr
            if count_fixed:
                d = cmp.diff(si["n"], sm["n"], p + ".n")
                if d:
                    return d
                d = cmp.diff(si["area"], sm["area"], p + ".area")
                if d:
                    return d
            d = set_diff(ti, tm, tol, p + ".triangles")
            if d:
                return d
            cmp.exact += 1
            if not is_arr:
                d = cmp.diff(sorted(si["coords"]), sorted(sm["coords"]), p + ".coords")
                if d:
                    return d
                for key in ("side", "x_offset", "y_offset", "flipped"):
                    d = cmp.diff(si[key], sm[key], f"{p}.{key}")
                    if d:
                        return d
                # flip mask per coordinate (as a multiset of (coord, flag))
                fi = sorted(zip(map(tuple, si["coords"]), si["flip_mask"]))
                fm = sorted(zip(map(tuple, sm["coords"]), sm["flip_mask"]))
                d = cmp.diff([[list(a), b] for a, b in fi], [[list(a), b] for a, b in fm], p + ".flip_mask")
                if d:
                    return d
                d = set_diff([fr_tri(t) for t in si["view_triangles"]],
                             [fr_tri(t) for t in sm["view_triangles"]], tol, p + ".view_triangles")
                if d:
                    return d
            # round 4: containing_indices of every probe shape at every stage (fresh-object expectation)
            specs = self._probe_specs(case, k) if "containing" in si else []
            for i, spec in enumerate(specs):
                band = self._band(ti, spec, (F(si["refs"][i][0]), F(si["refs"][i][1])))
                b = [x for x in model_obs["probes"][f"{k}:{i}"]["indices"] if x not in band]
                for key in ("containing", "containing_direct"):
                    if key in si:
                        a = [x for x in si[key][i] if x not in band]
                        d = cmp.diff(a, b, f"{p}.{key}[{i}]")
                        if d:
                            return d
            if "after" in si:
                op = case["ops"][k - 1]
                spec = {"kind": "point", "x": op["x"], "y": op["y"]}
                band = self._band(ti, spec, (F(si["after_ref"][0]), F(si["after_ref"][1])))
                a = [x for x in si["after"] if x not in band]
                b = [x for x in model_obs["after"][str(k)]["indices"] if x not in band]
                d = cmp.diff(a, b, f"{p}.containing_after_fault")
                if d:
                    return d
        if "containing" in impl_obs:
            band = self._band_triangles(case, impl_obs)
            a = [i for i in impl_obs["containing"] if i not in band]
            b = [i for i in model_obs["containing"] if i not in band]
            d = cmp.diff(a, b, "$.containing")
            if d:
                return d
        return None

    # which triangles have a containment decision inside the float band for this shape
    def _band_triangles(self, case, obs):
        ts = [fr_tri(t) for t in obs["stages"][-1]["triangles"]]
        return self._band(ts, case["shape"], (F(obs["ref"][0]), F(obs["ref"][1])))

    def _band(self, ts, s, ref):
        band = set()
        for i, t in enumerate(ts):
            if self._near(t, ref):
                band.add(i)
            cen = ((t[0][0] + t[1][0] + t[2][0]) / 3, (t[0][1] + t[1][1] + t[2][1]) / 3)
            if s["kind"] == "circle":
                r2 = F(s["radius"]) ** 2
                d2 = (cen[0] - F(s["x"])) ** 2 + (cen[1] - F(s["y"])) ** 2
                if abs(d2 - r2) <= 8 * TOL * max(r2, d2, 1):
                    band.add(i)
            elif s["kind"] == "square":
                for a, b in ((F(s["left"]), cen[0]), (F(s["right"]), cen[0]), (F(s["top"]), cen[1]),
                             (F(s["bottom"]), cen[1])):
                    if abs(a - b) <= 8 * TOL * max(1, abs(a)):
                        band.add(i)
            elif s["kind"] == "polygon":
                vs = [(F(a), F(b)) for a, b in s["vertices"]]
                for sec, thi in zip(vs[1:], vs[2:]):
                    # the code tests the centroid against the TRANSPOSED fan triangle and the fan
                    # triangle's own mean against t
                    tt = tuple((v[1], v[0]) for v in (vs[0], sec, thi))
                    if self._near(tt, cen):
                        band.add(i)
                    m = ((vs[0][0] + sec[0] + thi[0]) / 3, (vs[0][1] + sec[1] + thi[1]) / 3)
                    if self._near(t, m):
                        band.add(i)
        return band

    @staticmethod
    def _near(t, p):
        """barycentric decision for p in t is float-fragile: non-degenerate, some coordinate within
        1e-9 of 0, and the quantities are not exactly representable."""
        d = area2(t)
        if d == 0:
            return False
        o = [orient(t[0], t[1], p) / d, orient(t[1], t[2], p) / d, orient(t[2], t[0], p) / d]
        if min(abs(v) for v in o) > 8 * TOL:
            return False
        exact = all(exact_as_float(v) for v in o) and all(
            exact_as_float(c) and abs(c.numerator) < 2**20 and c.denominator < 2**20
            for v in t for c in v) and all(exact_as_float(c) and c.denominator < 2**20 for c in p)
        return not exact

    # ------------------------------------------------------------------ oracle
    def oracle(self, case, obs):
        if "err" in obs:
            return False, f"implementation raised {obs}"
        if case["kind"] == "big":
            return bool(obs["verdict"][0]), obs["verdict"][1]
        if case["kind"] == "multi":
            for i, (w, o) in enumerate(zip(case["worlds"], obs["worlds"])):
                ok, d = self._world_oracle(w, o)
                if not ok:
                    return False, f"world {i} (history order {case.get('order', 'seq')}): {d}"
            return True, ""
        if case["kind"] == "own":
            seen = []
            for r, phases in enumerate(obs["rounds"]):
                for ph, o in zip("ab", phases):
                    if o in seen:
                        continue
                    seen.append(o)
                    ok, d = self._world_oracle(case["world"], o)
                    if not ok:
                        return False, f"round {r}{ph} ({self.OWN_PHASE[ph]}): {d}"
            return True, ""
        return self._world_oracle(case, obs)

    def _oracle_contain(self, ts, s, got, label):
        """(d) a triangle is reported as containing a shape whenever the shape's reference point lies inside
        it; for a point nothing else is reported; reported indices address triangles of THIS set."""
        ref = shape_ref(s)
        gs = set(got)
        for i in got:
            if not 0 <= i < len(ts):
                return False, f"{label}: reports index {i} but the set has {len(ts)} triangles"
        for i, t in enumerate(ts):
            ins, margin = inside_closed(t, ref)
            if ins and i not in gs:
                if margin <= 8 * TOL and self._near(t, ref):
                    continue
                return False, (f"{label}: (d) triangle {i} {[tuple(map(float, v)) for v in t]} contains the "
                               f"{s['kind']}'s reference point {tuple(map(float, ref))} but is not reported")
            if s["kind"] in POINT_KINDS and not ins and i in gs and margin > 8 * TOL:
                return False, f"{label}: (d) triangle {i} reported as containing a point outside it"
        return True, ""

    def _lattice_step(self, k, op, pst, st):
        """exact statement of one step of a coordinate set in terms of the integer coordinates the
        implementation reports: the lattice triangles of the new coordinates are the midpoint children /
        the edge reflections / the selection of the lattice triangles of the old ones, at a tolerance tied
        to the TRIANGLE size (1e-9*side), whatever the magnitude of the coordinates."""
        ps, pxo, pyo = F(pst["side"]), F(pst["x_offset"]), F(pst["y_offset"])
        cs, cxo, cyo = F(st["side"]), F(st["x_offset"]), F(st["y_offset"])
        P = [coord_triangle(x, y, ps, pxo, pyo, pst["flipped"]) for x, y in pst["coords"]]
        C = [coord_triangle(x, y, cs, cxo, cyo, st["flipped"]) for x, y in st["coords"]]
        if op == "up":
            E, what = [c for t in P for c in expected_children(t)], "(a,b) up_sample"
        elif op == "nb":
            E, what = [c for t in P for c in expected_neighbours(t)], "(c) neighbourhood"
        else:
            E, what = [P[i] for i in op["idx"]], "(d) for_indexes"
        tol = TOL * min(ps, cs) + 4 * F(EPS) * max(abs(pyo), abs(cyo), abs(pxo), abs(cxo), 1)
        kc, ke = lattice_keys(C, ps, pxo, pyo, tol), lattice_keys(E, ps, pxo, pyo, tol)
        if kc is None:
            return False, (f"stage {k}: {what}: the lattice triangles of the new coordinates do not lie on the "
                           f"midpoint lattice of the old ones (side/offsets inconsistent)")
        from collections import Counter

        a, b = (set(kc), set(ke)) if op == "nb" else (Counter(kc), Counter(ke))
        if a != b:
            extra = [t for t in (a if op == "nb" else list(a.elements())) if t not in b][:1]
            miss = [t for t in (b if op == "nb" else list(b.elements())) if t not in a][:1]
            return False, (f"stage {k}: {what}: integer coordinates {st['coords'][:6]}... describe lattice triangles "
                           f"that are not exactly the expected ones of {pst['coords'][:6]}... "
                           f"(in units side/4, h*side/2: unexpected {extra}, missing {miss})")
        return True, ""

    @staticmethod
    def _unit_str(u):
        u = F(u)
        k = u.numerator.bit_length() - 1 if u >= 1 else -(u.denominator.bit_length() - 1)
        return f"2^{k}" if F(2) ** k == u else str(u)

    def _world_oracle(self, case, obs):
        if has_nonfinite(obs):
            for k, st in enumerate(obs.get("stages", [])):
                if has_nonfinite(st):
                    return False, (f"stage {k} (after {self._ops_str(case['ops'][:k])}): the set reports non-finite "
                                   f"(nan / inf) triangles, vertices or area for finite inputs")
            return False, "the observation contains non-finite values for finite inputs"
        if "unit" in case:      # decades stream: the statement in units of the world's own scale 2^k (exact rescaling)
            inv = 1 / F(case["unit"])
            ok, d = self._world_oracle({k: v for k, v in scale_world(case, inv).items() if k != "unit"},
                                       scale_obs(obs, inv))
            return ok, (d if ok else f"{d} [lengths in units of the world's scale {self._unit_str(case['unit'])}]")
        is_arr = case["kind"] == "arr"
        stages = obs["stages"]
        for k, st in enumerate(stages):
            ts = [fr_tri(t) for t in st["triangles"]]
            tol = TOL * scale_of(ts)
            # the structure is self-consistent
            if st["n"] != len(ts):
                return False, f"stage {k}: len() = {st['n']} but {len(ts)} triangles"
            if is_arr:
                vs = [(F(a), F(b)) for a, b in st["vertices"]]
                for r, t in zip(st["indices"], ts):
                    if tuple(vs[i] for i in r) != t:
                        return False, f"stage {k}: vertices[indices] != triangles"
                ex = sum(abs(area2(t)) for t in ts) / 2
                if abs(F(st["area"]) - ex) > TOL * max(1, ex):
                    return False, f"stage {k}: area {float(F(st['area']))} != sum of triangle areas {float(ex)}"
            else:
                if not st["coords_integral"]:
                    return False, f"stage {k}: non-integer coordinates"
                side, xo, yo = F(st["side"]), F(st["x_offset"]), F(st["y_offset"])
                exp = [coord_triangle(x, y, side, xo, yo, st["flipped"]) for x, y in st["coords"]]
                d = set_diff(ts, exp, tol, f"stage {k}: triangles vs equilateral lattice triangles")
                if d:
                    return False, d
                ex = H / 2 * side * side * len(ts)
                if abs(F(st["area"]) - ex) > TOL * max(1, ex):
                    return False, f"stage {k}: area"
                # (d) the array view of the coordinate set describes the same triangles
                vt = [fr_tri(t) for t in st["view_triangles"]]
                if len(vt) != len(ts) or any(set_diff([a], [b], tol, "") for a, b in zip(vt, ts)):
                    return False, f"stage {k}: with_vertices(vertices) does not describe the same triangles"
                vv = [tuple(v) for v in st["view_vertices"]]
                if len(set(vv)) != len(vv):
                    return False, f"stage {k}: duplicate rows in the unique vertex table"
            if k == 0 and not is_arr and "coords" in case:
                # "arbitrary integer coordinates, side lengths, offsets and flip states": the set built from these
                # parameters describes the lattice triangles OF THESE parameters (not merely some consistent set)
                exp0 = [coord_triangle(x, y, F(case["side"]), F(case["x_offset"]), F(case["y_offset"]), case["flipped"])
                        for x, y in case["coords"]]
                if len(exp0) != len(ts) or any(set_diff([a], [b], tol, "") for a, b in zip(ts, exp0)):
                    return False, (f"stage 0: the set built from side={float(F(case['side']))!r}, offsets=("
                                   f"{float(F(case['x_offset']))!r}, {float(F(case['y_offset']))!r}), flipped={case['flipped']} "
                                   f"does not describe the lattice triangles of these parameters (it reports side="
                                   f"{float(F(st['side']))!r}, offsets=({float(F(st['x_offset']))!r}, "
                                   f"{float(F(st['y_offset']))!r}), flipped={st['flipped']})")
            if k == 0 and is_arr and "vertices" in case and "indices" in case:
                vs0 = [(F(a), F(b)) for a, b in case["vertices"]]
                if [tuple(vs0[i] for i in r) for r in case["indices"]] != ts:
                    return False, "stage 0: the triangles of the set are not vertices[indices] of the arrays it was built from"
            if k == 0 and not is_arr and "limits" in case:
                # "produced from limits and scale": the triangles have side `scale` on the un-shifted lattice
                if F(st["side"]) != F(case["limits"]["scale"]) or F(st["x_offset"]) != 0 or F(st["y_offset"]) != 0 \
                        or st["flipped"]:
                    return False, (f"for_limits_and_scale(scale={float(F(case['limits']['scale']))!r}) returned a set of "
                                   f"side {float(F(st['side']))!r}, offsets ({st['x_offset']}, {st['y_offset']}), "
                                   f"flipped={st['flipped']}")
            # round 4: every probe shape, at every stage of the history
            if "containing" in st:
                for i, spec in enumerate(self._probe_specs(case, k)):
                    for key in ("containing", "containing_direct"):
                        if key in st:
                            ok, d = self._oracle_contain(ts, spec, st[key][i],
                                                         f"stage {k} (after {self._ops_str(case['ops'][:k])}) probe {i}"
                                                         + (" (mask called directly)" if key != "containing" else ""))
                            if not ok:
                                return False, d
            if k == 0:
                continue
            op = case["ops"][k - 1]
            prev = [fr_tri(t) for t in stages[k - 1]["triangles"]]
            ptol = TOL * max(scale_of(prev), scale_of(ts))
            if isinstance(op, dict) and "sel" in op:
                ok, d = self._oracle_contain(prev, op["sel"], st["sel_idx"], f"stage {k} selection")
                if not ok:
                    return False, d
                op = {"idx": st["sel_idx"]}
            if isinstance(op, dict) and ("fault" in op or "shape_edit" in op or "same" in op):
                # the step leaves the set alone: the same object must still describe the same triangles
                if len(ts) != len(prev) or set_diff(ts, prev, ptol, ""):
                    return False, (f"stage {k}: the set changed although the step ({op}) does not alter it "
                                   f"(fault-then-reuse / shape edit / same set in another container)")
                if not is_arr and st["coords"] != stages[k - 1]["coords"]:
                    return False, f"stage {k}: coordinates changed by a step that does not alter the set"
                if "after" in st:
                    ok, d = self._oracle_contain(ts, {"kind": "point", "x": op["x"], "y": op["y"]}, st["after"],
                                                 f"stage {k} query after a failed query")
                    if not ok:
                        return False, d
                continue
            if isinstance(op, dict) and "edit" in op:
                # in-place edit of one vertex: the triangles are those of a fresh set with that vertex table
                pv = [(F(a), F(b)) for a, b in stages[k - 1]["vertices"]]
                pv[int(op["edit"]["v"])] = (F(op["edit"]["to"][0]), F(op["edit"]["to"][1]))
                exp = [tuple(pv[i] for i in r) for r in stages[k - 1]["indices"]]
                if len(exp) != len(ts) or set_diff(ts, exp, ptol, ""):
                    return False, (f"stage {k}: after editing vertex {op['edit']['v']} in place the set does not "
                                   f"describe the triangles of the edited vertex table (stale derived state)")
                continue
            sharp = (not is_arr) and scale_of(ts) > SHARP_RATIO * min(F(st["side"]), F(stages[k - 1]["side"]))
            if sharp:
                ok, d = self._lattice_step(k, op, stages[k - 1], st)
                if not ok:
                    return False, d
            if op == "up":
                # (a) count x4, area conserved, exact tiling by midpoint children, old vertices kept
                if len(ts) != 4 * len(prev):
                    return False, f"(a) up_sample: {len(prev)} triangles became {len(ts)}, expected {4*len(prev)}"
                exp = [c for t in prev for c in expected_children(t)]
                d = set_diff(ts, exp, ptol, "(a) up_sample children")
                if d:
                    return False, d
                a0, a1 = F(stages[k - 1]["area"]), F(st["area"])
                if abs(a0 - a1) > 4 * TOL * max(1, a0):
                    return False, f"(a) up_sample: total area {float(a0)} -> {float(a1)}"
                q4 = sorted(abs(area2(t)) for t in ts)
                p4 = sorted(abs(area2(t)) / 4 for t in prev for _ in range(4))
                qtol = 8 * ptol * max(1, scale_of(ts))
                if any(abs(x - y) > qtol for x, y in zip(q4, p4)):
                    return False, "(a) up_sample: children are not one quarter of their parents' areas"
                newv = [v for t in ts for v in t]
                for t in prev:
                    for v in t:
                        if not any(abs(v[0] - w[0]) <= ptol and abs(v[1] - w[1]) <= ptol for w in newv):
                            return False, f"(a) up_sample: original vertex {tuple(map(float, v))} is lost"
            elif op == "nb":
                exp = [c for t in prev for c in expected_neighbours(t)]
                d = set_diff(ts, exp, ptol, "(c) neighbourhood")
                if d:
                    return False, d
            else:
                if any(not 0 <= i < len(prev) for i in op["idx"]):
                    return False, f"(d) for_indexes: selection {op['idx'][:8]} addresses no triangle of the set"
                sel = [prev[i] for i in op["idx"]]
                if len(ts) != len(sel):
                    return False, f"(d) for_indexes: {len(sel)} selected, {len(ts)} returned"
                d = set_diff(ts, sel, ptol, "(d) for_indexes: returned vs selected triangles")
                if d:
                    return False, d
        if not is_arr and "array_route" in obs:
            # both representations of the same set give the same triangles after the same chain
            ar = [fr_tri(t) for t in obs["array_route"]["triangles"]]
            fin = [fr_tri(t) for t in stages[-1]["triangles"]]
            sc = max(scale_of(fin), scale_of(ar))
            d = set_diff(fin, ar, TOL * sc * 4, "(b,c) coordinate route vs vertex-array route")
            if d:
                return False, d
            if "nb" not in case["ops"]:
                if obs["array_route"]["n"] != stages[-1]["n"]:
                    return False, "(b) counts differ between the representations"
                a0, a1 = F(obs["array_route"]["area"]), F(stages[-1]["area"])
                # the vertex-array area formula cancels: far from the origin (scale >> side) its float error is
                # ~eps*scale^2, so there the 1e-9 is taken relative to scale^2 as for the vertices themselves
                far = sc > SHARP_RATIO * F(stages[-1]["side"])
                if abs(a0 - a1) > 4 * TOL * max(1, a0, sc * sc if far else 0):
                    return False, "(b) areas differ between the representations"
        if "containing" in obs:
            ts = [fr_tri(t) for t in stages[-1]["triangles"]]
            ok, d = self._oracle_contain(ts, case["shape"], obs["containing"], "final query")
            if not ok:
                return False, d
        return True, ""

    @staticmethod
    def _ops_str(ops):
        return "-".join(o if isinstance(o, str) else next(iter(o)) for o in ops) or "build"

    def nontrivial(self, case, obs):
        if "err" in obs:
            return False
        if case["kind"] == "own":
            return self.nontrivial(case["world"], obs["rounds"][0][0])
        if case["kind"] == "big":
            return obs.get("n0", 0) > 0 and len(case["ops"]) + ("shape" in case) > 0
        if case["kind"] == "multi":
            return any(self.nontrivial(w, o) for w, o in zip(case["worlds"], obs["worlds"]))
        ts = [fr_tri(t) for t in obs["stages"][0]["triangles"]]
        if not any(area2(t) != 0 for t in ts):
            return False
        if "containing" in obs:
            return 0 < len(obs["containing"]) < len(obs["stages"][-1]["triangles"]) or len(ts) == 1
        return len(case["ops"]) > 0

    def shrink(self, case):
        if case["kind"] == "big":
            return
        if case["kind"] == "own":     # the history (rounds, scribbling) is the point: only the world shrinks
            for w2 in self.shrink(case["world"]):
                yield {**case, "world": w2}
            return
        if case["kind"] == "multi":
            ws = case["worlds"]
            if len(ws) > 2:     # never below two worlds: the history (shared objects, order) is the point, and a
                for i in range(len(ws)):   # single world may only fail here because of state left in this process
                    yield {**case, "worlds": ws[:i] + ws[i + 1:]}
            for i, w in enumerate(ws):
                for w2 in self.shrink(w):
                    if not (case.get("share_root") and any(w2.get(k) != w.get(k) for k in
                                                           ("coords", "vertices", "indices", "limits"))):
                        yield {**case, "worlds": ws[:i] + [w2] + ws[i + 1:]}
            return
        plain = not any(isinstance(o, dict) for o in case["ops"])
        no_idx = not any(isinstance(o, dict) and ("idx" in o or "edit" in o) for o in case["ops"])
        if case["kind"] == "coord" and "coords" in case and len(case["coords"]) > 1 and no_idx:
            for i in range(len(case["coords"])):
                yield {**case, "coords": case["coords"][:i] + case["coords"][i + 1:]}
        if len(case["ops"]) > 1 and plain:
            yield {**case, "ops": case["ops"][:-1]}
            yield {**case, "ops": case["ops"][1:]}
        elif len(case["ops"]) > 0 and not plain:
            yield {**case, "ops": case["ops"][:-1]}       # a prefix of a history is a history
            if no_idx and not any(isinstance(o, dict) and "shape_edit" in o for o in case["ops"]):
                yield {**case, "ops": case["ops"][1:]}
        if case.get("decoy"):
            yield {k: v for k, v in case.items() if k != "decoy"}
        if len(case.get("probe", [])) > 1 and not any(isinstance(o, dict) and "shape_edit" in o for o in case["ops"]):
            for i in range(len(case["probe"])):
                yield {**case, "probe": case["probe"][:i] + case["probe"][i + 1:]}

    def sample_view(self, case):
        """large / long cases are recipes already; cap what goes into the evidence"""
        c = {k: v for k, v in case.items() if k != "_impl"}
        if case.get("kind") == "multi":
            return {**c, "worlds": [self.sample_view(w) for w in case["worlds"]]}
        if case.get("kind") == "own":
            return {**c, "world": self.sample_view(case["world"])}
        for key in ("coords", "vertices", "indices"):
            if isinstance(c.get(key), list) and len(c[key]) > 400:
                c[key] = {"n": len(c[key]), "first": c[key][:8], "last": c[key][-4:]}
        return c

    def theorems_for(self, case):
        if case["kind"] == "own":
            return self.theorems_for(case["world"])
        if case["kind"] == "multi":
            return sorted({t for w in case["worlds"] for t in self.theorems_for(w)})
        if case["kind"] == "big":
            case = {"kind": case["rep"], **({"shape": 1} if "shape" in case else {})}
        if "shape" in case or "probe" in case:
            return ["C20.d_point_mask_iff", "C20.d_shape_masks_contain_reference_point", "C20.d_for_indexes",
                    "C20.c_coord_neighbours", "C20.c_neighbourhood_array"]
        if case["kind"] == "coord":
            return ["C20.b_coord_up_sample_structure", "C20.b_coord_children_are_midpoint_children",
                    "C20.b_coord_up_sample_same_triangles", "C20.c_coord_neighbours",
                    "C20.c_coord_neighbourhood_same_triangles", "C20.d_array_view", "C20.d_for_indexes"]
        return ["C20.a_up_sample_is_midpoint_children", "C20.a_area_conserved",
                "C20.a_children_cover_parent", "C20.c_neighbourhood_array", "C20.d_for_indexes"]


CHECK = C20()
