"""C20 — triangle up-sampling tiles exactly; neighbourhoods and selections are faithful."""
from __future__ import annotations

import itertools
import math
from fractions import Fraction

import numpy as np

import gen
from common import PropertyCheck, Skip, load_autoarray, q

F = Fraction
TOL = F(1, 10**9)
H_FLOAT = 3**0.5 / 2          # the same expression as abstract.HEIGHT_FACTOR
H = F(H_FLOAT)


# ------------------------------------------------------------------------------------------------
# exact helpers
# ------------------------------------------------------------------------------------------------
def fr_tri(t):
    return tuple((F(v[0]), F(v[1])) for v in t)


def tris_from_array(a):
    """(N,3,2) float array -> list of triangles of exact Fractions."""
    return [tuple((F(float(v[0])), F(float(v[1]))) for v in t) for t in np.asarray(a, dtype=float)]


def tris_json(ts):
    return [[[q(v[0]), q(v[1])] for v in t] for t in ts]


def orient(a, b, c):
    return (b[0] - a[0]) * (c[1] - a[1]) - (b[1] - a[1]) * (c[0] - a[0])


def area2(t):
    return orient(t[0], t[1], t[2])


def scale_of(ts):
    m = F(1)
    for t in ts:
        for v in t:
            m = max(m, abs(v[0]), abs(v[1]))
    return m


class TriSet:
    """set of triangles (vertex order irrelevant) with tolerance matching."""

    CELL = 1e-6

    def __init__(self, ts, tol):
        self.tol = float(tol)
        self.items = [sorted((float(v[0]), float(v[1])) for v in t) for t in ts]
        self.grid = {}
        for i, t in enumerate(self.items):
            self.grid.setdefault(self._key(t), []).append(i)

    def _cells(self, x):
        c = math.floor(x / self.CELL)
        out = {c, math.floor((x - self.tol) / self.CELL), math.floor((x + self.tol) / self.CELL)}
        return out

    def _key(self, t):
        return tuple(math.floor(c / self.CELL) for v in t for c in v)

    def _close(self, a, b):
        return all(abs(a[i][j] - b[i][j]) <= self.tol for i in range(3) for j in range(2))

    def contains(self, t):
        tf = sorted((float(v[0]), float(v[1])) for v in t)
        cands = [self._cells(c) for v in tf for c in v]
        for key in itertools.product(*cands):
            for i in self.grid.get(key, ()):
                if self._close(self.items[i], tf):
                    return True
        # slow path: any vertex permutation (float noise could reorder nearly-equal first columns)
        for it in self.items:
            for perm in itertools.permutations(tf):
                if self._close(it, perm):
                    return True
        return False


def set_diff(A, B, tol, what):
    """None if A and B describe the same set of triangles, else a message."""
    sa, sb = TriSet(A, tol), TriSet(B, tol)
    for t in A:
        if not sb.contains(t):
            return f"{what}: triangle {[tuple(map(float, v)) for v in t]} of impl is not in model/expected set"
    for t in B:
        if not sa.contains(t):
            return f"{what}: triangle {[tuple(map(float, v)) for v in t]} of model/expected set is missing in impl"
    return None


def mid(a, b):
    return ((a[0] + b[0]) / 2, (a[1] + b[1]) / 2)


def expected_children(t):
    """midpoint subdivision of one triangle (definition, independent of the code's ordering)."""
    a, b, c = t
    ab, bc, ca = mid(a, b), mid(b, c), mid(c, a)
    return [(a, ab, ca), (b, bc, ab), (c, ca, bc), (ab, bc, ca)]


def expected_neighbours(t):
    """the triangle and its three mirror images through the midpoints of its edges."""
    a, b, c = t
    ra = (b[0] + c[0] - a[0], b[1] + c[1] - a[1])
    rb = (a[0] + c[0] - b[0], a[1] + c[1] - b[1])
    rc = (a[0] + b[0] - c[0], a[1] + b[1] - c[1])
    return [(a, b, c), (ra, b, c), (a, rb, c), (a, b, rc)]


def coord_triangle(x, y, side, xo, yo, flipped, h=H):
    """vertex triangle of integer coordinate (x,y): independent restatement — equilateral triangle of
    side `side`, height h*side, centred (mid-height) at (side/2*x + xo, h*side*y + yo), pointing up
    when x+y is even (and the set is not flipped) else down."""
    cx = side / 2 * x + xo
    cy = h * side * y + yo
    up = ((x + y) % 2 == 0) != bool(flipped)
    s = 1 if up else -1
    hh = h * side / 2
    return ((cx, cy + s * hh), (cx + side / 2, cy - s * hh), (cx - side / 2, cy - s * hh))


def inside_closed(t, p):
    """(inside, margin): p in the closed non-degenerate triangle by orientation signs; margin = the
    smallest normalised |orientation| (0 = on an edge)."""
    d = area2(t)
    if d == 0:
        return False, F(0)
    o = [orient(t[0], t[1], p) / d, orient(t[1], t[2], p) / d, orient(t[2], t[0], p) / d]
    return all(v >= 0 for v in o), min(abs(v) for v in o)


def exact_as_float(fr):
    try:
        return F(float(fr)) == fr
    except OverflowError:
        return False


# ------------------------------------------------------------------------------------------------
class C20(PropertyCheck):
    pid = "C20"
    title = "triangles"
    rtol = TOL
    nontrivial_rule = (
        "a case is non-trivial when the set has >=1 non-degenerate triangle and (for chains) at least one "
        "operation, or (for shapes) at least one triangle contains the reference point and one does not; "
        "distinct = distinct (representation, set, operation chain / shape)"
    )
    exhaustive_note = {
        "quick": "coordinate form: every single coordinate in [-2,2]^2 x both flip states x chains "
                 "{up, nb, up-up, up-nb, nb-up} (fixed side/offsets)",
        "thorough": "coordinate form: every single coordinate in [-3,3]^2 and every pair of edge-adjacent "
                    "coordinates in [-2,2]^2 x both flip states x 7 chains",
    }
    modelled_functions = [
        "autoarray/structures/triangles/abstract.py:AbstractTriangles.__init__",
        "autoarray/structures/triangles/abstract.py:AbstractTriangles.__len__",
        "autoarray/structures/triangles/abstract.py:AbstractTriangles.area",
        "autoarray/structures/triangles/abstract.py:AbstractTriangles._up_sample_triangle",
        "autoarray/structures/triangles/abstract.py:AbstractTriangles._neighborhood_triangles",
        "autoarray/structures/triangles/abstract.py:AbstractTriangles.for_limits_and_scale",
        "autoarray/structures/triangles/abstract.py:AbstractTriangles.for_grid",
        "autoarray/structures/triangles/array.py:ArrayTriangles.triangles",
        "autoarray/structures/triangles/array.py:ArrayTriangles.containing_indices",
        "autoarray/structures/triangles/array.py:ArrayTriangles.for_indexes",
        "autoarray/structures/triangles/array.py:ArrayTriangles.up_sample",
        "autoarray/structures/triangles/array.py:ArrayTriangles.neighborhood",
        "autoarray/structures/triangles/array.py:ArrayTriangles.with_vertices",
        "autoarray/structures/triangles/abstract_coordinate_array.py:AbstractCoordinateArray.__init__",
        "autoarray/structures/triangles/abstract_coordinate_array.py:AbstractCoordinateArray.triangles",
        "autoarray/structures/triangles/abstract_coordinate_array.py:AbstractCoordinateArray.centres",
        "autoarray/structures/triangles/abstract_coordinate_array.py:AbstractCoordinateArray.flip_mask",
        "autoarray/structures/triangles/abstract_coordinate_array.py:AbstractCoordinateArray.vertices",
        "autoarray/structures/triangles/abstract_coordinate_array.py:AbstractCoordinateArray.indices",
        "autoarray/structures/triangles/abstract_coordinate_array.py:AbstractCoordinateArray.for_limits_and_scale",
        "autoarray/structures/triangles/abstract_coordinate_array.py:AbstractCoordinateArray.area",
        "autoarray/structures/triangles/abstract_coordinate_array.py:AbstractCoordinateArray.__len__",
        "autoarray/structures/triangles/coordinate_array.py:CoordinateArrayTriangles.flip_array",
        "autoarray/structures/triangles/coordinate_array.py:CoordinateArrayTriangles.up_sample",
        "autoarray/structures/triangles/coordinate_array.py:CoordinateArrayTriangles.neighborhood",
        "autoarray/structures/triangles/coordinate_array.py:CoordinateArrayTriangles._vertices_and_indices",
        "autoarray/structures/triangles/coordinate_array.py:CoordinateArrayTriangles.with_vertices",
        "autoarray/structures/triangles/coordinate_array.py:CoordinateArrayTriangles.for_indexes",
        "autoarray/structures/triangles/coordinate_array.py:CoordinateArrayTriangles.containing_indices",
        "autoarray/structures/triangles/shape.py:Point.__init__",
        "autoarray/structures/triangles/shape.py:Point.mask",
        "autoarray/structures/triangles/shape.py:centroid",
        "autoarray/structures/triangles/shape.py:Circle.__init__",
        "autoarray/structures/triangles/shape.py:Circle.mask",
        "autoarray/structures/triangles/shape.py:Triangle.__init__",
        "autoarray/structures/triangles/shape.py:Triangle.mask",
        "autoarray/structures/triangles/shape.py:Triangle.triangle_contains_mask",
        "autoarray/structures/triangles/shape.py:Polygon.__init__",
        "autoarray/structures/triangles/shape.py:Polygon.mask",
        "autoarray/structures/triangles/shape.py:Square.__init__",
        "autoarray/structures/triangles/shape.py:Square.mask",
    ]
    trusted_extra = [
        "HEIGHT_FACTOR = 3**0.5/2 is a free parameter h of the theorems; the driver receives the double's "
        "exact rational value",
        "np.unique / fancy indexing glue: modelled (sort + de-duplicate + inverse), exact float equality of "
        "coincident vertices is NOT modelled (sets are compared at 1e-9, multiplicity only where the "
        "property fixes the count)",
        "ArrayTriangles.for_limits_and_scale (np.arange) is used as a generator only; jax variants out of scope",
    ]
    assumptions = [
        "finite coordinates; containment decisions within 1e-9 (normalised barycentric) of an edge are not "
        "compared unless the float computation is exact",
    ]

    CHAINS_Q = [["up"], ["nb"], ["up", "up"], ["up", "nb"], ["nb", "up"]]
    CHAINS_T = CHAINS_Q + [["nb", "nb"], ["up", "up", "nb"]]

    # ------------------------------------------------------------------ generation
    def generate(self, tier, rng):
        quick = tier == "quick"
        chains = self.CHAINS_Q if quick else self.CHAINS_T
        # 1. exhaustive single coordinates
        R = 2 if quick else 3
        for x in range(-R, R + 1):
            for y in range(-R, R + 1):
                for fl in (False, True):
                    for ch in chains:
                        yield self._coord_case("exh_single", [[x, y]], F(3, 2), F(1, 4), F(-1, 2), fl, ch)
        if not quick:
            for x in range(-2, 3):
                for y in range(-2, 3):
                    for dx, dy in ((1, 0), (0, 1)):
                        for fl in (False, True):
                            for ch in chains:
                                yield self._coord_case("exh_pair", [[x, y], [x + dx, y + dy]], F(1), F(0),
                                                       F(3, 8), fl, ch)
        # 2. random coordinate sets
        n = 120 if quick else 1200
        sides = [F(1, 4), F(1, 2), F(1), F(3, 2), F(2), F(3), F(5, 8)]
        for i in range(n):
            k = rng.randint(1, 10)
            span = rng.choice([2, 4, 9])
            coords = [[rng.randint(-span, span), rng.randint(-span, span)] for _ in range(k)]
            if rng.random() < 0.2 and k > 1:
                coords[-1] = list(coords[0])  # duplicate row
            side = rng.choice(sides)
            xo = gen.dyadic(rng, -4, 4, 3) if rng.random() < 0.7 else F(0)
            yo = gen.dyadic(rng, -4, 4, 3) if rng.random() < 0.7 else F(0)
            fl = rng.random() < 0.5
            ch = self._random_chain(rng, k)
            c = self._coord_case("rand_coord", coords, side, xo, yo, fl, ch)
            c["coord_dtype"] = ["int64", "int32", "float64", "int64"][i % 4]
            c["int_scalars"] = i % 2 == 0
            if i % 3 == 0:
                c["shape"] = self._shape_for(rng, [coord_triangle(x, y, side, xo, yo, fl) for x, y in coords])
                c["ops"] = [] if rng.random() < 0.6 else ["up"]
                c["tag"] = "rand_coord_shape_" + c["shape"]["kind"]
            yield c
        # 3. coordinate sets from limits and scale
        n = 40 if quick else 300
        for i in range(n):
            x0, y0 = gen.dyadic(rng, -3, 3, 2), gen.dyadic(rng, -3, 3, 2)
            w, hh = gen.pos_dyadic(rng, 1, 3, 2), gen.pos_dyadic(rng, 1, 3, 2)
            scale = rng.choice([F(1, 2), F(1), F(3, 2), F(2), F(3, 4)])
            ch = rng.choice([[], ["up"], ["nb"], ["up", "nb"]])
            c = {"tag": "coord_limits", "kind": "coord", "limits":
                 {"x_min": q(x0), "x_max": q(x0 + w), "y_min": q(y0), "y_max": q(y0 + hh), "scale": q(scale)},
                 "ops": ch}
            if i % 4 == 0:
                c["shape"] = self._shape_for(rng, [coord_triangle(0, 0, scale, F(0), F(0), False)])
                c["ops"] = []
            yield c
        # 4. vertex-array sets
        n = 120 if quick else 1200
        for i in range(n):
            nv = rng.randint(3, 9)
            verts = [[gen.dyadic(rng, -8, 8, 3), gen.dyadic(rng, -8, 8, 3)] for _ in range(nv)]
            if rng.random() < 0.2:
                verts[-1] = list(verts[0])  # coincident vertices with different indices
            nt = rng.randint(1, 7)
            idx = []
            for _ in range(nt):
                if rng.random() < 0.1:
                    a = rng.randrange(nv)
                    idx.append([a, a, rng.randrange(nv)])  # degenerate
                else:
                    idx.append(rng.sample(range(nv), 3))
            if rng.random() < 0.3 and nt > 1:
                # a neighbour pair sharing an edge (reflection of one vertex)
                a, b, c = idx[0]
                verts.append([verts[b][0] + verts[c][0] - verts[a][0], verts[b][1] + verts[c][1] - verts[a][1]])
                idx[1] = [len(verts) - 1, c, b]
            ch = self._random_chain(rng, nt)
            c = {"tag": "rand_arr", "kind": "arr", "vertices": [[q(a), q(b)] for a, b in verts],
                 "indices": idx, "ops": ch}
            if i % 4 == 1:
                verts = [[F(round(a)), F(round(b))] for a, b in verts]
                c["vertices"] = [[q(a), q(b)] for a, b in verts]
                c["vert_form"] = "int64"
                c["int_scalars"] = True
                c["tag"] = "rand_arr_int64"
            elif i % 4 == 2:
                c["vert_form"] = "float32"   # dyadic, |v| <= 16 with 3 fractional bits: exact in float32
            if i % 3 == 0:
                ts = [tuple((F(verts[j][0]), F(verts[j][1])) for j in tr) for tr in idx]
                c["shape"] = self._shape_for(rng, ts)
                c["ops"] = []
                c["tag"] = "rand_arr_shape_" + c["shape"]["kind"]
            yield c
        # 4b. round-3 hardening: every index-subset form x both representations (seed independent),
        #     integer-dtype / float32 vertices and coordinates, int scalars, empty and for_grid sets
        coords6 = [[0, 0], [1, 0], [1, 1], [-2, 1], [3, -2], [0, -1]]
        verts6 = [["0", "0"], ["4", "0"], ["0", "4"], ["4", "4"], ["-2", "1"], ["1", "-3"]]
        idx6 = [[0, 1, 2], [1, 3, 2], [4, 0, 2], [5, 1, 0], [4, 5, 3]]
        sels = {"int64": [4, 1, 1], "int32": [0, 3], "list": [2, 2, 0], "bool": [1, 2], "bool_list": [0, 1, 4],
                "empty": []}
        for form, sel in sels.items():
            for tail in ([], ["up"], ["nb"]):
                op = {"idx": sel, "form": form}
                for k, vform in enumerate(["float64", "int64", "float32"]):
                    yield {"tag": f"idxform_arr_{form}", "kind": "arr", "vertices": verts6, "indices": idx6,
                           "ops": [op] + tail, "vert_form": vform, "index_dtype": "int32" if k == 1 else "int64"}
                for k, cdt in enumerate(["int64", "int32", "float64"]):
                    c = self._coord_case(f"idxform_coord_{form}", coords6, F(2), F(1), F(-3), k == 2, [op] + tail)
                    c["coord_dtype"] = cdt
                    c["int_scalars"] = k != 1
                    yield c
        for ch in ([], ["up"], ["nb"], [{"idx": [], "form": "list"}]):
            yield self._coord_case("empty_coord_set", [], F(1), F(0), F(0), False, ch)
            yield {"tag": "empty_arr_set", "kind": "arr", "vertices": verts6, "indices": [], "ops": ch}
        # (a 1x1 grid / zero-extent limits box yields NO triangle and a float `indices` array whose
        #  `.triangles` raises IndexError: not a triangle set, outside the quantifier — see design note)
        for (h_, w_), ps_ in (((3, 3), "1"), ((2, 4), "1/2"), ((2, 2), "2")):
            for ch in (["up"], ["nb"], [{"idx": [0], "form": "bool_list"}]):
                yield {"tag": "arr_for_grid", "kind": "arr", "grid": {"shape": [h_, w_], "ps": ps_}, "ops": ch}
        # 5. vertex-array sets from limits and scale
        n = 25 if quick else 200
        for i in range(n):
            y0, x0 = gen.dyadic(rng, -2, 2, 2), gen.dyadic(rng, -2, 2, 2)
            hh, w = gen.pos_dyadic(rng, 2, 2, 2), gen.pos_dyadic(rng, 2, 2, 2)
            scale = rng.choice([F(1, 2), F(1), F(3, 4)])
            yield {"tag": "arr_limits", "kind": "arr", "limits":
                   {"y_min": q(y0), "y_max": q(y0 + hh), "x_min": q(x0), "x_max": q(x0 + w), "scale": q(scale)},
                   "ops": rng.choice([["up"], ["nb"], ["up", "nb"], [{"idx": [0]}, "up"]])}

    IDX_FORMS = ["int64", "int32", "list", "bool", "bool_list", "empty"]

    def _idx_op(self, rng, n, form=None, kmax=None):
        """an index-subset operation in one of the forms numpy fancy indexing accepts on axis 0:
        integer ndarray (int64 / int32), Python list of ints, boolean mask (ndarray / list), empty."""
        form = form or rng.choice(self.IDX_FORMS)
        if form == "empty" or n == 0:
            return {"idx": [], "form": "empty" if form in ("empty", "bool", "bool_list") else form}
        k = rng.randint(1, max(1, min(n, kmax or n)))
        if form in ("bool", "bool_list"):
            return {"idx": sorted(rng.sample(range(n), k)), "form": form}
        return {"idx": [rng.randrange(n) for _ in range(k)], "form": form}

    def _random_chain(self, rng, n):
        r = rng.random()
        if r < 0.12:
            return ["up"]
        if r < 0.24:
            return ["nb"]
        if r < 0.32:
            return ["up", "up"]
        if r < 0.44:
            return ["up", "nb"]
        if r < 0.52:
            return ["nb", "up"]
        if r < 0.58:
            return ["nb", "nb"]
        if r < 0.72:
            return [self._idx_op(rng, n)]
        if r < 0.88:
            return [self._idx_op(rng, n), rng.choice(["up", "nb"])]
        return ["up", self._idx_op(rng, 4 * n, kmax=5), "nb"]

    def _coord_case(self, tag, coords, side, xo, yo, fl, ch):
        return {"tag": tag, "kind": "coord", "coords": coords, "side": q(side), "x_offset": q(xo),
                "y_offset": q(yo), "flipped": bool(fl), "ops": ch}

    def _shape_for(self, rng, ts):
        """a shape whose reference point is placed relative to one of the triangles `ts`."""
        t = ts[rng.randrange(len(ts))]
        r = rng.random()
        if r < 0.25:
            w = rng.choice([(F(1, 2), F(1, 2), F(0)), (F(1), F(0), F(0)), (F(0), F(1, 4), F(3, 4)),
                            (F(0), F(0), F(1))])   # on an edge / at a vertex
        elif r < 0.7:
            a = F(rng.randint(1, 6), 8)
            b = F(rng.randint(0, 8 - int(a * 8)), 8)
            w = (a, b, 1 - a - b)                   # inside (possibly on an edge)
        elif r < 0.85:
            w = (F(1, 2) + F(1, 2**20), F(1, 2) - F(1, 2**20) - F(1, 2**21), F(1, 2**21))  # hugging an edge
        else:
            w = (F(rng.randint(-8, 16), 8), F(rng.randint(-8, 16), 8), 0)
            w = (w[0], w[1], 1 - w[0] - w[1])       # anywhere (often outside)
        px = sum(w[i] * t[i][0] for i in range(3))
        py = sum(w[i] * t[i][1] for i in range(3))
        px, py = F(float(px)), F(float(py))
        kind = rng.choice(["point", "point", "circle", "square", "polygon"])
        if kind == "point":
            return {"kind": "point", "x": q(px), "y": q(py)}
        if kind == "circle":
            rad = rng.choice([F(0), F(1, 64), F(1, 4), F(1), F(3)])
            return {"kind": "circle", "x": q(px), "y": q(py), "radius": q(rad)}
        if kind == "square":
            hw, hh = rng.choice([F(1, 128), F(1, 8), F(1), F(2)]), rng.choice([F(1, 128), F(1, 8), F(1)])
            return {"kind": "square", "top": q(py - hh), "bottom": q(py + hh), "left": q(px - hw),
                    "right": q(px + hw)}
        # polygon with mean exactly (px,py): symmetric offsets
        k = rng.randint(3, 6)
        offs = [(gen.dyadic(rng, -2, 2, 3), gen.dyadic(rng, -2, 2, 3)) for _ in range(k - 1)]
        last = (-sum(o[0] for o in offs), -sum(o[1] for o in offs))
        offs.append(last)
        sc = rng.choice([F(1, 64), F(1, 4), F(1)])
        return {"kind": "polygon", "vertices": [[q(px + sc * a), q(py + sc * b)] for a, b in offs]}

    # ------------------------------------------------------------------ implementation
    def _build(self, aa_mod, case):
        from autoarray.structures.triangles.array import ArrayTriangles
        from autoarray.structures.triangles.coordinate_array import CoordinateArrayTriangles

        ints = case.get("int_scalars", False)

        def fl(v):
            fr = F(v)
            return int(fr) if ints and fr.denominator == 1 else float(fr)

        if case["kind"] == "arr":
            if "limits" in case:
                L = case["limits"]
                return ArrayTriangles.for_limits_and_scale(
                    y_min=fl(L["y_min"]), y_max=fl(L["y_max"]), x_min=fl(L["x_min"]), x_max=fl(L["x_max"]),
                    scale=fl(L["scale"]))
            if "grid" in case:
                g = case["grid"]
                return ArrayTriangles.for_grid(grid=aa_mod.Grid2D.uniform(
                    shape_native=tuple(g["shape"]), pixel_scales=float(F(g["ps"]))))
            vform = case.get("vert_form", "float64")
            if vform == "int64":
                verts = np.array([[int(F(a)), int(F(b))] for a, b in case["vertices"]], dtype=np.int64)
            else:
                verts = np.array([[float(F(a)), float(F(b))] for a, b in case["vertices"]],
                                 dtype=np.float32 if vform == "float32" else float)
            idt = {"int32": np.int32}.get(case.get("index_dtype"), np.int64)
            return ArrayTriangles(indices=np.array(case["indices"], dtype=idt).reshape(-1, 3),
                                  vertices=verts.reshape(-1, 2))
        if "limits" in case:
            L = case["limits"]
            return CoordinateArrayTriangles.for_limits_and_scale(
                x_min=fl(L["x_min"]), x_max=fl(L["x_max"]), y_min=fl(L["y_min"]), y_max=fl(L["y_max"]),
                scale=fl(L["scale"]))
        cdt = {"int32": np.int32, "float64": float}.get(case.get("coord_dtype"), np.int64)
        return CoordinateArrayTriangles(
            coordinates=np.array(case["coords"], dtype=cdt).reshape(-1, 2), side_length=fl(case["side"]),
            x_offset=fl(case["x_offset"]), y_offset=fl(case["y_offset"]), flipped=case["flipped"])

    @staticmethod
    def _routes_comparable(ops):
        """index selections address each representation's own ordering; up_sample / neighborhood
        order their output differently in the two representations, so the two routes are only
        comparable when every selection comes before the first up/nb."""
        seen = False
        for o in ops:
            if isinstance(o, dict):
                if seen:
                    return False
            else:
                seen = True
        return True

    @staticmethod
    def _apply(obj, op):
        if op == "up":
            return obj.up_sample()
        if op == "nb":
            return obj.neighborhood()
        form = op.get("form", "int64")
        idx = [int(i) for i in op["idx"]]
        if form in ("bool", "bool_list"):
            n = len(np.asarray(obj.triangles))
            m = [i in set(idx) for i in range(n)]
            return obj.for_indexes(np.array(m, dtype=bool) if form == "bool" else m)
        if form == "list":
            return obj.for_indexes(idx)
        if form == "empty":
            return obj.for_indexes([])
        return obj.for_indexes(np.array(idx, dtype=np.int32 if form == "int32" else np.int64))

    @staticmethod
    def _obs_arr(a):
        tr = np.asarray(a.triangles, dtype=float)
        return {"triangles": tris_json(tris_from_array(tr)), "n": int(len(a)),
                "area": q(float(a.area)) if len(tr) else "0",
                "vertices": [[q(float(v[0])), q(float(v[1]))] for v in np.asarray(a.vertices, dtype=float)],
                "indices": [[int(i) for i in r] for r in np.asarray(a.indices)]}

    @staticmethod
    def _obs_coord(c):
        co = np.asarray(c.coordinates)
        tr = np.asarray(c.triangles, dtype=float)
        view = c.with_vertices(c.vertices)
        return {"coords": [[int(v[0]), int(v[1])] for v in co], "coords_integral":
                bool(np.all(co == np.round(co))),
                "side": q(float(c.side_length)), "x_offset": q(float(c.x_offset)),
                "y_offset": q(float(c.y_offset)), "flipped": bool(c.flipped),
                "triangles": tris_json(tris_from_array(tr)),
                "flip_mask": [bool(b) for b in np.asarray(c.flip_mask)],
                "area": q(float(c.area)), "n": int(len(c)),
                "view_triangles": tris_json(tris_from_array(np.asarray(view.triangles, dtype=float))),
                "view_vertices": [[q(float(v[0])), q(float(v[1]))] for v in np.asarray(view.vertices)]}

    def run_impl(self, case):
        aa = load_autoarray()
        from autoarray.structures.triangles import shape as sh

        obj = self._build(aa, case)
        is_arr = case["kind"] == "arr"
        ob = self._obs_arr if is_arr else self._obs_coord
        stages = [ob(obj)]
        for op in case["ops"]:
            obj = self._apply(obj, op)
            stages.append(ob(obj))
        obs = {"stages": stages}
        if not is_arr and self._routes_comparable(case["ops"]):
            # the same chain in the vertex-array representation of the same set
            start = self._build(aa, case)
            arr = start.with_vertices(start.vertices)
            for op in case["ops"]:
                arr = self._apply(arr, op)
            obs["array_route"] = {"triangles": tris_json(tris_from_array(np.asarray(arr.triangles, dtype=float))),
                                  "area": q(float(arr.area)), "n": int(len(arr))}
        if "shape" in case:
            s = case["shape"]
            ints = case.get("int_scalars", False)

            def fl(v):
                fr = F(v)
                return int(fr) if ints and fr.denominator == 1 else float(fr)

            if s["kind"] == "point":
                shp = sh.Point(x=fl(s["x"]), y=fl(s["y"]))
            elif s["kind"] == "circle":
                shp = sh.Circle(x=fl(s["x"]), y=fl(s["y"]), radius=fl(s["radius"]))
            elif s["kind"] == "square":
                shp = sh.Square(top=fl(s["top"]), bottom=fl(s["bottom"]), left=fl(s["left"]), right=fl(s["right"]))
            else:
                shp = sh.Polygon(vertices=[[fl(a), fl(b)] if ints else (fl(a), fl(b)) for a, b in s["vertices"]])
            obs["containing"] = [int(i) for i in np.asarray(obj.containing_indices(shp))]
            obs["ref"] = [q(float(shp.x)), q(float(shp.y))]
        return obs

    # ------------------------------------------------------------------ model
    def model_requests(self, case, impl_obs):
        if "err" in impl_obs:
            return []
        st0 = impl_obs["stages"][0]
        reqs = []
        ops = case["ops"]
        if case["kind"] == "arr":
            arr = {"vertices": st0["vertices"], "indices": st0["indices"]}
            for k in range(len(ops) + 1):
                reqs.append({"op": "c20.arr_chain", "arr": arr, "ops": ops[:k]})
        else:
            if "limits" in case:
                reqs.append({"op": "c20.coord_limits", "h": q(H), **case["limits"]})
                coord = {"coords": st0["coords"], "side": case["limits"]["scale"], "x_offset": "0",
                         "y_offset": "0", "flipped": False}
            else:
                coord = {k: case[k] for k in ("coords", "side", "x_offset", "y_offset", "flipped")}
            for k in range(len(ops) + 1):
                reqs.append({"op": "c20.coord_chain", "coord": coord, "h": q(H), "ops": ops[:k]})
        if "shape" in case:
            reqs.append({"op": "c20.shape_mask", "triangles": impl_obs["stages"][-1]["triangles"],
                         "shape": case["shape"]})
        return reqs

    def model_obs(self, case, responses):
        for r in responses:
            if "err" in r:
                return {"err": r["err"]}
        rs = [r["ok"] for r in responses]
        out = {}
        if case["kind"] == "coord" and "limits" in case:
            out["limits_coords"] = rs.pop(0)
        n = len(case["ops"]) + 1
        out["stages"] = rs[:n]
        if "shape" in case:
            out["containing"] = rs[n]["indices"]
            out["ref"] = rs[n]["ref"]
        return out

    def _limits_band(self, case):
        """int() truncations of for_limits_and_scale inside the 1e-9 band of an integer?"""
        L = {k: F(v) for k, v in case["limits"].items()}
        vals = [2 * L["x_min"] / L["scale"], 2 * L["x_max"] / L["scale"],
                L["y_min"] / (H * L["scale"]), L["y_max"] / (H * L["scale"])]
        for v in vals:
            r = round(v)
            if v != r and abs(v - r) <= 4 * TOL * max(1, abs(v)):
                return True
            if v == r and not exact_as_float(v):
                return True
        # y quotients equal to an integer only when 0 (h irrational): v == r == 0 is exact
        return False

    def compare(self, case, impl_obs, model_obs, cmp):
        if "err" in impl_obs or "err" in model_obs:
            return cmp.diff(impl_obs, model_obs)
        is_arr = case["kind"] == "arr"
        if "limits_coords" in model_obs:
            if self._limits_band(case):
                raise Skip("for_limits_and_scale truncation inside the 1e-9 band")
            d = cmp.diff(sorted(impl_obs["stages"][0]["coords"]), sorted(model_obs["limits_coords"]),
                         "$.limits.coords")
            if d:
                return d
        for k, (si, sm) in enumerate(zip(impl_obs["stages"], model_obs["stages"])):
            p = f"$.stages[{k}]"
            ti, tm = [fr_tri(t) for t in si["triangles"]], [fr_tri(t) for t in sm["triangles"]]
            tol = TOL * scale_of(tm)
            ops_so_far = case["ops"][:k]
            count_fixed = "nb" not in ops_so_far or not is_arr
            if count_fixed:
                d = cmp.diff(si["n"], sm["n"], p + ".n")
                if d:
                    return d
                d = cmp.diff(si["area"], sm["area"], p + ".area")
                if d:
                    return d
            d = set_diff(ti, tm, tol, p + ".triangles")
            if d:
                return d
            cmp.exact += 1
            if not is_arr:
                d = cmp.diff(sorted(si["coords"]), sorted(sm["coords"]), p + ".coords")
                if d:
                    return d
                for key in ("side", "x_offset", "y_offset", "flipped"):
                    d = cmp.diff(si[key], sm[key], f"{p}.{key}")
                    if d:
                        return d
                # flip mask per coordinate (as a multiset of (coord, flag))
                fi = sorted(zip(map(tuple, si["coords"]), si["flip_mask"]))
                fm = sorted(zip(map(tuple, sm["coords"]), sm["flip_mask"]))
                d = cmp.diff([[list(a), b] for a, b in fi], [[list(a), b] for a, b in fm], p + ".flip_mask")
                if d:
                    return d
                d = set_diff([fr_tri(t) for t in si["view_triangles"]],
                             [fr_tri(t) for t in sm["view_triangles"]], tol, p + ".view_triangles")
                if d:
                    return d
        if "containing" in impl_obs:
            band = self._band_triangles(case, impl_obs)
            a = [i for i in impl_obs["containing"] if i not in band]
            b = [i for i in model_obs["containing"] if i not in band]
            d = cmp.diff(a, b, "$.containing")
            if d:
                return d
        return None

    # which triangles have a containment decision inside the float band for this shape
    def _band_triangles(self, case, obs):
        ts = [fr_tri(t) for t in obs["stages"][-1]["triangles"]]
        s = case["shape"]
        band = set()
        pts_tests = []   # (point, triangle-as-shape or None)
        ref = (F(obs["ref"][0]), F(obs["ref"][1]))
        for i, t in enumerate(ts):
            if self._near(t, ref):
                band.add(i)
            cen = ((t[0][0] + t[1][0] + t[2][0]) / 3, (t[0][1] + t[1][1] + t[2][1]) / 3)
            if s["kind"] == "circle":
                r2 = F(s["radius"]) ** 2
                d2 = (cen[0] - F(s["x"])) ** 2 + (cen[1] - F(s["y"])) ** 2
                if abs(d2 - r2) <= 8 * TOL * max(r2, d2, 1):
                    band.add(i)
            elif s["kind"] == "square":
                for a, b in ((F(s["left"]), cen[0]), (F(s["right"]), cen[0]), (F(s["top"]), cen[1]),
                             (F(s["bottom"]), cen[1])):
                    if abs(a - b) <= 8 * TOL * max(1, abs(a)):
                        band.add(i)
            elif s["kind"] == "polygon":
                vs = [(F(a), F(b)) for a, b in s["vertices"]]
                for sec, thi in zip(vs[1:], vs[2:]):
                    # the code tests the centroid against the TRANSPOSED fan triangle and the fan
                    # triangle's own mean against t
                    tt = tuple((v[1], v[0]) for v in (vs[0], sec, thi))
                    if self._near(tt, cen):
                        band.add(i)
                    m = ((vs[0][0] + sec[0] + thi[0]) / 3, (vs[0][1] + sec[1] + thi[1]) / 3)
                    if self._near(t, m):
                        band.add(i)
        return band

    @staticmethod
    def _near(t, p):
        """barycentric decision for p in t is float-fragile: non-degenerate, some coordinate within
        1e-9 of 0, and the quantities are not exactly representable."""
        d = area2(t)
        if d == 0:
            return False
        o = [orient(t[0], t[1], p) / d, orient(t[1], t[2], p) / d, orient(t[2], t[0], p) / d]
        if min(abs(v) for v in o) > 8 * TOL:
            return False
        exact = all(exact_as_float(v) for v in o) and all(
            exact_as_float(c) and abs(c.numerator) < 2**20 and c.denominator < 2**20
            for v in t for c in v) and all(exact_as_float(c) and c.denominator < 2**20 for c in p)
        return not exact

    # ------------------------------------------------------------------ oracle
    def oracle(self, case, obs):
        if "err" in obs:
            return False, f"implementation raised {obs}"
        is_arr = case["kind"] == "arr"
        stages = obs["stages"]
        for k, st in enumerate(stages):
            ts = [fr_tri(t) for t in st["triangles"]]
            tol = TOL * scale_of(ts)
            # the structure is self-consistent
            if st["n"] != len(ts):
                return False, f"stage {k}: len() = {st['n']} but {len(ts)} triangles"
            if is_arr:
                vs = [(F(a), F(b)) for a, b in st["vertices"]]
                for r, t in zip(st["indices"], ts):
                    if tuple(vs[i] for i in r) != t:
                        return False, f"stage {k}: vertices[indices] != triangles"
                ex = sum(abs(area2(t)) for t in ts) / 2
                if abs(F(st["area"]) - ex) > TOL * max(1, ex):
                    return False, f"stage {k}: area {float(F(st['area']))} != sum of triangle areas {float(ex)}"
            else:
                if not st["coords_integral"]:
                    return False, f"stage {k}: non-integer coordinates"
                side, xo, yo = F(st["side"]), F(st["x_offset"]), F(st["y_offset"])
                exp = [coord_triangle(x, y, side, xo, yo, st["flipped"]) for x, y in st["coords"]]
                d = set_diff(ts, exp, tol, f"stage {k}: triangles vs equilateral lattice triangles")
                if d:
                    return False, d
                ex = H / 2 * side * side * len(ts)
                if abs(F(st["area"]) - ex) > TOL * max(1, ex):
                    return False, f"stage {k}: area"
                # (d) the array view of the coordinate set describes the same triangles
                vt = [fr_tri(t) for t in st["view_triangles"]]
                if len(vt) != len(ts) or any(set_diff([a], [b], tol, "") for a, b in zip(vt, ts)):
                    return False, f"stage {k}: with_vertices(vertices) does not describe the same triangles"
                vv = [tuple(v) for v in st["view_vertices"]]
                if len(set(vv)) != len(vv):
                    return False, f"stage {k}: duplicate rows in the unique vertex table"
            if k == 0:
                continue
            op = case["ops"][k - 1]
            prev = [fr_tri(t) for t in stages[k - 1]["triangles"]]
            ptol = TOL * max(scale_of(prev), scale_of(ts))
            if op == "up":
                # (a) count x4, area conserved, exact tiling by midpoint children, old vertices kept
                if len(ts) != 4 * len(prev):
                    return False, f"(a) up_sample: {len(prev)} triangles became {len(ts)}, expected {4*len(prev)}"
                exp = [c for t in prev for c in expected_children(t)]
                d = set_diff(ts, exp, ptol, "(a) up_sample children")
                if d:
                    return False, d
                a0, a1 = F(stages[k - 1]["area"]), F(st["area"])
                if abs(a0 - a1) > 4 * TOL * max(1, a0):
                    return False, f"(a) up_sample: total area {float(a0)} -> {float(a1)}"
                q4 = sorted(abs(area2(t)) for t in ts)
                p4 = sorted(abs(area2(t)) / 4 for t in prev for _ in range(4))
                if any(abs(x - y) > 8 * ptol * max(1, scale_of(ts)) for x, y in zip(q4, p4)):
                    return False, "(a) up_sample: children are not one quarter of their parents' areas"
                newv = [v for t in ts for v in t]
                for t in prev:
                    for v in t:
                        if not any(abs(v[0] - w[0]) <= ptol and abs(v[1] - w[1]) <= ptol for w in newv):
                            return False, f"(a) up_sample: original vertex {tuple(map(float, v))} is lost"
            elif op == "nb":
                exp = [c for t in prev for c in expected_neighbours(t)]
                d = set_diff(ts, exp, ptol, "(c) neighbourhood")
                if d:
                    return False, d
            else:
                sel = [prev[i] for i in op["idx"]]
                if len(ts) != len(sel):
                    return False, f"(d) for_indexes: {len(sel)} selected, {len(ts)} returned"
                d = set_diff(ts, sel, ptol, "(d) for_indexes: returned vs selected triangles")
                if d:
                    return False, d
        if not is_arr and "array_route" in obs:
            # both representations of the same set give the same triangles after the same chain
            ar = [fr_tri(t) for t in obs["array_route"]["triangles"]]
            fin = [fr_tri(t) for t in stages[-1]["triangles"]]
            d = set_diff(fin, ar, TOL * max(scale_of(fin), scale_of(ar)) * 4,
                         "(b,c) coordinate route vs vertex-array route")
            if d:
                return False, d
            if "nb" not in case["ops"]:
                if obs["array_route"]["n"] != stages[-1]["n"]:
                    return False, "(b) counts differ between the representations"
                a0, a1 = F(obs["array_route"]["area"]), F(stages[-1]["area"])
                if abs(a0 - a1) > 4 * TOL * max(1, a0):
                    return False, "(b) areas differ between the representations"
        if "containing" in obs:
            ts = [fr_tri(t) for t in stages[-1]["triangles"]]
            s = case["shape"]
            # reference point of the shape, independently
            if s["kind"] in ("point", "circle"):
                ref = (F(s["x"]), F(s["y"]))
            elif s["kind"] == "square":
                ref = ((F(s["left"]) + F(s["right"])) / 2, (F(s["top"]) + F(s["bottom"])) / 2)
            else:
                vs = [(F(a), F(b)) for a, b in s["vertices"]]
                ref = (sum(v[0] for v in vs) / len(vs), sum(v[1] for v in vs) / len(vs))
            got = set(obs["containing"])
            for i, t in enumerate(ts):
                ins, margin = inside_closed(t, ref)
                if ins and i not in got:
                    if margin <= 8 * TOL and self._near(t, ref):
                        continue
                    return False, (f"(d) triangle {i} {[tuple(map(float, v)) for v in t]} contains the "
                                   f"{s['kind']}'s reference point {tuple(map(float, ref))} but is not reported")
                if s["kind"] == "point" and not ins and i in got and margin > 8 * TOL:
                    return False, f"(d) triangle {i} reported as containing a point outside it"
        return True, ""

    def nontrivial(self, case, obs):
        if "err" in obs:
            return False
        ts = [fr_tri(t) for t in obs["stages"][0]["triangles"]]
        if not any(area2(t) != 0 for t in ts):
            return False
        if "containing" in obs:
            return 0 < len(obs["containing"]) < len(obs["stages"][-1]["triangles"]) or len(ts) == 1
        return len(case["ops"]) > 0

    def shrink(self, case):
        if case["kind"] == "coord" and "coords" in case and len(case["coords"]) > 1 and not any(
                isinstance(o, dict) for o in case["ops"]):
            for i in range(len(case["coords"])):
                yield {**case, "coords": case["coords"][:i] + case["coords"][i + 1:]}
        if len(case["ops"]) > 1 and not any(isinstance(o, dict) for o in case["ops"]):
            yield {**case, "ops": case["ops"][:-1]}
            yield {**case, "ops": case["ops"][1:]}

    def theorems_for(self, case):
        if "shape" in case:
            return ["C20.d_point_mask_iff", "C20.d_shape_masks_contain_reference_point"]
        if case["kind"] == "coord":
            return ["C20.b_coord_up_sample_structure", "C20.b_coord_children_are_midpoint_children",
                    "C20.b_coord_up_sample_same_triangles", "C20.c_coord_neighbours",
                    "C20.c_coord_neighbourhood_same_triangles", "C20.d_array_view", "C20.d_for_indexes"]
        return ["C20.a_up_sample_is_midpoint_children", "C20.a_area_conserved",
                "C20.a_children_cover_parent", "C20.c_neighbourhood_array", "C20.d_for_indexes"]


CHECK = C20()
