"""entry point: ./check Cxx [--tier quick|thorough] [--replay path]"""
import argparse
import importlib
import os
import sys
import traceback

sys.path.insert(0, os.path.dirname(os.path.abspath(__file__)))
import common  # noqa: E402


def main():
    ap = argparse.ArgumentParser()
    ap.add_argument("pid")
    ap.add_argument("--tier", default=os.environ.get("VERIF_TIER", "quick"),
                    choices=["quick", "thorough"])
    ap.add_argument("--replay", default=None)
    ap.add_argument("--max-cases", type=int, default=None)
    a = ap.parse_args()
    seed = int(os.environ.get("VERIF_SEED", "0") or 0)
    pid = a.pid.upper()
    try:
        mod = importlib.import_module(f"props.{pid.lower()}")
        chk = mod.CHECK
        rc = common.run_check(chk, a.tier, seed, replay=a.replay, max_cases=a.max_cases)
    except Exception:
        traceback.print_exc()
        print(f"INTERNAL-ERROR property={pid}")
        rc = 2
    sys.exit(rc)


if __name__ == "__main__":
    main()
