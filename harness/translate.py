"""
harness/translate.py — a small Python → Lean 4 translator for the straight-line and simple-loop
functions of autoarray/geometry/geometry_util.py, grid_2d_util.grid_2d_slim_via_mask_from and
over_sample_util.grid_2d_slim_over_sampled_via_mask_from.

This is the second kind of tie the brief allows (model regenerated from the source on every run):
`generate(repo)` reads the CURRENT source, emits `lean/Generated/Geometry.lean` containing
  * one Lean definition per translated Python function (namespace `Generated`), and
  * one tie theorem per function (namespace `GeneratedTie`) stating that the generated definition is
    *definitionally* the hand-written model function of Model/Geometry.lean (`by rfl`),
so the kernel re-checks, on every run of C02 / C12, that the formulas the theorems of those properties
are about are the formulas the code contains now.  A change of the arithmetic in the Python (or an
unsupported construct) makes the file fail to build: the proof obligation is broken and the runner
falls through to the failing-input search (DESIGN §2.2).  A refactor that keeps the arithmetic
syntactically (renaming locals, reordering independent assignments, comments, docstrings, keyword
order) still builds.

Supported subset: `name = expr`, `return expr | (e1, e2) | (e,)`, arithmetic `+ - * /`, unary `-`,
numeric literals, `float(e)` (a cast of an integer expression), `int(e)` (the explicit parameter
`trunc`), constant subscripts of tuple parameters / locals, calls of other translated functions with
keyword arguments, and two loop shapes whose bodies are translated as a per-row / per-pixel function:
`for i in range(A.shape[0]): out[i, k] = expr(A[i, j], …)` and the mask double loop
`for y: for x: if not mask[y, x]: out[index, k] = expr(y, x, …); index += 1`.
"""
from __future__ import annotations

import ast
from fractions import Fraction
from pathlib import Path

GEOM = "autoarray/geometry/geometry_util.py"
GRID = "autoarray/structures/grids/grid_2d_util.py"
OVER = "autoarray/operators/over_sampling/over_sample_util.py"

# (file, python function, kind, lean name of the model function it must equal, how to apply it)
#   kind: "fn" straight-line; "row" per-row loop body; "pixel" mask double loop body
TARGETS = [
    (GEOM, "central_pixel_coordinates_1d_from", "fn"),
    (GEOM, "central_scaled_coordinate_1d_from", "fn"),
    (GEOM, "pixel_coordinates_1d_from", "fn"),
    (GEOM, "scaled_coordinates_1d_from", "fn"),
    (GEOM, "central_pixel_coordinates_2d_from", "fn"),
    (GEOM, "central_scaled_coordinate_2d_from", "fn"),
    (GEOM, "pixel_coordinates_2d_from", "fn"),
    (GEOM, "scaled_coordinates_2d_from", "fn"),
    (GEOM, "grid_pixels_2d_slim_from", "row"),
    (GEOM, "grid_pixel_centres_2d_slim_from", "row"),
    (GEOM, "grid_scaled_2d_slim_from", "row"),
    (GRID, "grid_2d_slim_via_mask_from", "pixel"),
    (OVER, "grid_2d_slim_over_sampled_via_mask_from", "pixel"),
]

# parameter name -> (lean binder name, lean type, python tuple arity (0 = scalar))
def param_info(fname, p):
    one_d = "_1d_" in fname
    if p in ("shape_native",):
        return ("shape", "Nat × Nat", 2, "nat")
    if p in ("shape_slim",):
        return ("n", "Nat", 1, "nat")
    if p in ("pixel_scales",):
        return ("s", "α" if one_d else "α × α", 1 if one_d else 2, "real")
    if p in ("origin", "origins"):
        return ("o", "α" if one_d else "α × α", 1 if one_d else 2, "real")
    if p in ("scaled_coordinates_1d", "pixel_coordinates_1d"):
        return ("p", "α", 1, "real")
    if p in ("scaled_coordinates_2d", "pixel_coordinates_2d"):
        return ("p", "α × α", 2, "real")
    if p in ("grid_scaled_2d_slim", "grid_pixels_2d_slim"):
        return ("row", "α × α", 2, "real")  # the loop's current row
    if p == "mask_2d":
        return ("shape", "Nat × Nat", 2, "nat")  # only `mask_2d.shape` is used by the pixel body
    if p == "sub_size":
        return (None, None, 0, "nat")  # read only as `sub = sub_size[index]`: becomes the binder `sub`
    raise TranslationError(f"{fname}: parameter {p!r} has no declared type")


class TranslationError(Exception):
    pass


def lit(v):
    if isinstance(v, bool):
        raise TranslationError("boolean literal")
    f = Fraction(v) if isinstance(v, int) else Fraction(str(v))
    if f < 0:
        raise TranslationError("negative literal")
    if f.denominator == 1:
        return f"((({f.numerator} : Nat) : α))"
    return f"((({f.numerator} : Nat) : α) / (({f.denominator} : Nat) : α))"


class FnTranslator:
    ns = "Generated"

    def __init__(self, fname, node, kind, known, ns="Generated"):
        self.ns = ns
        self.fname, self.node, self.kind, self.known = fname, node, kind, known
        self.params = [a.arg for a in node.args.args]
        self.env = {}  # python name -> (lean expr, arity, sort)
        self.binders = []
        for p in self.params:
            b, ty, ar, sort = param_info(fname, p)
            if b is None:
                continue
            self.env[p] = (b, ar, sort)
            if (b, ty) not in self.binders:
                self.binders.append((b, ty))
        self.uses_trunc = False
        self.lets = []
        self.loop_vars = {}

    # ------------------------------------------------------------------ expressions
    def proj(self, base, arity, k):
        if arity == 1:
            if k != 0:
                raise TranslationError("index into a 1-tuple")
            return base
        if arity == 2 and k in (0, 1):
            return f"{base}.{k + 1}"
        raise TranslationError(f"unsupported projection {k} of arity {arity}")

    def expr(self, e, want_real=True):
        if isinstance(e, ast.Constant) and isinstance(e.value, (int, float)):
            return lit(e.value)
        if isinstance(e, ast.Name):
            if e.id in self.loop_vars:
                return f"(({self.loop_vars[e.id]} : Nat) : α)"
            if e.id in self.env:
                b, ar, sort = self.env[e.id]
                if ar not in (0, 1):
                    raise TranslationError(f"tuple {e.id} used as a scalar")
                return f"(({b} : Nat) : α)" if sort == "nat" else b
            raise TranslationError(f"unknown name {e.id}")
        if isinstance(e, ast.UnaryOp) and isinstance(e.op, ast.USub):
            return f"(-{self.expr(e.operand)})"
        if isinstance(e, ast.BinOp) and isinstance(e.op, (ast.Add, ast.Sub, ast.Mult, ast.Div)):
            op = {ast.Add: "+", ast.Sub: "-", ast.Mult: "*", ast.Div: "/"}[type(e.op)]
            return f"({self.expr(e.left)} {op} {self.expr(e.right)})"
        if isinstance(e, ast.Subscript):
            return self.subscript(e)
        if isinstance(e, ast.Call):
            return self.call(e)
        raise TranslationError(f"unsupported expression {ast.unparse(e)}")

    def subscript(self, e):
        v, sl = e.value, e.slice
        # mask_2d.shape[k]
        if isinstance(v, ast.Attribute) and v.attr == "shape" and isinstance(v.value, ast.Name):
            b, ar, sort = self.env[v.value.id]
            if isinstance(sl, ast.Constant):
                return f"(({self.proj(b, 2, sl.value)} : Nat) : α)"
        if isinstance(v, ast.Name) and v.id in self.env:
            b, ar, sort = self.env[v.id]
            if isinstance(sl, ast.Constant) and isinstance(sl.value, int):
                pr = self.proj(b, ar, sl.value)
                return f"(({pr} : Nat) : α)" if sort == "nat" else pr
            # A[i, j] with i the loop variable: the current row
            if isinstance(sl, ast.Tuple) and len(sl.elts) == 2 and isinstance(sl.elts[0], ast.Name) \
                    and sl.elts[0].id in self.row_vars and isinstance(sl.elts[1], ast.Constant):
                return self.proj(b, 2, sl.elts[1].value)
        raise TranslationError(f"unsupported subscript {ast.unparse(e)}")

    row_vars = ()

    def call(self, e):
        f = e.func
        name = f.id if isinstance(f, ast.Name) else (f.attr if isinstance(f, ast.Attribute) else None)
        if name == "float" and len(e.args) == 1:
            return self.expr(e.args[0])
        if name == "int" and len(e.args) == 1:
            self.uses_trunc = True
            return f"(trunc {self.expr(e.args[0])})"
        if name in self.known:
            callee = self.known[name]
            kw = {k.arg: k.value for k in e.keywords}
            if e.args:
                raise TranslationError(f"positional call of {name}")
            args = []
            if callee["uses_trunc"]:
                self.uses_trunc = True
                args.append("trunc")
            for p in callee["params"]:
                if p not in kw:
                    raise TranslationError(f"call of {name} without {p}=")
                args.append(self.tuple_arg(kw[p]))
            return "(" + " ".join([f"{self.ns}.{name}"] + args) + ")"
        raise TranslationError(f"unsupported call {ast.unparse(e)}")

    def tuple_arg(self, e):
        """an argument that is a whole tuple / scalar variable passed through"""
        if isinstance(e, ast.Name) and e.id in self.env:
            return self.env[e.id][0]
        if isinstance(e, ast.Attribute) and e.attr == "shape" and isinstance(e.value, ast.Name) \
                and e.value.id in self.env:
            return self.env[e.value.id][0]
        raise TranslationError(f"unsupported argument {ast.unparse(e)}")

    # ------------------------------------------------------------------ statements
    def assign_local(self, st):
        if len(st.targets) != 1 or not isinstance(st.targets[0], ast.Name):
            raise TranslationError(f"unsupported assignment {ast.unparse(st)}")
        name = st.targets[0].id
        v = st.value
        if isinstance(v, ast.Call) and (getattr(v.func, "id", None) or getattr(v.func, "attr", None)) in self.known:
            callee = self.known[getattr(v.func, "id", None) or v.func.attr]
            self.lets.append((name, self.call(v)))
            self.env[name] = (name, callee["ret_arity"], "real")
        else:
            self.lets.append((name, self.expr(v)))
            self.env[name] = (name, 0, "real")

    def ret(self, e):
        if isinstance(e, ast.Tuple):
            if len(e.elts) == 1:
                return self.expr(e.elts[0]), 1
            if len(e.elts) == 2:
                return f"({self.expr(e.elts[0])}, {self.expr(e.elts[1])})", 2
            raise TranslationError("return tuple of arity > 2")
        return self.expr(e), 0

    def translate(self):
        body = [b for b in self.node.body
                if not (isinstance(b, ast.Expr) and isinstance(b.value, ast.Constant))]
        out_cols = {}
        ret_arity = 2
        if self.kind == "fn":
            result = None
            for st in body:
                if isinstance(st, ast.Assign):
                    self.assign_local(st)
                elif isinstance(st, ast.Return):
                    result, ret_arity = self.ret(st.value)
                else:
                    raise TranslationError(f"{self.fname}: unsupported statement {ast.unparse(st)[:60]}")
            if result is None:
                raise TranslationError(f"{self.fname}: no return")
        else:
            loops = [st for st in body if isinstance(st, ast.For)]
            if len(loops) != 1:
                raise TranslationError(f"{self.fname}: expected exactly one loop")
            # the v1 loop kinds translate the BODY of the single loop; everything around it must be plain
            # plumbing (allocations, counters, calls of known helpers) — a branch, an early return or a second
            # loop before / after the loop changes the function and must break the tie (round-4 lesson)
            k_loop = next(i for i, st in enumerate(body) if isinstance(st, ast.For))
            for st in body[:k_loop]:
                if isinstance(st, ast.Expr) and isinstance(st.value, ast.Constant):
                    continue
                if not isinstance(st, ast.Assign):
                    raise TranslationError(f"{self.fname}: unsupported statement before the loop: "
                                           f"{ast.unparse(st)[:60]}")
            for st in body[k_loop + 1:]:
                if not (isinstance(st, ast.Return) and isinstance(st.value, ast.Name)):
                    raise TranslationError(f"{self.fname}: unsupported statement after the loop: "
                                           f"{ast.unparse(st)[:60]}")
            for st in body:
                if isinstance(st, ast.For):
                    break
                if isinstance(st, ast.Assign) and isinstance(st.value, ast.Call) and \
                        (getattr(st.value.func, "id", None) or getattr(st.value.func, "attr", None)) in self.known:
                    self.assign_local(st)
                # allocations (np.zeros, total_pixels, index = 0) are loop plumbing, modelled elsewhere
            loop = loops[0]
            if self.kind == "row":
                self.row_vars = (loop.target.id,)
                stmts = loop.body
            else:
                inner = loop.body[0]
                if not (len(loop.body) == 1 and isinstance(inner, ast.For) and len(inner.body) == 1
                        and isinstance(inner.body[0], ast.If) and not inner.body[0].orelse):
                    raise TranslationError(f"{self.fname}: not the mask double loop")
                self.loop_vars = {loop.target.id: "y", inner.target.id: "x"}
                late_binders = [("y", "Nat"), ("x", "Nat")]
                self.row_vars = ("index", "sub_index")
                stmts = []

                def walk(block):
                    for st in block:
                        if isinstance(st, ast.AugAssign):
                            continue  # running counters: loop plumbing
                        if isinstance(st, ast.For):
                            v = st.target.id
                            self.loop_vars[v] = v
                            late_binders.append((v, "Nat"))
                            walk(st.body)
                        elif isinstance(st, ast.Assign) and isinstance(st.targets[0], ast.Name):
                            v = st.value
                            if isinstance(v, ast.Subscript) and isinstance(v.value, ast.Name) \
                                    and v.value.id == "sub_size":
                                # `sub = sub_size[index]`: the current pixel's sub size, a Nat binder
                                name = st.targets[0].id
                                self.binders.append((name, "Nat"))
                                self.env[name] = (name, 0, "nat")
                            else:
                                self.assign_local(st)
                        elif isinstance(st, ast.Assign):
                            stmts.append(st)
                        else:
                            raise TranslationError(
                                f"{self.fname}: unsupported statement {ast.unparse(st)[:60]}")

                walk(inner.body[0].body)
                self.binders += late_binders
            for st in stmts:
                t = st.targets[0]
                if not (isinstance(t, ast.Subscript) and isinstance(t.slice, ast.Tuple)
                        and isinstance(t.slice.elts[1], ast.Constant)):
                    raise TranslationError(f"{self.fname}: unsupported loop statement {ast.unparse(st)[:60]}")
                out_cols[t.slice.elts[1].value] = self.expr(st.value)
            if sorted(out_cols) != [0, 1]:
                raise TranslationError(f"{self.fname}: loop does not write columns 0 and 1")
            result = f"({out_cols[0]}, {out_cols[1]})"
        binders = " ".join(f"({b} : {ty})" for b, ty in self.binders)
        if self.uses_trunc:
            binders = "(trunc : α → Int) " + binders
        lets = "".join(f"  let {n} := {v}\n" for n, v in self.lets)
        lean_params = [p for p in self.params]
        return {
            "name": self.fname, "params": lean_params, "uses_trunc": self.uses_trunc,
            "ret_arity": ret_arity, "binders": [b for b, _ in self.binders],
            "src": f"def {self.fname} {binders} :=\n{lets}  {result}\n",
        }


# tie theorems: generated function (applied to its binders) = model function
TIES = {
    "central_pixel_coordinates_1d_from": "Impl.centralPixel1 n",
    "central_scaled_coordinate_1d_from": "Impl.centralScaled1 n s o",
    "pixel_coordinates_1d_from": "Impl.pixelCoordinates1 trunc n s o p",
    "scaled_coordinates_1d_from": "Impl.scaledCoordinates1 n s o p",
    "central_pixel_coordinates_2d_from": "Impl.centralPixel2 shape",
    "central_scaled_coordinate_2d_from": "Impl.centralScaled2 shape s o",
    "pixel_coordinates_2d_from": "Impl.pixelCoordinates2 trunc shape s o p",
    "scaled_coordinates_2d_from": "Impl.scaledCoordinates2 shape s o p",
    "grid_pixels_2d_slim_from": "Impl.pixelsOfScaled shape s o row",
    "grid_pixel_centres_2d_slim_from": "Impl.pixelCentreOfScaled trunc shape s o row",
    "grid_scaled_2d_slim_from": "Impl.scaledOfPixels shape s o row",
    "grid_2d_slim_via_mask_from": "Impl.pixelCentreScaled shape s o (y, x)",
    "grid_2d_slim_over_sampled_via_mask_from":
        "Impl.subPixelCentre { shape := shape, s := s, o := o } sub (y, x) (y1, x1)",
}

def tie_rhs(s):
    head, _, rest = s.partition(" ")
    return f"{head} (α := α) {rest}"


HEADER = '''/-
Generated/Geometry.lean — GENERATED by harness/translate.py from the current Python source of
autoarray/geometry/geometry_util.py and autoarray/structures/grids/grid_2d_util.py.  Do not edit.
Namespace `Generated`: one definition per translated Python function (loop functions: the per-row /
per-pixel body).  Namespace `GeneratedTie`: each generated definition is definitionally the
hand-written model function of Model/Geometry.lean that the theorems of C02 / C12 are about.
-/
import Model.Geometry
import Model.EntryPoints

open Model

set_option linter.unusedSectionVars false

section
variable {α : Type} [Add α] [Sub α] [Mul α] [Div α] [Neg α] [NatCast α]

namespace Generated

'''


def generate(repo: Path) -> str:
    trees = {}
    known = {}
    defs, ties = [], []
    for path, fname, kind in TARGETS:
        if path not in trees:
            trees[path] = ast.parse((repo / path).read_text())
        node = next((n for n in trees[path].body if isinstance(n, ast.FunctionDef) and n.name == fname), None)
        if node is None:
            raise TranslationError(f"{path}: function {fname} not found")
        info = FnTranslator(fname, node, kind, known).translate()
        known[fname] = info
        defs.append(f"/-- `{path}:{fname}`" + (" (loop body)" if kind != "fn" else "") + " -/\n" + info["src"])
        binders = info["binders"]
        bl = []
        if info["uses_trunc"]:
            bl.append("(trunc : α → Int)")
        fn = FnTranslator(fname, node, kind, {})
        types = dict(fn.binders)
        if kind == "pixel":
            types.update({b: "Nat" for b in binders if b not in types})
        for b in binders:
            bl.append(f"({b} : {types[b]})")
        args = (["trunc"] if info["uses_trunc"] else []) + binders
        ties.append(
            f"theorem {fname}_eq {' '.join(bl)} :\n"
            f"    Generated.{fname} (α := α) {' '.join(args)} = {tie_rhs(TIES[fname])} := by rfl\n")
    return (HEADER + "\n".join(defs) + "\nend Generated\n\nnamespace GeneratedTie\n\n"
            + "\n".join(ties) + "\nend GeneratedTie\n\nend\n")


# ---------------------------------------------------------------------------------------------------
# second generated module: the same over-sampling formulas tied to property C09's own model
# (Model/OverSample.lean uses numeric literals through `OfNat`, so the tie is an equality over any
# ordered field proved by `simp`/`ring`, not `rfl`)
# ---------------------------------------------------------------------------------------------------
OS_TARGETS = [
    (GEOM, "central_pixel_coordinates_2d_from", "fn"),
    (GEOM, "central_scaled_coordinate_2d_from", "fn"),
    (GRID, "grid_2d_slim_via_mask_from", "pixel"),
    (OVER, "grid_2d_slim_over_sampled_via_mask_from", "pixel"),
]

OS_HEADER = '''/-
Generated/OverSample.lean — GENERATED by harness/translate.py from the current Python source.  Do not
edit.  Namespace `GeneratedOS`: the translated definitions; namespace `GeneratedOSTie`: each equals the
hand-written model function of Model/OverSample.lean (property C09) over any ordered field.
-/
import Model.OverSample
import Mathlib.Tactic.Ring
import Mathlib.Tactic.FieldSimp
import Mathlib.Algebra.Order.Field.Basic

open Model

set_option linter.unusedSectionVars false

section
variable {α : Type} [Add α] [Sub α] [Mul α] [Div α] [Neg α] [NatCast α]

namespace GeneratedOS

'''

OS_TIES = '''
end GeneratedOS
end

section
variable {α : Type} [Field α] [LinearOrder α] [IsStrictOrderedRing α]

namespace GeneratedOSTie

theorem central_scaled_coordinate_2d_from_eq (shape : Nat × Nat) (s o : α × α) :
    GeneratedOS.central_scaled_coordinate_2d_from (α := α) shape s o
      = Impl.centresScaled shape.1 shape.2 ⟨s.1, s.2, o.1, o.2⟩ := by
  simp only [GeneratedOS.central_scaled_coordinate_2d_from, GeneratedOS.central_pixel_coordinates_2d_from,
    Impl.centresScaled, Nat.cast_one, Nat.cast_ofNat]

theorem grid_2d_slim_via_mask_from_eq (shape : Nat × Nat) (s o : α × α) (y x : Nat) :
    GeneratedOS.grid_2d_slim_via_mask_from (α := α) shape s o y x
      = Impl.pixelPoint ⟨s.1, s.2, o.1, o.2⟩
          (Impl.centresScaled shape.1 shape.2 ⟨s.1, s.2, o.1, o.2⟩) y x := by
  simp only [GeneratedOS.grid_2d_slim_via_mask_from, Impl.pixelPoint,
    central_scaled_coordinate_2d_from_eq]

theorem grid_2d_slim_over_sampled_via_mask_from_eq (shape : Nat × Nat) (s o : α × α)
    (sub y x y1 x1 : Nat) :
    GeneratedOS.grid_2d_slim_over_sampled_via_mask_from (α := α) shape s o sub y x y1 x1
      = Impl.subPoint ⟨s.1, s.2, o.1, o.2⟩
          (Impl.centresScaled shape.1 shape.2 ⟨s.1, s.2, o.1, o.2⟩) y x sub y1 x1 := by
  simp only [GeneratedOS.grid_2d_slim_over_sampled_via_mask_from, Impl.subPoint,
    central_scaled_coordinate_2d_from_eq, Nat.cast_ofNat]

end GeneratedOSTie
end
'''


def generate_oversample(repo: Path) -> str:
    trees, known, defs = {}, {}, []
    for path, fname, kind in OS_TARGETS:
        if path not in trees:
            trees[path] = ast.parse((repo / path).read_text())
        node = next((n for n in trees[path].body if isinstance(n, ast.FunctionDef) and n.name == fname), None)
        if node is None:
            raise TranslationError(f"{path}: function {fname} not found")
        info = FnTranslator(fname, node, kind, known, ns="GeneratedOS").translate()
        known[fname] = info
        defs.append(f"/-- `{path}:{fname}`" + (" (loop body)" if kind != "fn" else "") + " -/\n" + info["src"])
    return OS_HEADER + "\n".join(defs) + OS_TIES


GENERATORS = {"Geometry": generate, "OverSample": generate_oversample}


if __name__ == "__main__":
    import sys
    which = sys.argv[2] if len(sys.argv) > 2 else "Geometry"
    print(GENERATORS[which](Path(sys.argv[1] if len(sys.argv) > 1 else "/repo")))
