#!/usr/bin/env python3
"""
harness/translate2.py — Python `ast` -> Lean 4 translator for the `@numba_util.jit()` loop subset
(DESIGN.md §12, design_notes/LOOP_TIES.md).

A Python function is emitted as a PURE Lean definition in state-passing style over `Model/PyRt.lean`:
every `for v in range(..)` becomes `PyRt.forRange lo hi state (fun v state => ...)` whose state is the
tuple of the variables assigned in the body that are still live, every array write a `PyRt.A1.set` /
`PyRt.A2.set`, every `if` a Lean `if` returning the variables it assigns.  Integers are `Int`, reals are
a type variable `α` with core operator classes, numpy arrays are `PyRt.A1` / `PyRt.A2`.

  CLI   python3 harness/translate2.py <Module> [--repo /repo] [--write]     print / write Generated/<Module>.lean
        python3 harness/translate2.py --survey [--elab] [--json] [--repo /repo]   try every jit function of the
                                     package with GUESSED parameter types (--json: print the guessed targets)
  API   GENERATORS2[module](repo_path) -> str      (raises TranslationError on unsupported constructs)
        TIE_INFO[module] = {"tie_module": "Proofs.TieSlim", "namespace": "TieSlim"}

Targets: harness/loop_targets/<Module>.json
  {"module": "LoopsSlim", "tie_module": "Proofs.TieSlim", "namespace": "TieSlim",      (last two optional)
   "functions": [{"file": "autoarray/mask/mask_2d_util.py", "name": "total_pixels_2d_from",
                  "params": {"mask_2d": "A2 Bool"}, "returns": "Int", "lean_name": "..."(optional)}, ...]}
Type vocabulary: Bool | Int | Real | Complex | A1 <s> | A2 <s> | T × T × ... | (T,)   (<s> a scalar type;
Complex is the pair (re, im) : α × α).

Only the standard library is used.  The output is a deterministic function of the source text.
"""
from __future__ import annotations

import ast
import hashlib
import json
import re
import sys
from fractions import Fraction
from pathlib import Path

HERE = Path(__file__).resolve().parent
TARGET_DIR = HERE / "loop_targets"
LEAN_DIR = HERE.parent / "lean"


class TranslationError(Exception):
    pass


class _Unknown(Exception):
    """type of a variable not known yet (inference pass only)"""


# ======================================================================================== types
BOOL, INT, REAL = ("bool",), ("int",), ("real",)
CX = ("cx",)          # a complex number: the pair (re, im) : α × α
IMAG = ("imag",)      # transient: a purely imaginary value `y * 1j`, carried as the real text of `y`


def A1(t):
    return ("a1", t)


def A2(t):
    return ("a2", t)


def TUP(ts):
    return ("tup", tuple(ts))


_SCALARS = {"Bool": BOOL, "Int": INT, "Real": REAL, "bool": BOOL, "int": INT, "real": REAL, "float": REAL,
            "Complex": CX, "complex": CX}


def parse_type(s: str):
    s = s.strip()
    if s.startswith("(") and s.endswith(")") and _balanced(s[1:-1]):
        inner = s[1:-1].strip()
        if inner.endswith(","):
            return TUP([parse_type(inner[:-1])])
        parts = _split_top(inner, ",")
        if len(parts) > 1:
            return TUP([parse_type(p) for p in parts])
        return parse_type(inner)
    parts = _split_top(s, "×")
    if len(parts) == 1:
        parts = _split_top(s, " x ")
    if len(parts) > 1:
        return TUP([parse_type(p) for p in parts])
    if s in _SCALARS:
        return _SCALARS[s]
    m = re.fullmatch(r"(A1|A2)\s+(\w+)", s)
    if m and m.group(2) in _SCALARS:
        return (m.group(1).lower(), _SCALARS[m.group(2)])
    raise TranslationError(f"unknown type {s!r} (vocabulary: Bool, Int, Real, Complex, A1 <scalar>, A2 <scalar>, "
                           f"T × T, (T,))")


def _balanced(s):
    d = 0
    for c in s:
        d += c == "("
        d -= c == ")"
        if d < 0:
            return False
    return d == 0


def _split_top(s, sep):
    out, d, cur, i = [], 0, "", 0
    while i < len(s):
        c = s[i]
        if c == "(":
            d += 1
        elif c == ")":
            d -= 1
        if d == 0 and s.startswith(sep, i):
            out.append(cur)
            cur = ""
            i += len(sep)
            continue
        cur += c
        i += 1
    out.append(cur)
    return [p.strip() for p in out]


def lean_type(t, nested=False):
    k = t[0]
    if k == "bool":
        return "Bool"
    if k == "int":
        return "Int"
    if k == "real":
        return "α"
    if k == "cx":
        return "(α × α)" if nested else "α × α"
    if k in ("a1", "a2"):
        s = f"PyRt.{k.upper()} {lean_type(t[1], True)}"
        return f"({s})" if nested else s
    if k == "tup":
        if len(t[1]) == 1:
            return lean_type(t[1][0], nested)
        s = " × ".join(lean_type(x, True) for x in t[1])
        return f"({s})" if nested else s
    if k == "opt":
        s = f"Option {lean_type(t[1], True)}"
        return f"({s})" if nested else s
    raise TranslationError(f"bad type {t}")


def show_type(t):
    k = t[0]
    if k == "cx":
        return "Complex"
    if k in ("bool", "int", "real"):
        return k.capitalize()
    if k in ("a1", "a2"):
        return f"{k.upper()} {show_type(t[1])}"
    if k == "tup":
        return "(" + ", ".join(show_type(x) for x in t[1]) + ("," if len(t[1]) == 1 else "") + ")"
    return str(t)


def show_lean_vocab(t):
    """a type in the vocabulary of the targets JSON"""
    k = t[0]
    if k == "cx":
        return "Complex"
    if k in ("bool", "int", "real"):
        return k.capitalize()
    if k in ("a1", "a2"):
        return f"{k.upper()} {show_lean_vocab(t[1])}"
    if k == "tup":
        if len(t[1]) == 1:
            return f"({show_lean_vocab(t[1][0])},)"
        return " × ".join(show_lean_vocab(x) if x[0] != "tup" else f"({show_lean_vocab(x)})" for x in t[1])
    return str(t)


def mentions_real(t):
    if t in (REAL, CX, IMAG):
        return True
    if t[0] in ("a1", "a2", "opt"):
        return mentions_real(t[1])
    if t[0] == "tup":
        return any(mentions_real(x) for x in t[1])
    return False


def is_num(t):
    return t in (INT, REAL)


def is_scalar(t):
    return t in (BOOL, INT, REAL, CX)


def is_arr(t):
    return t[0] in ("a1", "a2")


def join(a, b, what):
    """least upper bound of two types of one variable (Int ⊔ Real = Real)"""
    if a is None:
        return b
    if b is None or a == b:
        return a
    if {a, b} == {INT, REAL}:
        return REAL
    if CX in (a, b) and a in (INT, REAL, CX, IMAG) and b in (INT, REAL, CX, IMAG):
        return CX
    if a[0] == "tup" and b[0] == "tup" and len(a[1]) == len(b[1]):
        return TUP([join(x, y, what) for x, y in zip(a[1], b[1])])
    raise TranslationError(f"{what}: incompatible types {show_type(a)} and {show_type(b)}")


# ======================================================================================== Lean text helpers
LEAN_RESERVED = set("""
at from fun end if then else in do let have show open def theorem lemma instance class structure where with
match by Type Prop Sort variable namespace section import mut for return using calc example universe deriving
extends macro syntax notation infix infixl infixr prefix postfix local private protected partial unsafe
noncomputable abbrev axiom inductive mutual attribute export set_option nomatch nofun sorry true false
default none some decide id st α trunc sqrt cos sin exp log arctan2 radians pi gamma kv rpow isnan raised not and or
termination_by decreasing_by omit include scoped unless break continue try catch finally throw
""".split())


def lid(name: str) -> str:
    """Lean identifier of a Python local"""
    return name + "_" if name in LEAN_RESERVED else name


def is_atomic(text: str) -> bool:
    if re.fullmatch(r"[\w.«»'α]+", text):
        return True
    if text.startswith("(") and text.endswith(")"):
        d = 0
        for i, c in enumerate(text):
            d += c == "("
            d -= c == ")"
            if d == 0 and i < len(text) - 1:
                return False
        return True
    return False


def par(text: str) -> str:
    return text if is_atomic(text) else f"({text})"


def strip_par(text: str) -> str:
    if text.startswith("(") and is_atomic(text) and not re.match(r"\(-?\d+\)$", text):
        inner = text[1:-1]
        # keep type ascriptions / casts and tuples parenthesised
        if _top_level_colon(inner):
            return text
        return inner
    return text


def _top_level_colon(s):
    """a `:` (ascription) or `,` (tuple) outside nested parentheses"""
    d = 0
    for i, c in enumerate(s):
        d += c in "([{"
        d -= c in ")]}"
        if d == 0 and ((c == ":" and s[i:i + 2] != ":=") or c == ","):
            return True
    return False


def proj(text: str, n: int, k: int) -> str:
    """k-th component of a right-nested n-tuple"""
    if n == 1:
        return text
    t = par(text)
    path = ".2" * k + (".1" if k < n - 1 else "")
    return t + path


def real_lit(v) -> str:
    f = Fraction(v) if isinstance(v, int) else Fraction(str(v))
    neg, f = f < 0, abs(f)
    if f.denominator == 1:
        s = f"({f.numerator} : α)" if f.numerator in (0, 1) else f"(({f.numerator} : Int) : α)"
    else:
        s = f"((({f.numerator} : Int) : α) / (({f.denominator} : Int) : α))"
    return f"(-{s})" if neg else s


def zero_value(t) -> str:
    k = t[0]
    if k == "bool":
        return "false"
    if k == "int":
        return "0"
    if k == "real":
        return "(0 : α)"
    if k == "cx":
        return "((0 : α), (0 : α))"
    if k == "a1":
        return "[]"
    if k == "a2":
        return "{ h := 0, w := 0, data := [] }"
    if k == "tup":
        return "(" + ", ".join(zero_value(x) for x in t[1]) + ")" if len(t[1]) > 1 else zero_value(t[1][0])
    raise TranslationError(f"no default value of type {show_type(t)}")


# ======================================================================================== term tree + printer
class Raw:
    def __init__(self, text):
        self.text = text


class Let:
    def __init__(self, name, ty, val, body, comment=None):
        self.name, self.ty, self.val, self.body, self.comment = name, ty, val, body, comment


class If:
    def __init__(self, cond, a, b):
        self.cond, self.a, self.b = cond, a, b


class Loop:
    """value of a `let`: `head (binder =>` body `)`"""

    def __init__(self, head, binder, body):
        self.head, self.binder, self.body = head, binder, body


def simplify(t):
    """peephole: `let x := v; x` -> `v`"""
    if isinstance(t, Let):
        t.val = simplify(t.val) if not isinstance(t.val, str) else t.val
        t.body = simplify(t.body)
        if isinstance(t.body, Raw) and t.body.text == t.name and " " not in t.name:
            if isinstance(t.val, str):
                return Raw(t.val)
            if isinstance(t.val, (If, Let, Raw, Loop)):
                return t.val
        # `let st := X; let a := st.1; let b := st.2; (a, b)`  ->  `X`
        if t.name == "st" and not isinstance(t.val, str):
            names, b = [], t.body
            while isinstance(b, Let) and isinstance(b.val, str) and b.val.startswith("st.") and b.ty is None:
                names.append((b.name, b.val))
                b = b.body
            n = len(names)
            if n > 1 and isinstance(b, Raw) and b.text == "(" + ", ".join(x for x, _ in names) + ")" \
                    and [v for _, v in names] == [proj("st", n, k) for k in range(n)]:
                return t.val
        return t
    if isinstance(t, If):
        t.a, t.b = simplify(t.a), simplify(t.b)
        return t
    if isinstance(t, Loop):
        t.body = simplify(t.body)
        return t
    return t


def pp(t, ind: int):
    """lines of a term at indentation `ind`"""
    pad = " " * ind
    if isinstance(t, Raw):
        return [pad + t.text]
    if isinstance(t, If):
        return ([f"{pad}if {strip_par(t.cond)} then"] + pp_block(t.a, ind + 2) + [f"{pad}else"]
                + pp_block(t.b, ind + 2))
    if isinstance(t, Let):
        ty = f" : {t.ty}" if t.ty else ""
        cm = f"  -- {t.comment}" if t.comment else ""
        v = t.val
        if isinstance(v, str):
            head = [f"{pad}let {t.name}{ty} := {strip_par(v)}{cm}"]
        elif isinstance(v, Raw):
            head = [f"{pad}let {t.name}{ty} := {strip_par(v.text)}{cm}"]
        elif isinstance(v, Loop):
            body = pp(v.body, ind + 2)
            body[-1] += ")"
            head = [f"{pad}let {t.name}{ty} := {v.head} ({v.binder} =>{cm}"] + body
        elif isinstance(v, If) and isinstance(v.a, Raw) and isinstance(v.b, Raw) and \
                len(v.cond) + len(v.a.text) + len(v.b.text) + len(t.name) + ind < 96:
            head = [f"{pad}let {t.name}{ty} := if {strip_par(v.cond)} then {strip_par(v.a.text)} "
                    f"else {strip_par(v.b.text)}{cm}"]
        elif isinstance(v, If):
            head = [f"{pad}let {t.name}{ty} :={cm}"] + pp(v, ind + 2)
        else:
            head = [f"{pad}let {t.name}{ty} :={cm}"] + pp_block(v, ind + 2)
        return head + pp(t.body, ind)
    if isinstance(t, Loop):
        body = pp(t.body, ind + 2)
        body[-1] += ")"
        return [f"{pad}{t.head} ({t.binder} =>"] + body
    raise TranslationError("internal: bad term")


def pp_block(t, ind):
    """a term used as a sub-term: parenthesised unless a single line"""
    if isinstance(t, Raw):
        return [" " * ind + strip_par(t.text)]
    lines = pp(t, ind + 1)
    lines[0] = " " * ind + "(" + lines[0].lstrip()
    lines[-1] += ")"
    return lines


# ======================================================================================== function translator
RAISED = "raised"          # implicit Bool state variable of a function containing `raise`
ORACLES = {                # libm / numpy functions that stay explicit parameters of the generated definition
    "np.sqrt": ("sqrt", 1), "math.sqrt": ("sqrt", 1), "numpy.sqrt": ("sqrt", 1),
    "np.cos": ("cos", 1), "math.cos": ("cos", 1), "np.sin": ("sin", 1), "math.sin": ("sin", 1),
    "np.exp": ("exp", 1), "math.exp": ("exp", 1), "np.log": ("log", 1), "math.log": ("log", 1),
    "np.arctan2": ("arctan2", 2), "math.atan2": ("arctan2", 2), "np.radians": ("radians", 1),
    "math.gamma": ("gamma", 1), "sc.kv": ("kv", 2),
}
BOOL_ORACLES = {"np.isnan": "isnan", "math.isnan": "isnan"}
ORACLE_ORDER = ["trunc", "sqrt", "cos", "sin", "exp", "log", "arctan2", "radians", "gamma", "kv", "rpow",
                "isnan", "pi"]
ORACLE_TYPE = {"trunc": "α → Int", "sqrt": "α → α", "cos": "α → α", "sin": "α → α", "exp": "α → α",
               "log": "α → α", "arctan2": "α → α → α", "radians": "α → α", "gamma": "α → α",
               "kv": "α → α → α", "rpow": "α → α → α", "isnan": "α → Bool", "pi": "α"}
CLASS_ORDER = ["Add", "Sub", "Mul", "Div", "Neg", "OfNat0", "OfNat1", "IntCast", "LT", "LE", "BEq", "Inhabited"]
CLASS_TEXT = {"Add": "[Add α]", "Sub": "[Sub α]", "Mul": "[Mul α]", "Div": "[Div α]", "Neg": "[Neg α]",
              "OfNat0": "[OfNat α 0]", "OfNat1": "[OfNat α 1]", "IntCast": "[IntCast α]",
              "LT": "[LT α] [DecidableLT α]", "LE": "[LE α] [DecidableLE α]", "BEq": "[BEq α]",
              "Inhabited": "[Inhabited α]"}
BINOPS = {ast.Add: ("+", "Add"), ast.Sub: ("-", "Sub"), ast.Mult: ("*", "Mul")}
CMPOPS = {ast.Lt: ("<", "LT"), ast.Gt: (">", "LT"), ast.LtE: ("≤", "LE"), ast.GtE: ("≥", "LE")}


def callee_name(f):
    if isinstance(f, ast.Name):
        return f.id
    if isinstance(f, ast.Attribute):
        return f.attr
    return None


def dotted(f):
    try:
        return ast.unparse(f)
    except Exception:
        return "?"


def strip_doc(body):
    return [s for s in body if not (isinstance(s, ast.Expr) and isinstance(s.value, ast.Constant))]


class Ctx:
    """where a block is emitted: inside a loop?  state tuple of that loop, its break flag"""

    def __init__(self, in_loop=False, state=None, brk=None, brk_live=None):
        self.in_loop, self.state, self.brk, self.brk_live = in_loop, state, brk, brk_live


class Fn:
    def __init__(self, mod, spec, node):
        self.mod, self.spec, self.node = mod, spec, node
        self.pyname = node.name
        self.name = spec.get("lean_name") or node.name
        self.file = spec["file"]
        self.body = strip_doc(node.body)
        a = node.args
        if a.vararg or a.kwarg or a.kwonlyargs or a.posonlyargs:
            self.fail("*args / **kwargs / keyword-only parameters")
        declared = spec.get("params", {})
        self.params = []          # (python name, type, default ast | None)
        defaults = [None] * (len(a.args) - len(a.defaults)) + list(a.defaults)
        for arg, d in zip(a.args, defaults):
            if arg.arg not in declared:
                self.fail(f"parameter {arg.arg!r} has no declared type in the targets JSON")
            self.params.append((arg.arg, parse_type(declared[arg.arg]), d))
        extra = set(declared) - {p for p, _, _ in self.params}
        if extra:
            self.fail(f"targets JSON declares unknown parameter(s) {sorted(extra)}")
        self.ret_decl = parse_type(spec["returns"]) if spec.get("returns") else None
        self.ret = self.ret_decl
        self.has_raise = any(isinstance(n, ast.Raise) for n in ast.walk(node))
        self.vt = {p: t for p, t, _ in self.params}
        if self.has_raise:
            self.vt[RAISED] = BOOL
        self.locals = set(self.vt)
        self.order = {}           # name -> first-assignment position (deterministic ordering of state tuples)
        self.mutated = set()      # names that are the base of a subscript store
        self._scan(self.body)
        for p, _, _ in self.params:
            self.order.setdefault(p, -1)
        clash = [n for n in self.locals if lid(n) != n and lid(n) in self.locals]
        if clash:
            self.fail(f"local name(s) {sorted(clash)} clash with their Lean spelling `{lid(clash[0])}`")
        self.classes, self.oracles = set(), set()
        self.emit_mode = False
        self.defined = set()
        self.fresh_n = 0
        self.mutating_calls = []
        self.uses_alpha = False
        self.ast_sha = hashlib.sha256(ast.dump(ast.Module(body=self.body, type_ignores=[])).encode()
                                      + ast.dump(node.args).encode()).hexdigest()[:16]

    # ------------------------------------------------------------------ errors
    def fail(self, msg, node=None):
        loc = f" (line {node.lineno})" if node is not None and hasattr(node, "lineno") else ""
        raise TranslationError(f"{self.file}:{self.pyname}{loc}: {msg}")

    def unsupported(self, node, what=None):
        src = dotted(node).split("\n")[0][:70]
        self.fail(f"unsupported {what or type(node).__name__}: `{src}`", node)

    # ------------------------------------------------------------------ syntactic scans
    def _scan(self, stmts):
        for st in stmts:
            for n in ast.walk(st):
                if isinstance(n, ast.Name) and isinstance(n.ctx, ast.Store):
                    self.locals.add(n.id)
                    self.order.setdefault(n.id, len(self.order))
                if isinstance(n, (ast.Assign, ast.AugAssign)):
                    for t in (n.targets if isinstance(n, ast.Assign) else [n.target]):
                        b = self._store_base(t)
                        if b:
                            self.mutated.add(b)
        if self.has_raise:
            self.order.setdefault(RAISED, len(self.order))

    @staticmethod
    def _store_base(t):
        while isinstance(t, ast.Subscript):
            t = t.value
            if isinstance(t, ast.Name):
                return t.id
        return None

    def reads(self, e):
        if e is None:
            return set()
        return {n.id for n in ast.walk(e) if isinstance(n, ast.Name) and n.id in self.locals}

    def target_names(self, t):
        if isinstance(t, ast.Name):
            return [t.id]
        if isinstance(t, (ast.Tuple, ast.List)):
            return [x for e in t.elts for x in self.target_names(e)]
        return []

    def assigned(self, stmts):
        """names (re)bound by the statements, loop variables excluded"""
        out = set()
        for st in stmts:
            if isinstance(st, ast.Assign):
                for t in st.targets:
                    out |= set(self.target_names(t))
                    b = self._store_base(t)
                    if b:
                        out.add(b)
            elif isinstance(st, ast.AugAssign):
                out |= set(self.target_names(st.target))
                b = self._store_base(st.target)
                if b:
                    out.add(b)
            elif isinstance(st, ast.For):
                out |= self.assigned(st.body) - set(self.target_names(st.target))
            elif isinstance(st, ast.If):
                out |= self.assigned(st.body) | self.assigned(st.orelse)
            elif isinstance(st, ast.Raise):
                out.add(RAISED)
        return out

    def contains(self, stmts, kinds, into_loops=False):
        for st in stmts:
            if isinstance(st, kinds):
                return True
            if isinstance(st, ast.If) and (self.contains(st.body, kinds, into_loops)
                                           or self.contains(st.orelse, kinds, into_loops)):
                return True
            if into_loops and isinstance(st, ast.For) and self.contains(st.body, kinds, True):
                return True
        return False

    # ------------------------------------------------------------------ liveness
    def end_live(self):
        return {RAISED} if self.has_raise else set()

    def live_in(self, stmts, out, brk):
        live = set(out)
        for st in reversed(stmts):
            live = self.live_stmt(st, live, brk)
        return live

    def live_stmt(self, st, out, brk):
        if isinstance(st, ast.Assign):
            live = set(out)
            for t in st.targets:
                b = self._store_base(t)
                if b:
                    live |= {b} | self.reads(t)
                else:
                    live -= set(self.target_names(t))
            return live | self.reads(st.value)
        if isinstance(st, ast.AugAssign):
            return set(out) | self.reads(st.target) | self.reads(st.value)
        if isinstance(st, ast.For):
            lv = set(self.target_names(st.target))
            head = set(out)
            while True:
                new = set(out) | (self.live_in(st.body, head, out) - lv)
                if new <= head:
                    break
                head |= new
            return head | self.reads(st.iter)
        if isinstance(st, ast.If):
            return self.reads(st.test) | self.live_in(st.body, out, brk) | self.live_in(st.orelse, out, brk)
        if isinstance(st, ast.Return):
            return self.reads(st.value) | self.end_live()
        if isinstance(st, ast.Break):
            return set(brk if brk is not None else out)
        return set(out)

    def ordered(self, names):
        return sorted(names, key=lambda n: (self.order.get(n, 10 ** 6), n))

    def fresh(self, base):
        while True:
            self.fresh_n += 1
            cand = f"{base}{self.fresh_n}"
            if cand not in self.locals and cand not in LEAN_RESERVED:
                return cand

    # ------------------------------------------------------------------ expressions
    def need(self, *cls):
        self.classes.update(cls)

    def var(self, name, node=None):
        if name not in self.vt or self.vt[name] is None:
            if self.emit_mode:
                self.fail(f"variable {name!r} is read but never assigned a value of a known type", node)
            raise _Unknown(name)
        if self.emit_mode and name not in self.defined:
            self.fail(f"variable {name!r} may be read before it is assigned", node)
        return lid(name), self.vt[name]

    def co(self, text, frm, to, node=None, what="value"):
        """coerce Lean text of type `frm` to type `to`"""
        if frm == to:
            return text
        if frm == INT and to == REAL:
            self.need("IntCast")
            m = re.fullmatch(r"\(?(-?\d+)\)?", text)
            if m:
                return self.real_const(int(m.group(1)))
            return f"(({strip_par(text)} : Int) : α)"
        if to == CX and frm in (INT, REAL, BOOL):
            self.need("OfNat0")
            return f"({strip_par(self.co(text, frm, REAL, node, what))}, (0 : α))"
        if to == CX and frm == IMAG:
            self.need("OfNat0")
            return f"((0 : α), {strip_par(text)})"
        if frm == BOOL and to == INT:
            return f"(PyRt.b2i {par(text)})"
        if frm == BOOL and to == REAL:
            self.need("OfNat0", "OfNat1")
            if text in ("true", "false"):
                return "(1 : α)" if text == "true" else "(0 : α)"
            return f"(PyRt.b2r {par(text)})"
        if frm[0] == "tup" and to[0] == "tup" and len(frm[1]) == len(to[1]):
            n = len(frm[1])
            if n == 1:
                return self.co(text, frm[1][0], to[1][0], node, what)
            parts = [self.co(proj(text, n, k), frm[1][k], to[1][k], node, what) for k in range(n)]
            return "(" + ", ".join(strip_par(p) for p in parts) + ")"
        if frm[0] == "tup" and len(frm[1]) == 1 and is_scalar(to):
            return self.co(text, frm[1][0], to, node, what)
        if to[0] == "tup" and len(to[1]) == 1 and is_scalar(frm):
            return self.co(text, frm, to[1][0], node, what)
        if frm[0] in ("a1", "a2") and frm[0] == to[0] and is_scalar(frm[1]):
            u = self.fresh("u")
            inner = self.co(u, frm[1], to[1], node, what)
            return f"(PyRt.{frm[0].upper()}.map (fun {u} => {strip_par(inner)}) {par(text)})"
        self.fail(f"{what} of type {show_type(frm)} where {show_type(to)} is expected", node)

    def real_const(self, v):
        f = Fraction(v) if isinstance(v, int) else Fraction(str(v))
        if f < 0:
            self.need("Neg")
        if f.denominator != 1:
            self.need("IntCast", "Div")
        elif abs(f.numerator) == 0:
            self.need("OfNat0")
        elif abs(f.numerator) == 1:
            self.need("OfNat1")
        else:
            self.need("IntCast")
        return real_lit(v)

    def ex(self, e):
        """-> (Lean text safe to embed as an argument after `par`, type)"""
        t, ty = self.ex_raw(e)
        if ty == IMAG:                      # a purely imaginary value that leaves arithmetic: (0, y)
            return self.co(t, IMAG, CX), CX
        return t, ty

    def ex_raw(self, e):
        """`ex`, but a purely imaginary value `y * 1j` stays symbolic (type IMAG, text of `y`)"""
        if isinstance(e, ast.Constant):
            v = e.value
            if isinstance(v, bool):
                return ("true" if v else "false"), BOOL
            if isinstance(v, int):
                return (str(v) if v >= 0 else f"({v})"), INT
            if isinstance(v, float):
                return self.real_const(v), REAL
            if isinstance(v, complex) and v.real == 0:
                return self.real_const(v.imag), IMAG
            self.unsupported(e, "constant")
        if isinstance(e, ast.Name):
            return self.var(e.id, e)
        if isinstance(e, ast.UnaryOp):
            return self.unary(e)
        if isinstance(e, ast.BinOp):
            return self.binop_node(e)
        if isinstance(e, ast.Compare):
            return self.compare(e)
        if isinstance(e, ast.BoolOp):
            op = "&&" if isinstance(e.op, ast.And) else "||"
            parts = [par(self.as_bool(v)) for v in e.values]
            return "(" + f" {op} ".join(parts) + ")", BOOL
        if isinstance(e, ast.IfExp):
            c = self.as_bool(e.test)
            (a, ta), (b, tb) = self.ex(e.body), self.ex(e.orelse)
            t = join(ta, tb, "conditional expression")
            return f"(if {strip_par(c)} then {strip_par(self.co(a, ta, t, e))} else " \
                   f"{strip_par(self.co(b, tb, t, e))})", t
        if isinstance(e, ast.Subscript):
            return self.subscript(e)
        if isinstance(e, ast.Attribute):
            return self.attribute(e)
        if isinstance(e, ast.Call):
            return self.call(e)
        if isinstance(e, ast.Tuple):
            parts = [self.ex(x) for x in e.elts]
            if len(parts) == 1:
                return parts[0][0], TUP([parts[0][1]])
            return "(" + ", ".join(strip_par(p) for p, _ in parts) + ")", TUP([t for _, t in parts])
        self.unsupported(e, "expression")

    def as_bool(self, e):
        t, ty = self.ex(e)
        if ty == BOOL:
            return t
        if ty == INT:
            return f"({t} != 0)"
        if ty == REAL:
            self.need("BEq", "OfNat0")
            return f"({t} != (0 : α))"
        self.fail(f"a value of type {show_type(ty)} used as a condition", e)

    def num(self, text, ty, node):
        """Python arithmetic on a bool treats it as an int"""
        if ty == BOOL:
            return self.co(text, BOOL, INT), INT
        if ty[0] == "tup" and len(ty[1]) == 1:
            return self.num(text, ty[1][0], node)
        return text, ty

    def unary(self, e):
        if isinstance(e.op, ast.Not):
            return f"(!{par(self.as_bool(e.operand))})", BOOL
        if isinstance(e.op, ast.UAdd):
            return self.ex(e.operand)
        if isinstance(e.op, ast.USub):
            if isinstance(e.operand, ast.Constant) and isinstance(e.operand.value, (int, float)) \
                    and not isinstance(e.operand.value, bool):
                return self.ex(ast.copy_location(ast.Constant(value=-e.operand.value), e))
            t, ty = self.num(*self.ex(e.operand), e)
            if is_arr(ty):
                u = self.fresh("u")
                if ty[1] == REAL:
                    self.need("Neg")
                return f"(PyRt.{ty[0].upper()}.map (fun {u} => -{u}) {par(t)})", ty
            if ty == REAL:
                self.need("Neg")
            elif ty != INT:
                self.fail(f"unary minus on {show_type(ty)}", e)
            return f"(-{par(t)})", ty
        self.unsupported(e, "unary operator")

    def scalar_binop(self, op, l, lt, r, rt, node):
        """arithmetic on scalar operands given as Lean text"""
        l, lt = self.num(l, lt, node)
        r, rt = self.num(r, rt, node)
        if lt in (CX, IMAG) or rt in (CX, IMAG):
            return self.complex_binop(op, l, lt, r, rt, node)
        if not (is_num(lt) and is_num(rt)):
            self.fail(f"arithmetic on {show_type(lt)} and {show_type(rt)}", node)
        if type(op) in BINOPS:
            sym, cls = BINOPS[type(op)]
            t = join(lt, rt, "arithmetic")
            if t == REAL:
                self.need(cls)
            return f"({par(self.co(l, lt, t))} {sym} {par(self.co(r, rt, t))})", t
        if isinstance(op, ast.Div):
            self.need("Div")
            return f"({par(self.co(l, lt, REAL))} / {par(self.co(r, rt, REAL))})", REAL
        if isinstance(op, (ast.FloorDiv, ast.Mod)):
            if lt != INT or rt != INT:
                self.fail("`//` and `%` are supported on integers only (declare the operands Int, or "
                          "restructure)", node)
            f = "Int.fdiv" if isinstance(op, ast.FloorDiv) else "Int.fmod"
            return f"({f} {par(l)} {par(r)})", INT
        self.unsupported(node, "binary operator")

    def complex_binop(self, op, l, lt, r, rt, node):
        """arithmetic with a complex (CX: a pair) or purely imaginary (IMAG: text of the imaginary part)
        operand.  Mixed real/complex operations keep the real operand real (`x + 1j*y` is the pair `(x, y)`,
        `r * z` scales both parts): exact over the reals, and what numpy computes up to signed zeros."""
        for ty in (lt, rt):
            if ty not in (INT, REAL, CX, IMAG):
                self.fail(f"complex arithmetic on {show_type(lt)} and {show_type(rt)}", node)
        real = lambda t, ty: par(self.co(t, ty, REAL))
        add = isinstance(op, ast.Add)
        if isinstance(op, ast.Mult):
            self.need("Mul")
            if IMAG in (lt, rt) and CX not in (lt, rt):
                if lt == IMAG and rt == IMAG:
                    self.need("Neg")
                    return f"(-({par(l)} * {par(r)}))", REAL
                (i, o, oty) = (l, r, rt) if lt == IMAG else (r, l, lt)
                if i == "(1 : α)":
                    return real(o, oty), IMAG                      # 1j * y
                return (f"({par(i)} * {real(o, oty)})" if lt == IMAG else f"({real(o, oty)} * {par(i)})"), IMAG
            if lt == CX and rt == CX:
                self.need("Add", "Sub")
                return f"(PyRt.cmul {par(l)} {par(r)})", CX
            if IMAG in (lt, rt):
                self.need("Add", "Sub")
                (i, c) = (l, r) if lt == IMAG else (r, l)
                return f"(PyRt.cmul {par(self.co(i, IMAG, CX))} {par(c)})", CX
            (c, o, oty) = (l, r, rt) if lt == CX else (r, l, lt)
            return f"(PyRt.csmul {real(o, oty)} {par(c)})", CX      # real * complex
        if isinstance(op, (ast.Add, ast.Sub)):
            self.need("Add" if add else "Sub")
            sym = "+" if add else "-"
            if lt == IMAG and rt == IMAG:
                return f"({par(l)} {sym} {par(r)})", IMAG
            if lt in (INT, REAL) and rt == IMAG:                    # x + 1j * y  ->  (x, y)
                if not add:
                    self.need("Neg")
                return f"({strip_par(real(l, lt))}, {strip_par(r) if add else '-' + par(r)})", CX
            if lt == IMAG and rt in (INT, REAL):
                if not add:
                    self.need("Neg")
                return f"({strip_par(real(r, rt)) if add else '-' + real(r, rt)}, {strip_par(l)})", CX
            lc = l if lt == CX else self.co(l, lt, CX)
            rc = r if rt == CX else self.co(r, rt, CX)
            return f"(PyRt.{'cadd' if add else 'csub'} {par(lc)} {par(rc)})", CX
        self.fail(f"`{type(op).__name__}` on complex numbers is not in the subset (only + - *)", node)

    def complex_const(self, e):
        """a constant complex expression such as `0 + 0j`, `(0.0 + 0j)`, `1j` -> Python complex | None
        (None also when no imaginary literal occurs in it)"""
        def fold(x):
            if isinstance(x, ast.Constant) and isinstance(x.value, (int, float, complex)) \
                    and not isinstance(x.value, bool):
                return complex(x.value), isinstance(x.value, complex)
            if isinstance(x, ast.BinOp) and isinstance(x.op, (ast.Add, ast.Sub, ast.Mult)):
                a, b = fold(x.left), fold(x.right)
                if a is None or b is None:
                    return None
                v = a[0] + b[0] if isinstance(x.op, ast.Add) else a[0] - b[0] if isinstance(x.op, ast.Sub) \
                    else a[0] * b[0]
                return v, a[1] or b[1]
            return None
        r = fold(e)
        return r[0] if r is not None and r[1] else None

    def complex_zeros(self, e):
        """`0 + 0j * np.zeros(S)`, `(0.0 + 0j) * np.zeros(S)`: a complex array of zeros -> (text, type) | None"""
        is_zeros = lambda x: isinstance(x, ast.Call) and dotted(x.func) in ("np.zeros", "numpy.zeros")
        if not isinstance(e, ast.BinOp):
            return None
        if isinstance(e.op, ast.Mult):
            for a, b in ((e.left, e.right), (e.right, e.left)):
                if is_zeros(b) and self.complex_const(a) is not None:
                    t, ty = self.alloc(b, "(0 : α)", REAL)
                    self.need("OfNat0")
                    return t.replace(".zeros (α := α)", ".czeros (α := α)", 1), (ty[0], CX)
        if isinstance(e.op, ast.Add):
            for a, b in ((e.left, e.right), (e.right, e.left)):
                inner = self.complex_zeros(b)
                if inner is not None and isinstance(a, ast.Constant) and a.value == 0 \
                        and not isinstance(a.value, bool):
                    return inner
        return None

    def binop_node(self, e):
        cz = self.complex_zeros(e)
        if cz is not None:
            return cz
        # c * np.ones(shape)  /  np.ones(shape) * c  -> full
        for a, b in ((e.left, e.right), (e.right, e.left)):
            if isinstance(e.op, ast.Mult) and isinstance(b, ast.Call) and dotted(b.func) in ("np.ones", "numpy.ones"):
                c, ct = self.num(*self.ex(a), e)
                if is_num(ct):
                    return self.alloc(b, self.co(c, ct, REAL), REAL)
        if isinstance(e.op, ast.Pow):
            if isinstance(e.right, ast.Constant) and e.right.value in (2, 2.0) \
                    and not isinstance(e.right.value, bool):
                t, ty = self.num(*self.ex(e.left), e)
                tgt = REAL if isinstance(e.right.value, float) else None
                if is_arr(ty):
                    et = tgt or ty[1]
                    u = self.fresh("u")
                    if et == REAL:
                        self.need("Mul")
                    return (f"(PyRt.{ty[0].upper()}.map (fun {u} => PyRt.sq {par(self.co(u, ty[1], et))}) "
                            f"{par(t)})"), (ty[0], et)
                if not is_num(ty):
                    self.fail(f"`**` on {show_type(ty)}", e)
                et = tgt or ty
                if et == REAL:
                    self.need("Mul")
                return f"(PyRt.sq {par(self.co(t, ty, et))})", et
            (l, lt), (r, rt) = self.num(*self.ex(e.left), e), self.num(*self.ex(e.right), e)
            if is_num(lt) and is_num(rt) and REAL in (lt, rt):
                self.oracles.add("rpow")        # general real power: an explicit parameter, like sqrt
                return f"(rpow {par(self.co(l, lt, REAL))} {par(self.co(r, rt, REAL))})", REAL
            if is_arr(lt) and is_num(lt[1]) and is_num(rt) and REAL in (lt[1], rt):
                # Extension 4: `a ** s` elementwise on an array with a real scalar exponent (oracle `rpow`)
                self.oracles.add("rpow")
                u = self.fresh("u")
                return (f"(PyRt.{lt[0].upper()}.map (fun {u} => rpow {par(self.co(u, lt[1], REAL))} "
                        f"{par(self.co(r, rt, REAL))}) {par(l)})"), (lt[0], REAL)
            self.fail("`**` is supported with the literal exponent 2 / 2.0, or as the oracle `rpow` on reals", e)
        (l, lt), (r, rt) = self.ex_raw(e.left), self.ex_raw(e.right)
        if is_arr(lt) or is_arr(rt):
            if IMAG in (lt, rt):
                (l, lt), (r, rt) = self.ex(e.left), self.ex(e.right)
            return self.array_binop(e, l, lt, r, rt)
        return self.scalar_binop(e.op, l, lt, r, rt, e)

    def array_binop(self, e, l, lt, r, rt):
        u, v = self.fresh("u"), self.fresh("v")
        if is_arr(lt) and is_arr(rt):
            if lt[0] != rt[0]:
                # Extension 4: `a2 op v1` / `v1 op a2` — numpy broadcasts the 1-D value along the rows
                if lt[0] == "a2":
                    body, et = self.scalar_binop(e.op, u, lt[1], v, rt[1], e)
                    return f"(PyRt.A2.zipRow (fun {u} {v} => {strip_par(body)}) {par(l)} {par(r)})", A2(et)
                body, et = self.scalar_binop(e.op, v, lt[1], u, rt[1], e)
                return f"(PyRt.A2.zipRow (fun {u} {v} => {strip_par(body)}) {par(r)} {par(l)})", A2(et)
            body, et = self.scalar_binop(e.op, u, lt[1], v, rt[1], e)
            return f"(PyRt.{lt[0].upper()}.zipWith (fun {u} {v} => {strip_par(body)}) {par(l)} {par(r)})", (lt[0], et)
        if is_arr(lt):
            body, et = self.scalar_binop(e.op, u, lt[1], r, rt, e)
            return f"(PyRt.{lt[0].upper()}.map (fun {u} => {strip_par(body)}) {par(l)})", (lt[0], et)
        body, et = self.scalar_binop(e.op, l, lt, u, rt[1], e)
        return f"(PyRt.{rt[0].upper()}.map (fun {u} => {strip_par(body)}) {par(r)})", (rt[0], et)

    def compare(self, e):
        # `x is None` / `x is not None` for a variable of a declared (non-optional) type: decided statically
        if len(e.ops) == 1 and isinstance(e.ops[0], (ast.Is, ast.IsNot)) \
                and isinstance(e.comparators[0], ast.Constant) and e.comparators[0].value is None \
                and isinstance(e.left, ast.Name):
            self.var(e.left.id, e)
            return ("false" if isinstance(e.ops[0], ast.Is) else "true"), BOOL
        operands = [e.left] + list(e.comparators)
        vals = [self.ex(x) for x in operands]
        if len(e.ops) == 1 and is_arr(vals[0][1]) != is_arr(vals[1][1]) \
                and all(is_scalar(t[1]) if is_arr(t) else is_scalar(t) for _, t in vals):
            # Extension 4: `a == c`, `a >= c`, … of an array and a scalar: the elementwise boolean array
            (l, lt), (r, rt) = vals
            u = self.fresh("u")
            if is_arr(lt):
                body, arr, kind = self.compare1(e.ops[0], u, lt[1], r, rt, e), l, lt[0]
            else:
                body, arr, kind = self.compare1(e.ops[0], l, lt, u, rt[1], e), r, rt[0]
            return f"(PyRt.{kind.upper()}.map (fun {u} => {strip_par(body)}) {par(arr)})", (kind, BOOL)
        parts = []
        for k, op in enumerate(e.ops):
            (l, lt), (r, rt) = vals[k], vals[k + 1]
            parts.append(self.compare1(op, l, lt, r, rt, e))
        return (parts[0] if len(parts) == 1 else "(" + " && ".join(parts) + ")"), BOOL

    def compare1(self, op, l, lt, r, rt, node):
        if isinstance(op, (ast.Eq, ast.NotEq)):
            sym = "==" if isinstance(op, ast.Eq) else "!="
            if lt[0] == "tup" and rt[0] == "tup" and len(lt[1]) == len(rt[1]) and len(lt[1]) > 1:
                n = len(lt[1])
                ps = [self.compare1(ast.Eq(), proj(l, n, k), lt[1][k], proj(r, n, k), rt[1][k], node)
                      for k in range(n)]
                s = "(" + " && ".join(ps) + ")"
                return s if isinstance(op, ast.Eq) else f"(!{s})"
            if lt == BOOL and rt == BOOL:
                return f"({par(l)} {sym} {par(r)})"
            l, lt = self.num(l, lt, node)
            r, rt = self.num(r, rt, node)
            if not (is_num(lt) and is_num(rt)):
                self.fail(f"`{sym}` on {show_type(lt)} and {show_type(rt)}", node)
            t = join(lt, rt, "comparison")
            if t == REAL:
                self.need("BEq")
            return f"({par(self.co(l, lt, t))} {sym} {par(self.co(r, rt, t))})"
        if type(op) in CMPOPS:
            sym, cls = CMPOPS[type(op)]
            l, lt = self.num(l, lt, node)
            r, rt = self.num(r, rt, node)
            if not (is_num(lt) and is_num(rt)):
                self.fail(f"`{sym}` on {show_type(lt)} and {show_type(rt)}", node)
            t = join(lt, rt, "comparison")
            if t == REAL:
                self.need(cls)
            return f"(decide ({par(self.co(l, lt, t))} {sym} {par(self.co(r, rt, t))}))"
        self.fail(f"unsupported comparison `{type(op).__name__}` (`in`, and `is` other than `x is [not] None`, are "
                  f"not in the subset)", node)

    # ---- subscripts / attributes
    def index(self, e):
        t, ty = self.ex(e)
        if ty == BOOL:
            self.fail("boolean used as an index", e)
        if ty[0] == "tup" and len(ty[1]) == 1:
            ty = ty[1][0]
        if ty != INT:
            self.fail(f"index `{dotted(e)}` has type {show_type(ty)}; numpy needs an integer here — declare "
                      f"the array it is read from as `A1 Int` / `A2 Int` in the targets JSON", e)
        return par(t)

    def const_index(self, sl):
        if isinstance(sl, ast.Constant) and isinstance(sl.value, int) and not isinstance(sl.value, bool):
            return sl.value
        if isinstance(sl, ast.UnaryOp) and isinstance(sl.op, ast.USub) and isinstance(sl.operand, ast.Constant):
            return -sl.operand.value
        return None

    def subscript(self, e):
        v, sl = e.value, e.slice
        if isinstance(sl, ast.Slice) or (isinstance(sl, ast.Tuple) and any(isinstance(n, ast.Slice) for n in sl.elts)):
            return self.slice_value(e)
        # a[i][j]  ==  a[i, j]
        if isinstance(v, ast.Subscript) and not isinstance(v.slice, ast.Tuple):
            bt, bty = self.ex(v.value)
            if bty[0] == "a2":
                self.need_inh(bty[1])
                return f"(PyRt.A2.get {par(bt)} {self.index(v.slice)} {self.index(sl)})", bty[1]
        if isinstance(v, ast.Attribute) and v.attr == "shape":        # a.shape[k]
            at, aty = self.ex(v.value)
            k = self.const_index(sl)
            if aty[0] == "a1" and k in (0, -1):
                return f"(PyRt.A1.len {par(at)})", INT
            if aty[0] == "a2" and k in (0, 1, -1, -2):
                return f"(PyRt.A2.shape{k % 2} {par(at)})", INT
            self.fail(f"`{dotted(e)}`: `.shape[k]` needs an array and a constant k", e)
        bt, bty = self.ex(v)
        if bty[0] == "tup":
            k = self.const_index(sl)
            n = len(bty[1])
            if k is None or not -n <= k < n:
                self.fail(f"tuple `{dotted(v)}` needs a constant in-range index", e)
            return proj(bt, n, k % n), bty[1][k % n]
        if bty[0] == "a1":
            if isinstance(sl, ast.Tuple):
                self.fail(f"`{dotted(v)}` is declared 1-D but indexed with {len(sl.elts)} indices", e)
            self.need_inh(bty[1])
            if self.peek_type(sl) == A1(INT):
                # Extension 4: `a[idx]` with an integer ARRAY `idx` (fancy indexing: a fresh 1-D array)
                return f"(PyRt.A1.gather {par(bt)} {par(self.ex(sl)[0])})", bty
            return f"(PyRt.A1.get {par(bt)} {self.index(sl)})", bty[1]
        if bty[0] == "a2":
            if isinstance(sl, ast.Tuple) and len(sl.elts) == 2:
                self.need_inh(bty[1])
                return f"(PyRt.A2.get {par(bt)} {self.index(sl.elts[0])} {self.index(sl.elts[1])})", bty[1]
            if not isinstance(sl, ast.Tuple) and self.peek_type(sl) == A1(INT):
                # Extension 4: `a[idx]` with an integer ARRAY `idx`: the fresh 2-D array of the rows a[k], k in idx
                return f"(PyRt.A2.gatherRows {par(bt)} {par(self.ex(sl)[0])})", bty
            # a[i] as a value: a read-only row (numpy: a view — refused if the array is written anywhere)
            root = v
            while isinstance(root, (ast.Subscript, ast.Attribute)):
                root = root.value
            if not isinstance(root, ast.Name) or root.id in self.mutated:
                self.fail(f"`{dotted(e)}`: a row of a 2-D array that this function writes in place (a numpy "
                          f"view) is not in the subset", e)
            if isinstance(sl, ast.Tuple):
                self.fail(f"`{dotted(e)}`: {len(sl.elts)} indices into a 2-D array", e)
            return f"(PyRt.A2.row {par(bt)} {self.index(sl)})", A1(bty[1])
        self.fail(f"subscript of a value of type {show_type(bty)}", e)

    def peek_type(self, e):
        """the type of an expression, without consuming fresh names"""
        n0 = self.fresh_n
        try:
            return self.ex(e)[1]
        finally:
            self.fresh_n = n0

    def slice_bounds(self, s, length_text, node):
        """(lo, hi) texts of a slice on an axis whose length is `length_text`; None when it is the full axis"""
        if s.step is not None:
            self.fail("slices with a step are not in the subset", node)
        if s.lower is None and s.upper is None:
            return None
        lo = "0" if s.lower is None else self.index(s.lower)
        hi = length_text if s.upper is None else self.index(s.upper)
        return lo, hi

    def slice_value(self, e):
        """read-only slices as 1-D VALUES: `v[lo:hi]`, `a[lo:hi, x]`, `a[:, k]`, `a[y, lo:hi]`, `a[i, :]`,
        and the whole array `a[:]` / `a[:, :]`.  (numpy: views — `emit_assign` refuses to bind one to a
        name when the array or the name is written in place.)"""
        v, sl = e.value, e.slice
        bt, bty = self.ex(v)
        if bty[0] == "a1" and isinstance(sl, ast.Slice):
            b = self.slice_bounds(sl, f"(PyRt.A1.len {par(bt)})", e)
            if b is None:
                return bt, bty
            return f"(PyRt.A1.slice {par(bt)} {b[0]} {b[1]})", bty
        if bty[0] == "a2" and isinstance(sl, ast.Tuple) and len(sl.elts) == 2:
            s0, s1 = sl.elts
            if isinstance(s0, ast.Slice) and isinstance(s1, ast.Slice):
                if self.slice_bounds(s0, "", e) is None and self.slice_bounds(s1, "", e) is None:
                    return bt, bty
                self.unsupported(e, "2-D block slice as a value")
            if isinstance(s0, ast.Slice):                       # a[lo:hi, x]  /  a[:, x]
                self.need_inh(bty[1])
                b = self.slice_bounds(s0, f"(PyRt.A2.shape0 {par(bt)})", e)
                if b is None:
                    return f"(PyRt.A2.col {par(bt)} {self.index(s1)})", A1(bty[1])
                return f"(PyRt.A2.colSlice {par(bt)} {b[0]} {b[1]} {self.index(s1)})", A1(bty[1])
            if isinstance(s1, ast.Slice):                       # a[y, lo:hi]  /  a[y, :]
                b = self.slice_bounds(s1, f"(PyRt.A2.shape1 {par(bt)})", e)
                if b is None:
                    return f"(PyRt.A2.row {par(bt)} {self.index(s0)})", A1(bty[1])
                return f"(PyRt.A2.rowSlice {par(bt)} {self.index(s0)} {b[0]} {b[1]})", A1(bty[1])
        self.unsupported(e, f"slice of a value of type {show_type(bty)}")

    @staticmethod
    def is_view(e):
        """an expression that numpy evaluates to a VIEW of an array (row, slice, .real / .imag)"""
        if isinstance(e, ast.Attribute) and e.attr in ("real", "imag"):
            return True
        return isinstance(e, ast.Subscript) and (
            any(isinstance(n, ast.Slice) for n in ast.walk(e.slice)) or not isinstance(e.slice, ast.Tuple))

    def need_inh(self, elt):
        if elt in (REAL, CX):
            self.need("Inhabited")

    def attribute(self, e):
        d = dotted(e)
        if d in ("np.pi", "math.pi", "numpy.pi"):
            self.oracles.add("pi")
            return "pi", REAL
        if e.attr in ("real", "imag"):
            bt, bty = self.ex(e.value)
            part = "re" if e.attr == "real" else "im"
            if bty == CX:
                return proj(bt, 2, 0 if part == "re" else 1), REAL
            if is_arr(bty) and bty[1] == CX:
                return f"(PyRt.{bty[0].upper()}.{part} {par(bt)})", (bty[0], REAL)
            if e.attr == "real" and (bty == REAL or (is_arr(bty) and bty[1] == REAL)):
                return bt, bty          # `.real` of a real value is the value
            self.fail(f"`.{e.attr}` of a value of type {show_type(bty)}", e)
        if e.attr in ("shape", "size"):
            bt, bty = self.ex(e.value)
            if bty[0] == "a1":
                return f"(PyRt.A1.len {par(bt)})", (TUP([INT]) if e.attr == "shape" else INT)
            if bty[0] == "a2":
                if e.attr == "size":
                    return f"(PyRt.A2.size {par(bt)})", INT
                return f"(PyRt.A2.shape0 {par(bt)}, PyRt.A2.shape1 {par(bt)})", TUP([INT, INT])
        self.unsupported(e, "attribute")

    # ---- calls
    def shape_args(self, e, node):
        """shape argument of np.zeros / np.ones / np.full -> ('a1', n) | ('a2', h, w)"""
        if isinstance(e, ast.Tuple):
            if len(e.elts) == 1:
                return ("a1", self.index(e.elts[0]))
            if len(e.elts) == 2:
                return ("a2", self.index(e.elts[0]), self.index(e.elts[1]))
            self.fail("arrays of rank > 2 are not in the subset", node)
        if isinstance(e, ast.Attribute) and e.attr == "shape":
            bt, bty = self.ex(e.value)
            if bty[0] == "a1":
                return ("a1", f"(PyRt.A1.len {par(bt)})")
            if bty[0] == "a2":
                return ("a2", f"(PyRt.A2.shape0 {par(bt)})", f"(PyRt.A2.shape1 {par(bt)})")
        t, ty = self.ex(e)
        if ty == INT or ty == TUP([INT]):
            return ("a1", par(t))
        if ty == TUP([INT, INT]):
            return ("a2", proj(t, 2, 0), proj(t, 2, 1))
        self.fail(f"array shape `{dotted(e)}` of type {show_type(ty)} (expected Int or Int × Int)", node)

    def alloc(self, call, fill_text, elt):
        """np.zeros / np.ones / np.full call -> full"""
        args = list(call.args)
        kw = {k.arg: k.value for k in call.keywords}
        bad = set(kw) - {"shape", "fill_value"}
        if bad:
            self.fail(f"keyword(s) {sorted(bad)} of `{dotted(call.func)}` are not in the subset", call)
        shape = kw.get("shape", args[0] if args else None)
        if shape is None:
            self.fail("array allocation without a shape", call)
        sh = self.shape_args(shape, call)
        ety = lean_type(elt, True)
        if fill_text == "(0 : α)" and elt == REAL:
            return (f"(PyRt.{sh[0].upper()}.zeros (α := α) {' '.join(sh[1:])})"), (sh[0], REAL)
        if sh[0] == "a1":
            return f"(PyRt.A1.full (α := {ety}) {sh[1]} {par(fill_text)})", A1(elt)
        return f"(PyRt.A2.full (α := {ety}) {sh[1]} {sh[2]} {par(fill_text)})", A2(elt)

    def call(self, e):
        d = dotted(e.func)
        name = callee_name(e.func)
        args, kws = list(e.args), {k.arg: k.value for k in e.keywords}
        if None in kws:
            self.unsupported(e, "**kwargs call")

        def only(n):
            if kws or len(args) != n:
                self.fail(f"`{d}` expects {n} positional argument(s)", e)

        if d in ("np.zeros", "numpy.zeros"):
            self.need("OfNat0")
            return self.alloc(e, "(0 : α)", REAL)
        if d in ("np.ones", "numpy.ones"):
            self.need("OfNat1")
            return self.alloc(e, "(1 : α)", REAL)
        if d in ("np.full", "numpy.full"):
            fv = kws.get("fill_value", args[1] if len(args) > 1 else None)
            if fv is None:
                self.fail("np.full without a fill value", e)
            ft, fty = self.ex(fv)
            if not is_scalar(fty):
                self.fail("np.full with a non-scalar fill value", e)
            call2 = ast.Call(func=e.func, args=args[:1], keywords=[k for k in e.keywords if k.arg == "shape"])
            return self.alloc(ast.copy_location(call2, e), ft, fty)
        if d == "len":
            only(1)
            t, ty = self.ex(args[0])
            if ty[0] == "a1":
                return f"(PyRt.A1.len {par(t)})", INT
            if ty[0] == "a2":
                return f"(PyRt.A2.shape0 {par(t)})", INT
            if ty[0] == "tup":
                return str(len(ty[1])), INT
            self.fail(f"len of {show_type(ty)}", e)
        if d == "int":
            only(1)
            t, ty = self.ex(args[0])
            if ty[0] == "tup" and len(ty[1]) == 1:
                ty = ty[1][0]
            if ty == INT:
                return t, INT
            if ty == BOOL:
                return self.co(t, BOOL, INT), INT
            if ty == REAL:
                self.oracles.add("trunc")
                return f"(trunc {par(t)})", INT
            self.fail(f"int() of {show_type(ty)}", e)
        if d == "float":
            only(1)
            t, ty = self.num(*self.ex(args[0]), e)
            if not is_num(ty):
                self.fail(f"float() of {show_type(ty)}", e)
            return self.co(t, ty, REAL), REAL
        if d in ("abs", "np.abs", "np.absolute", "math.fabs"):
            only(1)
            t, ty = self.num(*self.ex(args[0]), e)
            if not is_num(ty):
                self.fail(f"abs of {show_type(ty)}", e)
            if ty == REAL:
                self.need("LT", "Neg", "OfNat0")
            return f"(PyRt.abs {par(t)})", ty
        if d in ("np.square", "np.abs", "np.absolute") and len(args) == 1 and not kws \
                and is_arr(self.peek_type(args[0])):
            t, ty = self.ex(args[0])
            if is_arr(ty) and is_num(ty[1]):
                u = self.fresh("u")
                fn = "sq" if d == "np.square" else "abs"
                if ty[1] == REAL:
                    self.need(*(("Mul",) if fn == "sq" else ("LT", "Neg", "OfNat0")))
                return f"(PyRt.{ty[0].upper()}.map (fun {u} => PyRt.{fn} {u}) {par(t)})", ty
        if d == "np.square":
            only(1)
            t, ty = self.num(*self.ex(args[0]), e)
            if not is_num(ty):
                self.fail(f"np.square of {show_type(ty)}", e)
            if ty == REAL:
                self.need("Mul")
            return f"(PyRt.sq {par(t)})", ty
        if d in ("min", "max"):
            items = args
            if len(args) == 1 and isinstance(args[0], (ast.List, ast.Tuple)):
                items = args[0].elts
            if kws or len(items) < 2:
                self.fail(f"`{d}` needs two or more scalar arguments", e)
            vals = [self.num(*self.ex(x), e) for x in items]
            t = None
            for _, ty in vals:
                if not is_num(ty):
                    self.fail(f"`{d}` of {show_type(ty)}", e)
                t = join(t, ty, d)
            if t == REAL:
                self.need("LT")
            acc = self.co(vals[0][0], vals[0][1], t)
            for x, ty in vals[1:]:
                acc = f"(PyRt.{d}2 {par(acc)} {par(self.co(x, ty, t))})"
            return acc, t
        if d in ("np.add", "np.subtract", "np.multiply", "np.divide"):
            only(2)
            op = {"np.add": ast.Add(), "np.subtract": ast.Sub(), "np.multiply": ast.Mult(),
                  "np.divide": ast.Div()}[d]
            return self.binop_node(ast.copy_location(ast.BinOp(left=args[0], op=op, right=args[1]), e))
        if d in ("np.mean", "np.argmin") and len(args) == 1 and not kws:
            t, ty = self.ex(args[0])
            if d == "np.mean" and ty[0] == "a1" and is_num(ty[1]):
                self.need("Add", "Div", "OfNat0", "IntCast")
                return f"(PyRt.A1.mean {par(self.co(t, ty, A1(REAL)))})", REAL
            if d == "np.argmin" and ty[0] == "a1" and is_num(ty[1]):
                if ty[1] == REAL:
                    self.need("LT")
                return f"(PyRt.A1.argmin {par(t)})", INT
            self.fail(f"`{d}` is supported on 1-D numeric values only (got {show_type(ty)})", e)
        if d in ("np.array", "numpy.array") and len(args) == 1 and not kws \
                and isinstance(args[0], (ast.List, ast.Tuple)) and args[0].elts:
            # Extension 4: `np.array([e0, e1, ..])` of scalars as a 1-D value
            vals = [self.num(*self.ex(x), e) for x in args[0].elts]
            t = None
            for _, ty in vals:
                if not is_num(ty):
                    self.fail(f"`np.array([..])` of {show_type(ty)} (only numbers)", e)
                t = join(t, ty, "np.array")
            return "[" + ", ".join(strip_par(self.co(x, ty, t)) for x, ty in vals) + "]", A1(t)
        if d == "np.sum" and len(args) == 1 and set(kws) == {"axis"} and self.const_index(kws["axis"]) == 1:
            # Extension 4: `np.sum(a, axis=1)` of a 2-D array: the row sums (row counts of a boolean array)
            t, ty = self.ex(args[0])
            if ty == A2(BOOL):
                return f"(PyRt.A2.countAxis1 {par(t)})", A1(INT)
            if ty[0] != "a2" or not is_num(ty[1]):
                self.fail(f"`np.sum(.., axis=1)` is supported on 2-D arrays only (got {show_type(ty)})", e)
            if ty[1] == REAL:
                self.need("Add", "OfNat0")
            return f"(PyRt.A2.sumAxis1 {par(t)})", A1(ty[1])
        if d in ("np.sum", "np.max", "np.min", "np.amax", "np.amin"):
            only(1)
            t, ty = self.ex(args[0])
            if d == "np.sum" and ty == A1(BOOL):
                return f"(PyRt.A1.count {par(t)})", INT          # the number of True entries
            if ty[0] != "a1" or not is_num(ty[1]):
                self.fail(f"`{d}` is supported on 1-D numeric arrays only (got {show_type(ty)})", e)
            fn = {"np.sum": "sum", "np.max": "max", "np.amax": "max", "np.min": "min", "np.amin": "min"}[d]
            if ty[1] == REAL:
                self.need(*(("Add", "OfNat0") if fn == "sum" else ("LT", "Inhabited")))
            return f"(PyRt.A1.{fn} {par(t)})", ty[1]
        if isinstance(e.func, ast.Attribute) and e.func.attr == "copy" and not args and not kws:
            t, ty = self.ex(e.func.value)
            if is_arr(ty):
                return t, ty
        if d in BOOL_ORACLES:
            only(1)
            t, ty = self.num(*self.ex(args[0]), e)
            if ty != REAL:
                self.fail(f"`{d}` of {show_type(ty)}", e)
            self.oracles.add(BOOL_ORACLES[d])
            return f"({BOOL_ORACLES[d]} {par(t)})", BOOL
        if isinstance(e.func, ast.Attribute) and e.func.attr == "astype" and len(args) == 1 and not kws \
                and dotted(args[0]) in ("'int'", "int", "np.int64", "np.int32"):
            t, ty = self.ex(e.func.value)
            if is_arr(ty) and ty[1] == INT:
                return t, ty
            if is_arr(ty) and ty[1] == REAL:
                self.oracles.add("trunc")
                return f"(PyRt.{ty[0].upper()}.map trunc {par(t)})", (ty[0], INT)
            self.fail(f"`.astype(int)` of {show_type(ty)}", e)
        if d in ORACLES and ORACLES[d][1] == 1 and len(args) == 1 and not kws and is_arr(self.peek_type(args[0])):
            t, ty = self.ex(args[0])
            if is_arr(ty) and is_num(ty[1]):                     # np.sqrt(array): elementwise oracle
                oname = ORACLES[d][0]
                self.oracles.add(oname)
                return f"(PyRt.{ty[0].upper()}.map {oname} {par(self.co(t, ty, (ty[0], REAL)))})", (ty[0], REAL)
        if d in ORACLES:
            oname, ar = ORACLES[d]
            only(ar)
            self.oracles.add(oname)
            xs = []
            for a in args:
                t, ty = self.num(*self.ex(a), e)
                if not is_num(ty):
                    self.fail(f"`{d}` of {show_type(ty)}", e)
                xs.append(par(self.co(t, ty, REAL)))
            return f"({oname} {' '.join(xs)})", REAL
        callee = self.mod.resolve(name, d, self) if name else None
        if callee is not None:
            return self.call_translated(callee, e, args, kws)
        if name and self.mod.is_known_python_function(name):
            self.fail(f"call of `{d}`, which is not in this module's targets JSON — add it (callee first)", e)
        self.unsupported(e, "call")

    def call_translated(self, callee, e, args, kws):
        if callee.has_raise:
            self.fail(f"call of `{callee.pyname}`, which can raise — not in the subset", e)
        if len(args) > len(callee.params):
            self.fail(f"too many arguments for `{callee.pyname}`", e)
        given = {}
        for (p, _, _), a in zip(callee.params, args):
            given[p] = a
        for k, v in kws.items():
            if k in given or k not in {p for p, _, _ in callee.params}:
                self.fail(f"bad keyword `{k}` in the call of `{callee.pyname}`", e)
            given[k] = v
        out = []
        for p, pty, dflt in callee.params:
            a = given.get(p, dflt)
            if a is None:
                self.fail(f"call of `{callee.pyname}` without `{p}`", e)
            t, ty = self.ex(a)
            if p in callee.mutated and p in callee.vt and is_arr(pty):
                self.mutating_calls.append((e, p, a))
            out.append(par(self.co(t, ty, pty, e, f"argument `{p}` of `{callee.pyname}`")))
        self.classes |= callee.classes
        self.oracles |= callee.oracles
        head = callee.name if callee.name not in self.locals else f"{self.mod.namespace}.{callee.name}"
        if callee.uses_alpha:
            head += " (α := α)"
        orc = [o for o in ORACLE_ORDER if o in callee.oracles]
        return "(" + " ".join([head] + orc + out) + ")", callee.ret

    # ------------------------------------------------------------------ type inference (fixpoint over the body)
    def setty(self, name, ty, node=None):
        if ty[0] == "opt":
            self.fail("internal: option-typed local", node)
        old = self.vt.get(name)
        try:
            new = join(old, ty, f"variable {name!r}")
        except TranslationError as err:
            self.fail(str(err), node)
        if new != old:
            self.vt[name] = new
            self.changed = True

    @staticmethod
    def load(t):
        """a store target re-read as an expression"""
        t2 = ast.parse(ast.unparse(t), mode="eval").body
        return ast.copy_location(t2, t)

    def desugar_aug(self, st):
        return ast.copy_location(
            ast.Assign(targets=[st.target], value=ast.copy_location(
                ast.BinOp(left=self.load(st.target), op=st.op, right=st.value), st)), st)

    def row_unpack(self, st):
        """`y, x = a[i]` with `a` 2-D -> (array text, type, index text) | None"""
        v = st.value
        if isinstance(v, ast.Subscript) and not isinstance(v.slice, (ast.Tuple, ast.Slice)):
            try:
                bt, bty = self.ex(v.value)
            except _Unknown:
                raise
            if bty[0] == "a2":
                return bt, bty, self.index(v.slice)
        return None

    def loop_vars(self, st):
        """-> (kind, [(loop var, type)], parts) for a `for` statement"""
        it, tg = st.iter, st.target
        names = self.target_names(tg)

        def rng(call):
            if call.keywords or not 1 <= len(call.args) <= 2:
                self.fail("`range` with a step / keywords is not in the subset", st)
            xs = []
            for a in call.args:
                t, ty = self.ex(a)
                if ty == TUP([INT]):
                    ty = INT
                if ty != INT:
                    self.fail(f"`range` bound `{dotted(a)}` has type {show_type(ty)}; declare the array / "
                              f"parameter it comes from as Int in the targets JSON", st)
                xs.append(par(t))
            return ("0", xs[0]) if len(xs) == 1 else (xs[0], xs[1])

        if isinstance(it, ast.Call) and dotted(it.func) == "range":
            if not isinstance(tg, ast.Name):
                self.unsupported(st.target, "loop target")
            return "range", [(tg.id, INT)], rng(it)
        if isinstance(it, ast.Call) and dotted(it.func) == "enumerate" and len(it.args) == 1 and not it.keywords:
            inner = it.args[0]
            if not (isinstance(tg, ast.Tuple) and len(tg.elts) == 2 and all(isinstance(x, ast.Name) for x in tg.elts)):
                self.unsupported(st.target, "loop target of enumerate")
            if isinstance(inner, ast.Call) and dotted(inner.func) == "range":
                return "enum_range", [(names[0], INT), (names[1], INT)], rng(inner)
            t, ty = self.ex(inner)
            if ty[0] == "a1":
                return "enum_a1", [(names[0], INT), (names[1], ty[1])], (t, ty)
            if ty[0] == "a2" and isinstance(inner, ast.Name) and inner.id not in self.mutated \
                    and names[1] not in self.mutated:
                return "enum_rows", [(names[0], INT), (names[1], A1(ty[1]))], (t, ty)
            self.fail(f"`enumerate` over a value of type {show_type(ty)} (only range(..) and 1-D arrays)", st)
        if isinstance(it, ast.Call) and dotted(it.func) == "zip" and len(it.args) == 2 and not it.keywords \
                and isinstance(tg, ast.Tuple) and len(tg.elts) == 2 and all(isinstance(x, ast.Name) for x in tg.elts):
            # Extension 4: `for x, y in zip(u, v)` over two 1-D values (stops at the shorter one)
            (t0, ty0), (t1, ty1) = self.ex(it.args[0]), self.ex(it.args[1])
            if ty0[0] == "a1" and ty1[0] == "a1":
                for a_ in it.args:
                    root = a_
                    while isinstance(root, (ast.Subscript, ast.Attribute)):
                        root = root.value
                    if not isinstance(root, ast.Name) or root.id in self.assigned(st.body):
                        self.fail("`zip` over an array expression that is modified in the loop", st)
                return "zip", [(names[0], ty0[1]), (names[1], ty1[1])], (t0, t1)
            self.fail(f"`zip` over values of type {show_type(ty0)} and {show_type(ty1)} (only two 1-D values)", st)
        if isinstance(it, ast.Call):
            self.unsupported(it, "loop iterator (only range, enumerate(range), a 1-D array, enumerate(1-D array))")
        t, ty = self.ex(it)
        if ty[0] == "a1":
            if not isinstance(tg, ast.Name):
                self.unsupported(st.target, "loop target")
            return "each", [(tg.id, ty[1])], (t, ty)
        if ty[0] == "a2" and isinstance(it, ast.Name) and isinstance(tg, ast.Name) and it.id not in self.mutated \
                and tg.id not in self.mutated:
            return "rows", [(tg.id, A1(ty[1]))], (t, ty)
        self.fail(f"iteration over a value of type {show_type(ty)} (rows of a 2-D array are not in the subset)", st)

    def infer(self, stmts):
        for st in stmts:
            try:
                self.infer_stmt(st)
            except _Unknown:
                pass

    def infer_stmt(self, st):
        if isinstance(st, ast.AugAssign):
            st = self.desugar_aug(st)
        if isinstance(st, ast.Assign):
            if len(st.targets) != 1:
                self.unsupported(st, "chained assignment")
            tg = st.targets[0]
            if isinstance(tg, ast.Name):
                self.setty(tg.id, self.ex(st.value)[1], st)
            elif isinstance(tg, (ast.Tuple, ast.List)):
                names = self.target_names(tg)
                ru = self.row_unpack(st)
                if ru:
                    for n in names:
                        self.setty(n, ru[1][1], st)
                else:
                    ty = self.ex(st.value)[1]
                    if ty[0] != "tup" or len(ty[1]) != len(tg.elts) or len(names) != len(tg.elts):
                        self.fail(f"cannot unpack a value of type {show_type(ty)} into {len(tg.elts)} names", st)
                    for n, t in zip(names, ty[1]):
                        self.setty(n, t, st)
        elif isinstance(st, ast.For):
            if st.orelse:
                self.unsupported(st, "for/else")
            try:
                _, lvs, _ = self.loop_vars(st)
                for n, t in lvs:
                    self.setty(n, t, st)
            except _Unknown:
                pass
            self.infer(st.body)
        elif isinstance(st, ast.If):
            self.infer(st.body)
            self.infer(st.orelse)
        elif isinstance(st, ast.Return):
            if st.value is None:
                self.fail("bare `return`", st)
            ty = self.ex(st.value)[1]
            if self.ret_decl is None:
                try:
                    new = join(self.ret, ty, "return value")
                except TranslationError as err:
                    self.fail(str(err), st)
                if new != self.ret:
                    self.ret, self.changed = new, True

    # ------------------------------------------------------------------ emission
    def tuple_text(self, names):
        ns = [lid(n) for n in names]
        return ns[0] if len(ns) == 1 else "(" + ", ".join(ns) + ")"

    def unpack(self, names, src, body_thunk, only=None):
        """`let n_k := src.k` for a state tuple (`only`: the names still needed)"""
        if len(names) == 1:
            return body_thunk()
        body = body_thunk()
        for k in reversed(range(len(names))):
            if only is None or names[k] in only:
                body = Let(lid(names[k]), None, proj(src, len(names), k), body)
        return body

    def preinit(self, names, term_thunk):
        """default values for variables Python would find unbound (UnboundLocalError totalised)"""
        missing = [n for n in names if n not in self.defined]
        for n in missing:
            if self.vt.get(n) is None:
                self.fail(f"variable {n!r} has no inferable type")
            self.defined.add(n)
        term = term_thunk()
        for n in reversed(missing):
            term = Let(lid(n), lean_type(self.vt[n]), zero_value(self.vt[n]), term,
                       comment="not yet bound here in Python")
            if self.vt[n] == REAL:
                self.need("OfNat0")
        return term

    def block(self, stmts, i, live_out, k, ctx):
        if i >= len(stmts):
            return k()
        st = stmts[i]
        rest_live = self.live_in(stmts[i + 1:], live_out, ctx.brk_live)
        rest = lambda: self.block(stmts, i + 1, live_out, k, ctx)
        if isinstance(st, (ast.Pass,)) or (isinstance(st, ast.Expr) and isinstance(st.value, ast.Constant)):
            return rest()
        if isinstance(st, ast.AugAssign):
            st = self.desugar_aug(st)
        if isinstance(st, ast.Assign):
            return self.emit_assign(st, rest)
        if isinstance(st, ast.For):
            return self.emit_for(st, rest_live, rest, ctx)
        if isinstance(st, ast.If):
            return self.emit_if(st, rest_live, rest, ctx)
        if isinstance(st, ast.Return):
            if ctx.in_loop:
                self.fail("`return` inside a loop is not in the subset", st)
            t, ty = self.ex(st.value)
            val = self.co(t, ty, self.ret, st, "return value")
            if self.has_raise:
                return Raw(f"if {lid(RAISED)} then none else some {par(val)}")
            return Raw(strip_par(val))
        if isinstance(st, ast.Raise):
            self.defined.add(RAISED)
            return Let(lid(RAISED), None, "true", rest())
        if isinstance(st, ast.Break):
            if ctx.brk is None:
                self.fail("`break` outside a translated loop", st)
            return Let(ctx.brk, None, "true", Raw(self.tuple_text(ctx.state)))
        self.unsupported(st, f"statement ({type(st).__name__})")

    def emit_assign(self, st, rest):
        if len(st.targets) != 1:
            self.unsupported(st, "chained assignment")
        tg = st.targets[0]
        self.mutating_calls = []
        if isinstance(tg, ast.Name):
            t, ty = self.ex(st.value)
            if isinstance(st.value, ast.Name) and is_arr(ty) and \
                    (tg.id in self.mutated or st.value.id in self.mutated):
                self.fail(f"`{tg.id} = {st.value.id}` aliases an array that is later written in place", st)
            if isinstance(st.value, ast.Subscript) and ty[0] == "a1" and tg.id in self.mutated \
                    and "PyRt.A2.row" in t:
                self.fail(f"`{tg.id}` is a row (numpy view) and is written in place", st)
            if is_arr(ty) and self.is_view(st.value):
                root = st.value
                while isinstance(root, (ast.Subscript, ast.Attribute)):
                    root = root.value
                if tg.id in self.mutated or not isinstance(root, ast.Name) or root.id in self.mutated:
                    self.fail(f"`{tg.id} = {dotted(st.value)}` binds a numpy view of an array while the array or "
                              f"`{tg.id}` is written in place in this function", st)
            val = self.co(t, ty, self.vt[tg.id], st, f"assignment to {tg.id!r}")
            self.check_mutating([tg.id], st)
            self.defined.add(tg.id)
            return Let(lid(tg.id), lean_type(self.vt[tg.id]), val, rest())
        if isinstance(tg, (ast.Tuple, ast.List)):
            names = self.target_names(tg)
            ru = self.row_unpack(st)
            if ru:
                bt, bty, idx = ru
                if len(names) != 2:
                    self.fail("only `y, x = a[i]` (two names) can unpack a row", st)
                self.need_inh(bty[1])
                vals = [self.co(f"(PyRt.A2.get {par(bt)} {idx} {c})", bty[1], self.vt[n], st) for c, n in enumerate(names)]
                self.defined |= set(names)
                body = rest()
                for n, v in reversed(list(zip(names, vals))):
                    body = Let(lid(n), lean_type(self.vt[n]), v, body)
                return body
            t, ty = self.ex(st.value)
            if ty[0] != "tup" or len(ty[1]) != len(names):
                self.fail(f"cannot unpack a value of type {show_type(ty)} into {len(names)} names", st)
            self.check_mutating(names, st)
            tmp = self.fresh("r")
            self.defined |= set(names)
            body = rest()
            for k in reversed(range(len(names))):
                body = Let(lid(names[k]), lean_type(self.vt[names[k]]),
                           self.co(proj(tmp, len(names), k), ty[1][k], self.vt[names[k]], st), body)
            return Let(tmp, None, t, body)
        if isinstance(tg, ast.Subscript):
            return self.emit_store(st, tg, rest)
        self.unsupported(st, "assignment target")

    def check_mutating(self, target_names, st):
        for call, p, a in self.mutating_calls:
            if not (isinstance(a, ast.Name) and a.id in target_names):
                self.fail(f"`{callee_name(call.func)}` writes into its parameter `{p}` in place; the call is only "
                          f"translated when the result is assigned back to the argument variable", st)
        self.mutating_calls = []

    def emit_store(self, st, tg, rest):
        base, sl = tg.value, tg.slice
        # a[i][j] = e
        if isinstance(base, ast.Subscript) and isinstance(base.value, ast.Name) \
                and not isinstance(base.slice, (ast.Tuple, ast.Slice)) and not isinstance(sl, (ast.Tuple, ast.Slice)):
            sl = ast.Tuple(elts=[base.slice, sl], ctx=ast.Load())
            base = base.value
        if not isinstance(base, ast.Name):
            self.unsupported(st, "store target")
        a, aty = self.var(base.id, base)
        if not is_arr(aty):
            self.fail(f"store into `{base.id}` of type {show_type(aty)}", st)
        elt = aty[1]

        def value(e):
            t, ty = self.ex(e)
            if ty == REAL and elt == INT:
                self.fail(f"a real value is stored into the integer array `{base.id}` (numpy would truncate "
                          f"silently) — declare the array Real", st)
            return par(self.co(t, ty, elt, st, f"value stored into `{base.id}`"))

        self.mutating_calls = []
        full = lambda x: isinstance(x, ast.Slice) and x.lower is None and x.upper is None and x.step is None
        # tail slice `lo:` (numpy: the right-hand side is evaluated completely, then written — PyRt Extension 3)
        tail = lambda x: isinstance(x, ast.Slice) and x.lower is not None and x.upper is None and x.step is None
        seq_rhs = isinstance(st.value, (ast.Tuple, ast.List)) or (
            isinstance(st.value, ast.Call) and dotted(st.value.func) in ("np.array", "numpy.array"))
        row_value = None
        if aty[0] == "a2" and isinstance(sl, ast.Tuple) and len(sl.elts) == 2 and full(sl.elts[1]) \
                and not isinstance(sl.elts[0], ast.Slice) and not isinstance(st.value, (ast.Tuple, ast.List)) \
                and not (isinstance(st.value, ast.Call) and dotted(st.value.func) in ("np.array", "numpy.array")):
            row_value = self.peek_type(st.value)
        if aty[0] == "a2" and isinstance(sl, ast.Tuple) and len(sl.elts) == 2 and full(sl.elts[0]) \
                and full(sl.elts[1]):
            t, ty = self.ex(st.value)            # b[:, :] = a
            if ty[0] != "a2":
                self.unsupported(st, "store (`b[:, :] = <not a 2-D array>`)")
            text = f"PyRt.A2.assign {a} {par(self.co(t, ty, aty, st))}"
        elif row_value is not None and row_value[0] == "a1":
            t, ty = self.ex(st.value)            # b[i, :] = <1-D value>
            text = f"PyRt.A2.setRow {a} {self.index(sl.elts[0])} {par(self.co(t, ty, A1(elt), st))}"
        elif aty[0] == "a1" and full(sl) and is_arr(self.peek_type(st.value)):
            t, ty = self.ex(st.value)            # b[:] = <1-D value>
            if ty[0] != "a1":
                self.unsupported(st, "store (`b[:] = <not a 1-D array>`)")
            text = f"PyRt.A1.assign {a} {par(self.co(t, ty, aty, st))}"
        elif aty[0] == "a1" and isinstance(sl, ast.Slice) and sl.lower is None and sl.upper is None \
                and sl.step is None:
            t, ty = self.ex(st.value)            # a[:] = c
            if not is_scalar(ty):
                self.unsupported(st, "store (`a[:] = <array>`)")
            text = f"PyRt.A1.full (PyRt.A1.len {a}) {par(self.co(t, ty, elt, st))}"
        elif aty[0] == "a1" and tail(sl) and not seq_rhs and self.peek_type(st.value)[0] == "a1":
            t, ty = self.ex(st.value)            # a[lo:] = <1-D value>   (tail-slice store)
            text = f"PyRt.A1.setTail {a} {self.index(sl.lower)} {par(self.co(t, ty, A1(elt), st))}"
        elif aty[0] == "a1" and not isinstance(sl, (ast.Tuple, ast.Slice)) and self.peek_type(sl) == A1(INT):
            t, ty = self.ex(st.value)            # a[idx] = <1-D value>   (Extension 4: fancy-index store)
            if ty[0] != "a1":
                self.unsupported(st, "store (`a[<index array>] = <not a 1-D value>`)")
            if ty[1] == REAL and elt == INT:
                self.fail(f"real values are stored into the integer array `{base.id}`", st)
            text = f"PyRt.A1.scatter {a} {par(self.ex(sl)[0])} {par(self.co(t, ty, A1(elt), st))}"
        elif aty[0] == "a1" and not isinstance(sl, (ast.Tuple, ast.Slice)) and self.peek_type(sl) == A1(BOOL):
            t, ty = self.ex(st.value)            # a[mask] = c   (Extension 4: boolean-mask store of a scalar)
            if not is_scalar(ty):
                self.unsupported(st, "store (`a[<boolean array>] = <not a scalar>`)")
            text = f"PyRt.A1.setWhere {a} {par(self.ex(sl)[0])} {value(st.value)}"
        elif aty[0] == "a1":
            if isinstance(sl, (ast.Tuple, ast.Slice)):
                self.unsupported(st, "store (slice / 2 indices into a 1-D array)")
            text = f"PyRt.A1.set {a} {self.index(sl)} {value(st.value)}"
        elif isinstance(sl, ast.Tuple) and len(sl.elts) == 2 and not any(isinstance(x, ast.Slice) for x in sl.elts):
            text = f"PyRt.A2.set {a} {self.index(sl.elts[0])} {self.index(sl.elts[1])} {value(st.value)}"
        elif aty[0] == "a2" and not isinstance(sl, (ast.Tuple, ast.Slice)) and not seq_rhs \
                and self.peek_type(st.value)[0] == "a1":
            t, ty = self.ex(st.value)            # b[i] = <1-D value>   (Extension 4: the same as b[i, :] = …)
            if ty[1] == REAL and elt == INT:
                self.fail(f"real values are stored into the integer array `{base.id}`", st)
            text = f"PyRt.A2.setRow {a} {self.index(sl)} {par(self.co(t, ty, A1(elt), st))}"
        elif isinstance(sl, ast.Tuple) and len(sl.elts) == 2 and tail(sl.elts[1]) \
                and not isinstance(sl.elts[0], ast.Slice) and not seq_rhs and self.peek_type(st.value)[0] == "a1":
            t, ty = self.ex(st.value)            # a[i, lo:] = <1-D value>   (tail-slice store into one row)
            text = (f"PyRt.A2.setRowTail {a} {self.index(sl.elts[0])} {self.index(sl.elts[1].lower)} "
                    f"{par(self.co(t, ty, A1(elt), st))}")
        elif aty[0] == "a2" and isinstance(sl, ast.Tuple) and len(sl.elts) == 2 \
                and all(isinstance(x, ast.Slice) for x in sl.elts) and not seq_rhs \
                and is_scalar(self.peek_type(st.value)):
            # a[y0:y1, x0:x1] = c   (Extension 4: block store of a scalar)
            b0 = self.slice_bounds(sl.elts[0], f"(PyRt.A2.shape0 {a})", st) or ("0", f"(PyRt.A2.shape0 {a})")
            b1 = self.slice_bounds(sl.elts[1], f"(PyRt.A2.shape1 {a})", st) or ("0", f"(PyRt.A2.shape1 {a})")
            text = f"PyRt.A2.setBlock {a} {b0[0]} {b0[1]} {b1[0]} {b1[1]} {value(st.value)}"
        elif aty[0] == "a2" and isinstance(sl, ast.Tuple) and len(sl.elts) == 2 and full(sl.elts[0]) \
                and not isinstance(sl.elts[1], ast.Slice) and not seq_rhs and self.peek_type(st.value)[0] == "a1":
            t, ty = self.ex(st.value)            # a[:, k] = <1-D value>   (Extension 4: column store)
            if ty[1] == REAL and elt == INT:
                self.fail(f"real values are stored into the integer array `{base.id}`", st)
            text = f"PyRt.A2.setCol {a} {self.index(sl.elts[1])} {par(self.co(t, ty, A1(elt), st))}"
        elif isinstance(sl, ast.Tuple) and len(sl.elts) == 2 and isinstance(sl.elts[1], ast.Slice) \
                and not isinstance(sl.elts[0], ast.Slice):
            # a[i, :] = (e0, e1)   a[i, c0:c1] = np.array([e0, ..])
            s = sl.elts[1]
            rhs = st.value
            if isinstance(rhs, ast.Call) and dotted(rhs.func) in ("np.array", "numpy.array") and len(rhs.args) == 1:
                rhs = rhs.args[0]
            if not isinstance(rhs, (ast.Tuple, ast.List)) or s.step is not None:
                self.unsupported(st, "row store (only `a[i, :] = (e0, e1, ..)` / `a[i, c0:c1] = np.array([..])`)")
            c0 = 0 if s.lower is None else self.const_index(s.lower)
            c1 = c0 + len(rhs.elts) if s.upper is None else self.const_index(s.upper)
            if c0 is None or c1 is None or c0 < 0 or c1 - c0 != len(rhs.elts):
                self.fail("row store: the column range must be constant and match the number of values", st)
            i = self.index(sl.elts[0])
            text = a
            for c, e in enumerate(rhs.elts):
                text = f"PyRt.A2.set {par(text)} {i} {c0 + c} {value(e)}"
        else:
            self.unsupported(st, "store")
        self.check_mutating([], st)
        return Let(a, None, text, rest())

    def emit_if(self, st, rest_live, rest, ctx):
        cond = self.as_bool(st.test)
        saved = set(self.defined)
        if self.contains(st.body + st.orelse, (ast.Return, ast.Break)):
            # a branch leaves: continuation-passing (the rest of the block is emitted inside the branches)
            a = self.block(st.body, 0, rest_live, rest, ctx)
            self.defined = set(saved)
            b = self.block(st.orelse, 0, rest_live, rest, ctx)
            return If(cond, a, b)
        w = self.ordered((self.assigned(st.body) | self.assigned(st.orelse)) & rest_live)
        if not w:
            return rest()

        def whole():
            base = set(self.defined)
            ret = lambda: Raw(self.tuple_text(w))
            a = self.block(st.body, 0, rest_live, ret, ctx)
            self.defined = set(base)
            b = self.block(st.orelse, 0, rest_live, ret, ctx)
            self.defined = base | set(w)
            pat = lid(w[0]) if len(w) == 1 else "st"
            return Let(pat, None, If(cond, a, b), self.unpack(w, "st", rest, only=rest_live))

        return self.preinit(w, whole)

    def emit_for(self, st, rest_live, rest, ctx):
        if st.orelse:
            self.unsupported(st, "for/else")
        if self.contains(st.body, (ast.Return,), into_loops=True):
            self.fail("`return` inside a loop is not in the subset", st)
        kind, lvs, parts = self.loop_vars(st)
        lv_names = [n for n, _ in lvs]
        body_assigned = self.assigned(st.body)
        for n in lv_names:
            if n in body_assigned:
                self.fail(f"loop variable `{n}` is assigned in the loop body", st)
            if n in rest_live:
                self.fail(f"loop variable `{n}` is used after the loop", st)
        has_break = self.contains(st.body, (ast.Break,))
        # variables live at the loop head
        head = set(rest_live)
        while True:
            new = set(rest_live) | (self.live_in(st.body, head, rest_live) - set(lv_names))
            if new <= head:
                break
            head |= new
        w = self.ordered(body_assigned & head)
        if not w:
            return rest()        # the loop has no effect on anything that is read later
        brk = None
        if has_break:
            brk = self.fresh("brk")
            self.vt[brk] = BOOL
            self.order[brk] = 10 ** 5
            self.locals.add(brk)
        state = w + ([brk] if brk else [])
        pre = []                 # lets before the loop (bounds evaluated once)
        if kind in ("range", "enum_range"):
            lo, hi = parts
            if kind == "enum_range":
                lo_n = self.fresh("lo")          # the lower bound is evaluated once, before the loop
                pre.append((lo_n, "Int", lo))
                lo = lo_n
                head_txt = f"PyRt.forRange 0 ({strip_par(hi)} - {lo})"
                binder_var = lid(lv_names[0])
                inner = [(lid(lv_names[1]), "Int", f"{lo} + {binder_var}")]
            else:
                head_txt = f"PyRt.forRange {lo} {hi}"
                binder_var = lid(lv_names[0])
                inner = []
        elif kind == "each":
            t, ty = parts
            if isinstance(st.iter, ast.Name) and st.iter.id in body_assigned:
                self.fail(f"the array `{st.iter.id}` is modified while it is iterated", st)
            head_txt = f"PyRt.forEach {par(t)}"
            binder_var = lid(lv_names[0])
            inner = []
        elif kind == "zip":
            t0, t1 = parts
            binder_var = self.fresh("p")
            head_txt = f"PyRt.forEach (PyRt.zip {par(t0)} {par(t1)})"
            inner = [(lid(lv_names[0]), lean_type(lvs[0][1]), f"{binder_var}.1"),
                     (lid(lv_names[1]), lean_type(lvs[1][1]), f"{binder_var}.2")]
        elif kind in ("rows", "enum_rows"):
            t, ty = parts
            rv = lid(lv_names[-1])
            binder_var = lid(lv_names[0]) if kind == "enum_rows" else self.fresh("i")
            head_txt = f"PyRt.forRange 0 (PyRt.A2.shape0 {par(t)})"
            inner = [(rv, lean_type(A1(ty[1])), f"PyRt.A2.row {par(t)} {binder_var}")]
        else:  # enum_a1
            t, ty = parts
            if not isinstance(st.iter.args[0], ast.Name) or st.iter.args[0].id in body_assigned:
                self.fail("enumerate over an array expression / an array modified in the loop", st)
            self.need_inh(ty[1])
            head_txt = f"PyRt.forRange 0 (PyRt.A1.len {par(t)})"
            binder_var = lid(lv_names[0])
            inner = [(lid(lv_names[1]), lean_type(ty[1]), f"PyRt.A1.get {par(t)} {binder_var}")]

        def whole():
            base = set(self.defined)
            if brk:
                self.defined.add(brk)
                base.add(brk)
            pat = lid(state[0]) if len(state) == 1 else "st"
            init = self.tuple_text(state)
            self.defined = base | set(lv_names)
            ctx2 = Ctx(in_loop=True, state=state, brk=brk, brk_live=rest_live)

            def body_thunk():
                b = self.block(st.body, 0, head, lambda: Raw(self.tuple_text(state)), ctx2)
                for n, ty, v in reversed(inner):
                    b = Let(n, ty, v, b)
                if brk:
                    b = If(brk, Raw(self.tuple_text(state)), b)
                return b

            body = self.unpack(state, "st", body_thunk)
            self.defined = base
            after = self.unpack(state, "st", rest, only=rest_live)
            term = Let(pat, None, Loop(f"{head_txt} {init}", f"fun {binder_var} {pat}", body), after)
            if brk:
                term = Let(brk, "Bool", "false", term)
            for n, ty, v in reversed(pre):
                term = Let(n, ty, v, term)
            return term

        return self.preinit(w, whole)

    # ------------------------------------------------------------------ driver
    def translate(self):
        # 1. types of the locals: fixpoint
        self.emit_mode = False
        for _ in range(50):
            self.changed = False
            self.fresh_n = 0
            self.infer(self.body)
            if not self.changed:
                break
        else:
            self.fail("type inference does not converge")
        if self.ret is None:
            if all(isinstance(b, ast.Pass) for b in self.body):
                self.fail("the function body is a stub (`pass`)")
            self.fail("no `return` with an inferable type (declare \"returns\" in the targets JSON)")
        # 2. emission
        self.emit_mode = True
        self.classes, self.oracles = set(), set()
        self.fresh_n = 0
        self.defined = {p for p, _, _ in self.params}
        self.mutating_calls = []

        def no_return():
            self.fail("the function can end without `return`")

        def body():
            return self.block(self.body, 0, self.end_live(), no_return, Ctx())

        if self.has_raise:
            self.defined.add(RAISED)
            term = Let(lid(RAISED), "Bool", "false", body())
        else:
            term = body()
        term = simplify(term)
        self.uses_alpha = bool(self.classes or self.oracles) or any(
            t is not None and mentions_real(t) for t in list(self.vt.values()) + [self.ret])
        ret_ty = ("opt", self.ret) if self.has_raise else self.ret
        binders = []
        if self.uses_alpha:
            binders.append("{α : Type}")
            binders += [CLASS_TEXT[c] for c in CLASS_ORDER if c in self.classes]
            binders += [f"({o} : {ORACLE_TYPE[o]})" for o in ORACLE_ORDER if o in self.oracles]
        binders += [f"({lid(p)} : {lean_type(t)})" for p, t, _ in self.params]
        head = f"def {self.name}"
        line = head
        lines = []
        for b in binders:
            if len(line) + 1 + len(b) > 100:
                lines.append(line)
                line = "    " + b
            else:
                line += " " + b
        line += f" : {lean_type(ret_ty)} :="
        lines.append(line)
        doc = f"/-- `{self.file}` : `{self.pyname}` -/"
        return "\n".join([doc] + lines + pp(term, 2)) + "\n"


# ======================================================================================== module
def jit_functions(tree):
    return [n for n in tree.body if isinstance(n, ast.FunctionDef)]


class Module:
    def __init__(self, cfg, repo):
        self.cfg, self.repo = cfg, Path(repo)
        self.name = cfg["module"]
        self.namespace = f"Generated.{self.name}"
        self.trees = {}
        self.fns = {}            # lean name -> Fn (translated)
        self.specs = cfg["functions"]
        self.py_names = set()

    def tree(self, file):
        if file not in self.trees:
            p = self.repo / file
            if not p.exists():
                raise TranslationError(f"{file}: source file not found under {self.repo}")
            self.trees[file] = ast.parse(p.read_text())
            self.py_names |= {n.name for n in self.trees[file].body if isinstance(n, ast.FunctionDef)}
        return self.trees[file]

    def node_of(self, spec):
        """the FunctionDef of a target; `"name": "Class.method"` addresses a (static) method"""
        path = spec["name"].split(".")
        scope = self.tree(spec["file"]).body
        for k, part in enumerate(path):
            want = ast.FunctionDef if k == len(path) - 1 else ast.ClassDef
            hit = next((n for n in scope if isinstance(n, want) and n.name == part), None)
            if hit is None:
                raise TranslationError(f"{spec['file']}: function {spec['name']} not found")
            if want is ast.FunctionDef:
                if hit.args.args and hit.args.args[0].arg == "self":
                    raise TranslationError(f"{spec['file']}:{spec['name']}: methods with `self` are not in the subset")
                return hit
            scope = hit.body

    def is_known_python_function(self, name):
        return name in self.py_names or any(s["name"].split(".")[-1] == name for s in self.specs)

    def resolve(self, name, dotted_name, caller):
        """the translated callee for a call `dotted_name(...)` in `caller`"""
        cands = [f for f in self.fns.values() if f.pyname == name]
        if not cands:
            return None
        if len(cands) > 1:
            prefix = dotted_name.rsplit(".", 1)[0] if "." in dotted_name else None
            same = [f for f in cands if (prefix and Path(f.file).stem == prefix)
                    or (not prefix and f.file == caller.file)]
            if len(same) == 1:
                return same[0]
            raise TranslationError(f"{caller.file}:{caller.pyname}: ambiguous callee `{dotted_name}`")
        return cands[0]

    def ordered_specs(self):
        """callees first; otherwise the JSON order"""
        nodes = [self.node_of(s) for s in self.specs]
        names = [s["name"].split(".")[-1] for s in self.specs]
        deps = []
        for k, n in enumerate(nodes):
            called = {callee_name(c.func) for c in ast.walk(n) if isinstance(c, ast.Call)}
            deps.append([j for j, m in enumerate(names) if m in called and j != k])
        out, state = [], {}

        def visit(k, stack):
            if state.get(k) == 2:
                return
            if state.get(k) == 1:
                raise TranslationError("recursive call cycle: " + " -> ".join(names[j] for j in stack + [k]))
            state[k] = 1
            for j in deps[k]:
                visit(j, stack + [k])
            state[k] = 2
            out.append(k)

        for k in range(len(nodes)):
            visit(k, [])
        return [(self.specs[k], nodes[k]) for k in out]

    def generate(self):
        defs, index = [], []
        for spec, node in self.ordered_specs():
            fn = Fn(self, spec, node)
            if fn.name in self.fns:
                raise TranslationError(f"duplicate Lean name {fn.name} (use \"lean_name\" in the targets JSON)")
            text = fn.translate()
            self.fns[fn.name] = fn
            defs.append(text)
            index.append(f"  {fn.file} : {fn.pyname}" + (f" (as {fn.name})" if fn.name != fn.pyname else "")
                         + f"   ast-sha256 {fn.ast_sha}")
        return (f"/-\nGenerated/{self.name}.lean — GENERATED by harness/translate2.py from the current Python "
                f"source.  Do not edit.\nDefinitions only (DESIGN.md §12): each `def` is the state-passing "
                f"translation of one `@numba_util.jit()`\nfunction over Model/PyRt.lean; the tie theorems "
                f"live in {tie_info(self.cfg)['tie_module']}.\n\n" + "\n".join(index) + "\n-/\n"
                "import Model.PyRt\n\nset_option linter.unusedVariables false\n\n"
                f"namespace {self.namespace}\n\n" + "\n".join(defs) + f"\nend {self.namespace}\n")


def tie_info(cfg):
    topic = cfg["module"][5:] if cfg["module"].startswith("Loops") else cfg["module"]
    return {"tie_module": cfg.get("tie_module", f"Proofs.Tie{topic}"),
            "namespace": cfg.get("namespace", f"Tie{topic}")}


def load_cfg(module):
    p = TARGET_DIR / f"{module}.json"
    if not p.exists():
        raise TranslationError(f"no targets file {p}")
    cfg = json.loads(p.read_text())
    if cfg.get("module") != module:
        raise TranslationError(f"{p}: \"module\" must be {module!r}")
    return cfg


def generate(module, repo="/repo"):
    cfg = load_cfg(module)
    tr = cfg.get("translator")
    if tr:  # a targets file may name another translator module of harness/ (e.g. "translate_vec" for the
        #     numpy-vectorised, non-jit helpers); it must expose generate(cfg, repo) -> Lean source
        import importlib
        return importlib.import_module(tr).generate(cfg, repo)
    return Module(cfg, repo).generate()


class _Generators(dict):
    """GENERATORS2[module](repo) — modules are discovered from harness/loop_targets/*.json"""

    def __missing__(self, module):
        if not (TARGET_DIR / f"{module}.json").exists():
            raise KeyError(module)
        fn = lambda repo, _m=module: generate(_m, repo)
        self[module] = fn
        return fn


class _TieInfo(dict):
    def __missing__(self, module):
        if not (TARGET_DIR / f"{module}.json").exists():
            raise KeyError(module)
        self[module] = tie_info(load_cfg(module))
        return self[module]


GENERATORS2 = _Generators()
TIE_INFO = _TieInfo()
for _p in sorted(TARGET_DIR.glob("*.json")) if TARGET_DIR.exists() else []:
    try:
        GENERATORS2[_p.stem]
        TIE_INFO[_p.stem]
    except Exception:
        pass


# ======================================================================================== survey
def is_jit(node):
    return any("numba_util.jit" in dotted(d) for d in node.decorator_list)


INT_NAME = re.compile(r"(index|indexes|indices|_sizes|sizes_|(?<!wave)lengths|neighbors|native_for_slim|native_to_slim|"
                      r"for_slim|for_sub|_for_pix|to_pix|pix_indexes|overlaid_centres|ridge_points|sub_size|"
                      r"splitted_mappings|pixel_centres)")


def guess_types(node, known=None):
    """guessed parameter types of a jit function (survey only): annotation, name, how the parameter is
    used, and the guessed types of the jit functions it is passed on to (`known`: name -> (params, types))"""
    known = known or {}
    body = strip_doc(node.body)
    params = [a.arg for a in node.args.args]
    nodes = [n for st in body for n in ast.walk(st)]
    rank, as_bool, mutated, passed = {}, set(), set(), {}
    alias = {}            # local read from a parameter array -> that parameter
    all_alias = []
    flows = []            # (target names, names in the value): index-ness flows from target to value
    for n in nodes:
        if isinstance(n, ast.For):
            it = n.iter
            if isinstance(it, ast.Call) and dotted(it.func) == "enumerate" and it.args:
                it = it.args[0]
                tg = n.target.elts[1] if isinstance(n.target, ast.Tuple) and len(n.target.elts) == 2 else None
            else:
                tg = n.target
            if isinstance(it, ast.Name) and it.id in params:
                rank[it.id] = max(rank.get(it.id, 0), 1)
                if isinstance(tg, ast.Name):
                    alias[tg.id] = it.id
        if isinstance(n, (ast.Assign, ast.AugAssign)):
            tgs = n.targets if isinstance(n, ast.Assign) else [n.target]
            v = n.value
            for tg in tgs:
                names = [tg.id] if isinstance(tg, ast.Name) else \
                    [e.id for e in getattr(tg, "elts", []) if isinstance(e, ast.Name)]
                if isinstance(v, ast.Subscript) and isinstance(v.value, ast.Name) and v.value.id in params:
                    for nm in names:
                        alias[nm] = v.value.id
                        all_alias.append((nm, v.value.id))
                    if isinstance(tg, ast.Tuple):
                        rank[v.value.id] = 2
                elif names:
                    flows.append((names, v))
                t = tg
                while isinstance(t, ast.Subscript):
                    t = t.value
                if isinstance(t, ast.Name) and t is not tg:
                    mutated.add(t.id)
        if isinstance(n, ast.Subscript) and isinstance(n.value, ast.Name):
            r = len(n.slice.elts) if isinstance(n.slice, ast.Tuple) else 1
            rank[n.value.id] = max(rank.get(n.value.id, 0), r)
        if isinstance(n, ast.Subscript) and isinstance(n.value, ast.Subscript) \
                and isinstance(n.value.value, ast.Name):
            rank[n.value.value.id] = 2
        if isinstance(n, ast.Subscript) and isinstance(n.value, ast.Attribute) and n.value.attr == "shape" \
                and isinstance(n.value.value, ast.Name) and isinstance(n.slice, ast.Constant):
            q = n.value.value.id
            rank[q] = max(rank.get(q, 0), n.slice.value + 1)
        if isinstance(n, ast.Call) and callee_name(n.func) in known:
            kparams, ktypes = known[callee_name(n.func)]
            for k, a in list(zip(kparams, n.args)) + [(kw.arg, kw.value) for kw in n.keywords]:
                if isinstance(a, ast.Name) and a.id in params and k in ktypes:
                    passed.setdefault(a.id, ktypes[k])
    cast_real, cplx = set(), set()
    for n in nodes:
        if isinstance(n, ast.Call) and dotted(n.func) == "int" and len(n.args) == 1:
            a0 = n.args[0]
            if isinstance(a0, ast.Subscript):
                a0 = a0.value
            if isinstance(a0, ast.Name):
                cast_real.add(a0.id)             # `int(p)` / `int(p[i, 0])`: p holds floats
        if isinstance(n, ast.Attribute) and n.attr in ("real", "imag") and isinstance(n.value, ast.Name):
            cplx.add(n.value.id)
        if isinstance(n, ast.Assign) and isinstance(n.value, ast.Attribute) and n.value.attr in ("real", "imag") \
                and isinstance(n.value.value, ast.Name) and isinstance(n.targets[0], ast.Name):
            q0 = n.value.value.id
            rank[q0] = max(rank.get(q0, 0), rank.get(n.targets[0].id, 0))
    for nm, q in all_alias:         # a local row of a parameter that is itself subscripted: the parameter is 2-D
        if rank.get(nm, 0) > 0 and q in params:
            rank[q] = 2
    for names, v in flows:          # rank flows through elementwise arithmetic: w = a / b ** 2; w[i, j]
        r = max([rank.get(nm, 0) for nm in names] + [0])
        if r and isinstance(v, (ast.BinOp, ast.UnaryOp)):
            stack = [v]
            while stack:
                m = stack.pop()
                if isinstance(m, ast.Name) and m.id in params:
                    rank[m.id] = max(rank.get(m.id, 0), r)
                elif isinstance(m, ast.BinOp):
                    stack += [m.left, m.right]
                elif isinstance(m, ast.UnaryOp):
                    stack.append(m.operand)

    as_index = set()

    def mark_index(e):
        """names whose value is used as an integer (not through `.shape` / `len`)"""
        if isinstance(e, ast.Attribute) and e.attr in ("shape", "size"):
            return
        if isinstance(e, ast.Call):
            return
        if isinstance(e, ast.Name):
            as_index.add(alias.get(e.id, e.id))
            as_index.add(e.id)
            return
        if isinstance(e, ast.Subscript):
            if isinstance(e.value, ast.Name):
                as_index.add(e.value.id)
            elif isinstance(e.value, ast.Attribute):
                return
            mark_index(e.value)
            return
        for c in ast.iter_child_nodes(e):
            mark_index(c)

    for n in nodes:
        if isinstance(n, ast.Subscript) and not isinstance(n.value, ast.Attribute):
            mark_index(n.slice)
        if isinstance(n, ast.Call) and dotted(n.func) == "range":
            for a in n.args:
                mark_index(a)
        if isinstance(n, ast.Call) and dotted(n.func) in ("np.zeros", "np.ones", "np.full") and (n.args or n.keywords):
            sh = n.args[0] if n.args else next((k.value for k in n.keywords if k.arg == "shape"), None)
            if sh is not None and not (isinstance(sh, ast.Name) and rank.get(sh.id, 0) == 0 and sh.id in params
                                       and ("shape" in sh.id)):
                mark_index(sh)
        if isinstance(n, (ast.If, ast.IfExp)):
            t = n.test.operand if isinstance(n.test, ast.UnaryOp) and isinstance(n.test.op, ast.Not) else n.test
            if isinstance(t, ast.Subscript) and isinstance(t.value, ast.Name):
                as_bool.add(t.value.id)
    for _ in range(4):              # index-ness flows backwards through `k1 = k0 + offset`
        for names, v in flows:
            if any(nm in as_index for nm in names):
                mark_index(v)
    out = {}
    for a in node.args.args:
        q, ann = a.arg, (dotted(a.annotation) if a.annotation is not None else "")
        r = rank.get(q, 0)
        if q in cplx and r > 0:
            out[q] = f"A{min(r, 2)} Complex"
        elif q in cast_real and q not in as_index:
            out[q] = f"A{min(r, 2)} Real" if r > 0 else "Real"
        elif q in passed and r == 0:
            out[q] = passed[q]
        elif "Tuple[int, int]" in ann or (q in ("shape_native", "resized_shape", "kernel_shape_native", "shape")
                                          and ann in ("", "Tuple[int, int]") and r <= 1):
            out[q] = "Int × Int"
        elif "Tuple[int]" in ann:
            out[q] = "(Int,)"
        elif "Tuple[float, float]" in ann or "PixelScales" in ann or q in ("origin", "pixel_scales", "centre"):
            out[q] = "(Real,)" if "_1d" in node.name or "Tuple[float]" in ann else "Real × Real"
        elif "Tuple[float]" in ann:
            out[q] = "(Real,)"
        elif ann in ("int", "Optional[int]") or (r == 0 and q in as_index and "ndarray" not in ann):
            out[q] = "Int"
        elif ann in ("float", "Optional[float]"):
            out[q] = "Real"
        elif ann == "bool":
            out[q] = "Bool"
        elif "ndarray" in ann or "List" in ann or r > 0:
            if q in as_index:
                elt = "Int"
            elif q in as_bool or ("mask" in q and "index" not in q and "pixels" not in q):
                elt = "Bool"
            elif INT_NAME.search(q) and q not in mutated:
                elt = "Int"
            else:
                elt = "Real"
            out[q] = f"A{min(max(r, 1), 2)} {elt}"
        else:
            out[q] = "Real"
    return out


def survey(repo, elab=False, out=sys.stdout, as_json=False):
    repo = Path(repo)
    files = sorted(str(p.relative_to(repo)) for p in (repo / "autoarray").rglob("*.py"))
    specs = []
    seen = {}
    for f in files:
        try:
            tree = ast.parse((repo / f).read_text())
        except SyntaxError:
            continue
        cands = [(n.name, n) for n in tree.body if isinstance(n, ast.FunctionDef)]
        for c in tree.body:
            if isinstance(c, ast.ClassDef):
                cands += [(f"{c.name}.{n.name}", n) for n in c.body if isinstance(n, ast.FunctionDef)]
        for qual, n in cands:
            if is_jit(n):
                spec = {"file": f, "name": qual, "params": guess_types(n), "_node": n}
                if n.name in seen:
                    spec["lean_name"] = Path(f).stem + "_" + n.name
                seen[n.name] = f
                specs.append(spec)
    for _ in range(3):
        known = {sp["name"].split(".")[-1]: ([a.arg for a in sp["_node"].args.args], sp["params"]) for sp in specs}
        for sp in specs:
            sp["params"] = guess_types(sp["_node"], known)
    for sp in specs:
        del sp["_node"]
    cfg = {"module": "Survey", "functions": specs}
    mod = Module(cfg, repo)
    results = []          # (spec, status, detail)
    ok_defs = []
    try:
        order = mod.ordered_specs()
    except TranslationError:
        order = [(s, mod.node_of(s)) for s in specs]
    for spec, node in order:
        try:
            fn = Fn(mod, spec, node)
            if fn.name in mod.fns:
                raise TranslationError("duplicate name")
            text = fn.translate()
            mod.fns[fn.name] = fn
            ok_defs.append((spec, text))
            results.append([spec, "translated", ""])
        except TranslationError as e:
            results.append([spec, "blocked", str(e).split(": ", 1)[-1]])
        except RecursionError:
            results.append([spec, "blocked", "recursion limit"])
    # a function that is blocked under the GUESSED types may translate under the types DECLARED for it in a targets
    # JSON (fancy-index tables, corners passed as rows, …): retry those inside their own module
    declared = {}
    for p in sorted(TARGET_DIR.glob("*.json")):
        try:
            cfg2 = json.loads(p.read_text())
        except ValueError:
            continue
        if cfg2.get("translator"):
            continue
        for fspec in cfg2.get("functions", []):
            declared.setdefault((fspec["file"], fspec["name"]), cfg2)
    retried = {}
    for r in results:
        key = (r[0]["file"], r[0]["name"])
        if r[1] == "blocked" and key in declared:
            cfg2 = declared[key]
            if cfg2["module"] not in retried:
                try:
                    m2 = Module(cfg2, repo)
                    m2.generate()
                    retried[cfg2["module"]] = m2
                except (TranslationError, RecursionError):
                    retried[cfg2["module"]] = None
            m2 = retried[cfg2["module"]]
            if m2 is not None:
                r[1], r[2] = "translated", f"with the types declared in loop_targets/{cfg2['module']}.json"
    if elab and ok_defs:
        import subprocess
        import tempfile
        tmp = Path(tempfile.mkdtemp(prefix="tie_survey_", dir="/tmp"))
        src = "import Model.PyRt\nset_option linter.unusedVariables false\nnamespace Generated.Survey\n\n"
        spans = []
        for spec, text in ok_defs:
            start = src.count("\n") + 1
            src += text + "\n"
            spans.append((start, src.count("\n"), spec))
        src += "end Generated.Survey\n"
        (tmp / "Survey.lean").write_text(src)
        pr = subprocess.run(["lake", "env", "lean", str(tmp / "Survey.lean")], cwd=LEAN_DIR,
                            capture_output=True, text=True)
        bad = {}
        for m in re.finditer(r"Survey\.lean:(\d+):\d+: error: (.*)", pr.stdout + pr.stderr):
            ln = int(m.group(1))
            for a, b, spec in spans:
                if a <= ln <= b:
                    bad.setdefault(id(spec), m.group(2)[:100])
        for r in results:
            if r[1] == "translated":
                r[1] = "elab-error" if id(r[0]) in bad else "elaborated"
                r[2] = bad.get(id(r[0]), "")
        import shutil
        shutil.rmtree(tmp, ignore_errors=True)
    if as_json:      # the guessed targets of the functions that translate: a starting point for a targets JSON
        good = [dict(spec, returns=show_lean_vocab(mod.fns[spec.get("lean_name") or spec["name"].split(".")[-1]].ret))
                for spec, status, _ in results if status in ("translated", "elaborated")]
        json.dump({"module": "<Module>", "functions": good}, out, indent=1, ensure_ascii=False)
        print(file=out)
        return results
    byfile = {}
    for spec, status, detail in sorted(results, key=lambda r: (r[0]["file"], r[0]["name"])):
        byfile.setdefault(spec["file"], []).append((spec["name"], status, detail))
    for f, rows in byfile.items():
        print(f, file=out)
        for name, status, detail in rows:
            print(f"  {status:11s} {name}" + (f"   -- {detail}" if detail else ""), file=out)
    n = len(results)
    cnt = {}
    for _, status, _ in results:
        cnt[status] = cnt.get(status, 0) + 1
    print(f"\n{n} jit functions: " + ", ".join(f"{v} {k}" for k, v in sorted(cnt.items())), file=out)
    reasons = {}
    for _, status, detail in results:
        if status == "blocked":
            key = re.sub(r"\(line \d+\)\s*:?\s*", "", detail)
            if not key.startswith("unsupported constant"):
                key = key.split(": `")[0]
                key = re.sub(r"`[^`]*`", "`…`", key)
            key = key[:100]
            reasons[key] = reasons.get(key, 0) + 1
    print("blocking constructs:", file=out)
    for k, v in sorted(reasons.items(), key=lambda kv: (-kv[1], kv[0])):
        print(f"  {v:3d}  {k}", file=out)
    return results


def main(argv):
    repo, write, elab, as_json = "/repo", False, False, False
    args = []
    it = iter(argv)
    for a in it:
        if a == "--repo":
            repo = next(it)
        elif a == "--write":
            write = True
        elif a == "--elab":
            elab = True
        elif a == "--json":
            as_json = True
        else:
            args.append(a)
    if "--survey" in args:
        survey(repo, elab=elab, as_json=as_json)
        return 0
    if len(args) != 1:
        print(__doc__)
        return 2
    try:
        src = generate(args[0], repo)
    except TranslationError as e:
        print(f"TranslationError: {e}", file=sys.stderr)
        return 1
    if write:
        f = LEAN_DIR / "Generated" / f"{args[0]}.lean"
        if not f.exists() or f.read_text() != src:
            f.write_text(src)
            print(f"wrote {f}")
        else:
            print(f"{f} is up to date")
    else:
        sys.stdout.write(src)
    return 0


if __name__ == "__main__":
    sys.exit(main(sys.argv[1:]))
