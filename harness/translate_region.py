#!/usr/bin/env python3
"""
harness/translate_region.py — Python `ast` -> Lean 4 translator for the *region arithmetic* subset
(property C19): plain Python functions and methods on tuples of ints — no loops, no numpy — such as
`autoarray/layout/region.py : Region2D.parallel_front_region_from` and
`autoarray/layout/layout_util.py : x0x1_after_extraction`.

usage:  python3 harness/translate_region.py RegionArith [--write] [--repo DIR]
        (module name = harness/loop_targets/<Module>.json with `"translator": "translate_region"`;
         `translate2.generate` dispatches here through `generate(cfg, repo)`)

Rendering (definitions only, Mathlib-free, over `Int`; deterministic; the header carries a sha-256 of every
translated function's docstring-free AST):

  values      Python int -> `Int`; tuple -> product `A × B × …`; a value that may be `None` -> `Option T`;
              a `Region2D` / `Region1D` *object* -> the tuple it holds in `.region` (`Int × Int × Int × Int`
              / `Int × Int`): `self[k]`, `self.region[k]` are projections (the class's `__getitem__` is
              checked to be `return self.region[item]`), `self.y0`, `self.total_rows` are calls of the
              translated property, `self.f(..)` of the translated method; a 2-D array (only for the
              `[::-1]` flips) -> `List (List α)`, `a[::-1, :]` = `List.reverse`, `a[:, ::-1]` =
              `List.map List.reverse`, `.copy()` = identity.
  exceptions  a function that can raise (a `raise` statement, subscripting a value that is `None`
              (TypeError), a call of a function that can raise) returns `Option R`: `none` = Python raises.
              A function that cannot raise returns `R`.  Calls of raising functions are bound
              (`match f x with | none => none | some r_1 => …`) in evaluation order.
  constructor `Region2D((…))`, `Region2D(region=(…))`, `aa.Region2D(…)` = call of the translated
              `Region2D.__init__`, which returns the validated tuple (`super().__init__(region=region)` is
              checked to be `self.region = region`).
  None        `x is None`, `x is not None`, `None in [a, b, …]` on `Option`-typed names are `match`es that
              narrow the names in the branch where they are known not to be `None`; on names of a
              non-`Option` type they are decided statically.  A function falling off its end returns `None`.
  if/elif     if no branch can leave the function: `let (assigned vars) := if c then … else …`; a variable
              that some branch leaves unassigned becomes *possibly unbound* (`Option T`, `none` = unbound).
              Otherwise the rest of the block is continued in every branch that continues.
  try         only `try: … except UnboundLocalError: …`: inside, a read of a possibly unbound variable is
              `match x with | none => <handler> | some x => …`; a condition reading such variables is
              expanded into nested `if`s so that Python's short-circuit order of `and` / `or` is kept.
              Reading a possibly unbound variable anywhere else is refused.
  conditions  are Lean `Prop`s (`<`, `≤`, `=`, `∧`, `∨`, `¬` on `Int` and tuples of `Int`).

Everything else is refused with a TranslationError naming file, function and line.
"""
import ast
import hashlib
import json
import sys
from pathlib import Path

HERE = Path(__file__).resolve().parent
TARGET_DIR = HERE / "loop_targets"
LEAN_DIR = HERE.parent / "lean"


class TranslationError(Exception):
    pass


class _Special(Exception):
    """internal: the condition contains an `is None` / `None in […]` atom and must be compiled structurally"""


# ------------------------------------------------------------------------------------------------ types
INT = ("Int",)
NONE = ("None",)
ROWS = ("Rows",)


def Tup(ts):
    return ("Tup", tuple(ts))


def Opt(t):
    return ("Opt", t)


def lean_type(t, inner=False):
    if t == INT:
        return "Int"
    if t == ROWS:
        return "List (List α)"
    if t[0] == "Tup":
        s = " × ".join(lean_type(c, True) if c[0] != "Opt" else lean_type(c) for c in t[1])
        return f"({s})" if inner else s
    if t[0] == "Opt":
        c = lean_type(t[1])
        return f"Option {c}" if t[1] == INT else f"Option ({c})"
    raise TranslationError(f"value of type {t} has no Lean rendering")


def parse_type(s):
    toks = s.replace("(", " ( ").replace(")", " ) ").replace("×", " × ").replace("*", " × ").split()
    pos = [0]

    def peek():
        return toks[pos[0]] if pos[0] < len(toks) else None

    def eat(t=None):
        v = peek()
        if v is None or (t is not None and v != t):
            raise TranslationError(f"bad type {s!r}")
        pos[0] += 1
        return v

    def atom():
        v = eat()
        if v == "(":
            r = prod()
            eat(")")
            return r
        if v == "Int":
            return INT
        if v == "Rows":
            return ROWS
        if v == "Option":
            return Opt(atom())
        raise TranslationError(f"bad type {s!r} (vocabulary: Int, Rows, Option T, A × B, parentheses)")

    def prod():
        parts = [atom()]
        while peek() == "×":
            eat()
            parts.append(atom())
        return parts[0] if len(parts) == 1 else Tup(parts)

    r = prod()
    if peek() is not None:
        raise TranslationError(f"bad type {s!r}")
    return r


def join(a, b, where):
    if a is None:
        return b
    if b is None:
        return a
    if a == b:
        return a
    if a == NONE:
        return b if b[0] == "Opt" else Opt(b)
    if b == NONE:
        return a if a[0] == "Opt" else Opt(a)
    if a[0] == "Opt" and b[0] == "Opt":
        return Opt(join(a[1], b[1], where))
    if a[0] == "Opt":
        return Opt(join(a[1], b, where))
    if b[0] == "Opt":
        return Opt(join(a, b[1], where))
    if a[0] == "Tup" and b[0] == "Tup" and len(a[1]) == len(b[1]):
        return Tup([join(x, y, where) for x, y in zip(a[1], b[1])])
    raise TranslationError(f"{where}: values of incompatible types {a} / {b} meet")


# ------------------------------------------------------------------------------------------------ values
class Val:
    """a rendered Lean term with its type; prec: 100 atom, 80 application, 70 product, 65 sum, 0 anything else"""

    def __init__(self, text, ty, prec=0, parts=None):
        self.text, self.ty, self.prec, self.parts = text, ty, prec, parts

    def arg(self):
        return self.text if self.prec >= 100 else f"({self.text})"


def proj(v, k, n):
    suffix = ".2" * k + (".1" if k < n - 1 else "")
    return v.arg() + suffix


def components(v, where):
    if v.parts is not None:
        return v.parts
    if v.prec < 100:
        raise TranslationError(f"{where}: componentwise use of a tuple value that is not a name or a literal")
    n = len(v.ty[1])
    return [Val(proj(v, k, n), v.ty[1][k], 100) for k in range(n)]


def coerce(v, to, where):
    if v.ty == to:
        return v
    if to[0] == "Opt":
        if v.ty == NONE:
            return Val("none", to, 100)
        if v.ty[0] == "Opt":
            raise TranslationError(f"{where}: a value of type {v.ty} flows into {to}")
        inner = coerce(v, to[1], where)
        return Val(f"some {inner.arg()}", to, 0)
    if to[0] == "Tup" and v.ty[0] == "Tup" and len(to[1]) == len(v.ty[1]):
        cs = [coerce(p, t, where) for p, t in zip(components(v, where), to[1])]
        return Val("(" + ", ".join(c.text for c in cs) + ")", to, 100, cs)
    raise TranslationError(f"{where}: a value of type {v.ty} flows into a position of type {to} "
                           "(a possibly-None value must be tested with `is None` first)")


# ------------------------------------------------------------------------------------------------ text layout
def ind(text, n=2):
    pad = " " * n
    return "\n".join(pad + l if l else l for l in text.split("\n"))


def paren(text):
    """a multi-line block as one parenthesised term (continuation lines shifted by one column so that
    `let` sequences stay aligned)"""
    if "\n" not in text:
        return text
    lines = text.split("\n")
    return "(" + lines[0] + "\n" + "\n".join(" " + l for l in lines[1:]) + ")"


def render_if(p, a, b):
    return f"if {p} then\n{ind(paren(a))}\nelse\n{ind(paren(b))}"


def render_match(scrutinees, arms):
    """arms: [(patterns, body)]"""
    out = ["match " + ", ".join(scrutinees) + " with"]
    for pats, body in arms:
        head = "| " + ", ".join(pats) + " =>"
        if "\n" in body or len(head) + len(body) > 100:
            out.append(head + "\n" + ind(paren(body)))
        else:
            out.append(head + " " + body)
    return "\n".join(out)


# ------------------------------------------------------------------------------------------------ helpers on ast
def strip_doc(body):
    if body and isinstance(body[0], ast.Expr) and isinstance(body[0].value, ast.Constant) \
            and isinstance(body[0].value.value, str):
        return body[1:]
    return body


def canon(n):
    """a dump of the AST that does not depend on the Python version running the translator (`ast.dump`
    does: 3.13 omits empty / None fields, 3.12 prints them, and new optional fields keep appearing):
    fields that are None or [] are left out, line numbers are never included"""
    if isinstance(n, ast.AST):
        fields = []
        for f in n._fields:
            v = getattr(n, f, None)
            if v is None or v == []:
                continue
            fields.append(f"{f}={canon(v)}")
        return type(n).__name__ + "(" + ",".join(fields) + ")"
    if isinstance(n, list):
        return "[" + ",".join(canon(x) for x in n) + "]"
    return repr(n)


def ast_sha(node):
    import copy
    n = copy.deepcopy(node)
    for sub in ast.walk(n):
        if isinstance(sub, (ast.FunctionDef, ast.ClassDef)):
            sub.body = strip_doc(sub.body) or [ast.Pass()]
    return hashlib.sha256(canon(n).encode()).hexdigest()[:16]


def is_none(n):
    return isinstance(n, ast.Constant) and n.value is None


def has_exit(stmts):
    for s in stmts:
        for sub in ast.walk(s):
            if isinstance(sub, (ast.Return, ast.Raise, ast.Try)):
                return True
    return False


def assigned_names(stmts):
    out = []

    def tgt(t):
        if isinstance(t, ast.Name):
            if t.id not in out:
                out.append(t.id)
        elif isinstance(t, (ast.Tuple, ast.List)):
            for e in t.elts:
                tgt(e)

    def walk(ss):
        for s in ss:
            if isinstance(s, ast.Assign):
                for t in s.targets:
                    tgt(t)
            elif isinstance(s, ast.AugAssign):
                tgt(s.target)
            elif isinstance(s, ast.If):
                walk(s.body)
                walk(s.orelse)
    walk(stmts)
    return out


class Bind:
    def __init__(self, kind, var, text, env_before, ty=None):
        self.kind, self.var, self.text, self.env_before, self.ty = kind, var, text, env_before, ty


class Cx:
    """compile context: `handler` = continuation of the enclosing `except UnboundLocalError` (or None),
    `join` = inside an `if` compiled as a value (leaving the function is refused there)"""

    def __init__(self, handler=None, join=False):
        self.handler, self.join = handler, join


# ------------------------------------------------------------------------------------------------ one function
class Fn:
    def __init__(self, mod, spec, node, cls):
        self.mod, self.spec, self.node, self.cls = mod, spec, node, cls
        self.file = spec["file"]
        self.pyname = spec["name"]
        self.name = spec.get("lean_name", spec["name"])
        self.is_init = node.name == "__init__"
        self.is_property = any(isinstance(d, ast.Name) and d.id == "property" for d in node.decorator_list)
        for d in node.decorator_list:
            if not (isinstance(d, ast.Name) and d.id == "property"):
                self.fail(node, "decorator outside the subset")
        self.sha = ast_sha(node)
        self.ret = None
        self.raises = False
        self.done = False
        self.text = None
        self.uses_alpha = False
        self._tmp = 0
        # parameters
        a = node.args
        if a.vararg or a.kwarg or a.kwonlyargs or a.posonlyargs:
            self.fail(node, "*args / **kwargs / keyword-only parameters")
        names = [x.arg for x in a.args]
        defaults = [None] * (len(names) - len(a.defaults)) + list(a.defaults)
        self.params = []  # (name, type, default ast)
        declared = spec.get("params", {})
        self.self_ty = None
        if cls is not None:
            if not names or names[0] != "self":
                self.fail(node, "method without `self`")
            self.self_ty = mod.class_type(cls, self)
            names, defaults = names[1:], defaults[1:]
        for n, d in zip(names, defaults):
            if n not in declared:
                self.fail(node, f"parameter `{n}` has no type in the targets file")
            self.params.append((n, parse_type(declared[n]), d))
        extra = set(declared) - set(names)
        if extra:
            self.fail(node, f"targets file declares unknown parameters {sorted(extra)}")

    # ---- errors / names
    def fail(self, node, msg):
        line = getattr(node, "lineno", self.node.lineno)
        raise TranslationError(f"{self.file}:{self.pyname}:{line}: {msg}")

    def where(self, node):
        return f"{self.file}:{self.pyname}:{getattr(node, 'lineno', self.node.lineno)}"

    def fresh(self, stem):
        self._tmp += 1
        return f"{stem}_{self._tmp}"

    # ---- driver
    def compile(self):
        if self.done:
            return
        if self.text == "<in progress>":
            raise TranslationError(f"{self.file}:{self.pyname}: recursive call cycle")
        self.text = "<in progress>"
        body = strip_doc(self.node.body)
        for render in (False, True):
            self.render = render
            self._tmp = 0
            self.ret_types = []
            self.raise_seen = False
            env = {}
            if self.cls is not None and not self.is_init:
                env["self"] = (self.self_ty, True)
            for n, t, _ in self.params:
                env[n] = (t, True)
                if t == ROWS:
                    self.uses_alpha = True
            text = self.block(body, env, self.fall_off, Cx())
            if not render:
                r = None
                for t in self.ret_types:
                    r = join(r, t, f"{self.file}:{self.pyname}: return values")
                if r is None:
                    self.fail(self.node, "the function never returns a value")
                if r == NONE:
                    self.fail(self.node, "the function only ever returns None")
                if "returns" in self.spec and parse_type(self.spec["returns"]) != r:
                    self.fail(self.node, f"targets file declares returns {self.spec['returns']!r}, "
                                         f"the source returns {lean_type(r)}")
                self.ret, self.raises = r, self.raise_seen
        if self.ret == ROWS or (self.ret[0] == "Opt" and self.ret[1] == ROWS):
            self.uses_alpha = True
        sig = [f"def {self.name}"]
        if self.uses_alpha:
            sig.append("{α : Type}")
        if self.cls is not None and not self.is_init:
            sig.append(f"(self : {lean_type(self.self_ty)})")
        for n, t, _ in self.params:
            sig.append(f"({n} : {lean_type(t)})")
        rt = lean_type(self.ret)
        if self.raises:
            rt = f"Option ({rt})" if self.ret != INT else "Option Int"
        self.lean_ret = rt
        self.text = (f"/-- `{self.file}` : `{self.pyname}` -/\n" + " ".join(sig) + f" : {rt} :=\n"
                     + ind(text) + "\n")
        self.done = True

    def fall_off(self, env):
        if self.is_init:
            if "self" not in env:
                self.fail(self.node, "`__init__` ends without `super().__init__(region=…)`")
            return self.emit_return(Val("self", env["self"][0], 100), Cx(), self.node)
        return self.emit_return(Val("none", NONE, 100), Cx(), self.node)

    def emit_return(self, v, cx, node):
        if cx.join:
            self.fail(node, "leaving the function inside an `if` that is compiled as a value")
        self.ret_types.append(v.ty)
        if not self.render:
            return "_"
        c = coerce(v, self.ret, self.where(node))
        return f"some {c.arg()}" if self.raises else c.text

    def emit_raise(self, cx, node):
        if cx.join:
            self.fail(node, "raising inside an `if` that is compiled as a value")
        self.raise_seen = True
        return "none"

    # ---- binds
    def wrap(self, binds, cx, body):
        """body: () -> str, rendered inside the binds (in evaluation order)"""
        if not binds:
            return body()
        b, rest = binds[0], binds[1:]
        inner = lambda: self.wrap(rest, cx, body)
        if b.kind == "unbound":
            if cx.handler is None:
                raise TranslationError(b.text)
            if cx.join:
                raise TranslationError(b.text + " (inside an `if` compiled as a value)")
            h = cx.handler(b.env_before)
            return render_match([b.var], [(["none"], h), ([f"some {b.var}"], inner())])
        if b.kind == "typeerror":
            if cx.join:
                raise TranslationError(b.text + " (inside an `if` compiled as a value)")
            self.raise_seen = True
            return render_match([b.var], [(["none"], "none"), ([f"some {b.var}"], inner())])
        if b.kind == "call":
            if cx.join:
                raise TranslationError(b.text + " (inside an `if` compiled as a value)")
            self.raise_seen = True
            return render_match([b.text], [(["none"], "none"), ([f"some {b.var}"], inner())])
        raise AssertionError(b.kind)

    # ---- statements
    def block(self, stmts, env, k, cx):
        if not stmts:
            return k(env)
        s = stmts[0]
        rest = lambda e: self.block(stmts[1:], e, k, cx)
        if isinstance(s, ast.Pass):
            return rest(env)
        if isinstance(s, ast.Expr):
            if isinstance(s.value, ast.Constant) and isinstance(s.value.value, str):
                return rest(env)
            if self.is_super_init(s.value):
                return self.stmt_super_init(s, env, rest, cx)
            self.fail(s, "expression statement outside the subset")
        if isinstance(s, ast.Assign):
            return self.stmt_assign(s, env, rest, cx)
        if isinstance(s, ast.AugAssign):
            if not isinstance(s.target, ast.Name):
                self.fail(s, "augmented assignment to something that is not a local name")
            new = ast.Assign(targets=[ast.Name(id=s.target.id, ctx=ast.Store())],
                             value=ast.BinOp(left=ast.Name(id=s.target.id, ctx=ast.Load()), op=s.op,
                                             right=s.value))
            ast.copy_location(new, s)
            ast.fix_missing_locations(new)
            return self.stmt_assign(new, env, rest, cx)
        if isinstance(s, ast.Return):
            env2, binds = dict(env), []
            v = Val("none", NONE, 100) if s.value is None else self.expr(s.value, env2, binds, cx)
            if self.is_init:
                if s.value is not None and not is_none(s.value):
                    self.fail(s, "`__init__` returning a value")
                if "self" not in env2:
                    self.fail(s, "`__init__` returns before `super().__init__(region=…)`")
                v = Val("self", env2["self"][0], 100)
            return self.wrap(binds, cx, lambda: self.emit_return(v, cx, s))
        if isinstance(s, ast.Raise):
            return self.emit_raise(cx, s)
        if isinstance(s, ast.If):
            return self.stmt_if(s, env, rest, cx)
        if isinstance(s, ast.Try):
            return self.stmt_try(s, env, rest, cx)
        self.fail(s, f"statement `{type(s).__name__}` outside the subset")

    def is_super_init(self, c):
        return (isinstance(c, ast.Call) and isinstance(c.func, ast.Attribute) and c.func.attr == "__init__"
                and isinstance(c.func.value, ast.Call) and isinstance(c.func.value.func, ast.Name)
                and c.func.value.func.id == "super" and not c.func.value.args)

    def stmt_super_init(self, s, env, rest, cx):
        if not self.is_init:
            self.fail(s, "`super().__init__` outside `__init__`")
        self.mod.check_base_init(self.cls, self)
        c = s.value
        if c.args and not c.keywords and len(c.args) == 1:
            arg = c.args[0]
        elif not c.args and len(c.keywords) == 1 and c.keywords[0].arg == "region":
            arg = c.keywords[0].value
        else:
            self.fail(s, "`super().__init__` must receive exactly the region")
        env2, binds = dict(env), []
        v = self.expr(arg, env2, binds, cx)

        def body():
            c2 = coerce(v, self.self_ty, self.where(s))
            e3 = dict(env2)
            e3["self"] = (self.self_ty, True)
            return f"let self : {lean_type(self.self_ty)} := {c2.text}\n" + rest(e3)
        return self.wrap(binds, cx, body)

    def stmt_assign(self, s, env, rest, cx):
        if len(s.targets) != 1:
            self.fail(s, "chained assignment")
        t = s.targets[0]
        env2, binds = dict(env), []
        v = self.expr(s.value, env2, binds, cx)
        if isinstance(t, ast.Name):
            if v.ty == NONE:
                self.fail(s, "assignment of a bare None")

            def body():
                e3 = dict(env2)
                e3[t.id] = (v.ty, True)
                return f"let {t.id} : {lean_type(v.ty)} := {v.text}\n" + rest(e3)
            return self.wrap(binds, cx, body)
        if isinstance(t, ast.Tuple) and all(isinstance(e, ast.Name) for e in t.elts):
            names = [e.id for e in t.elts]
            if len(set(names)) != len(names):
                self.fail(s, "a name occurs twice in an unpacking target")
            if v.ty[0] != "Tup" or len(v.ty[1]) != len(names):
                self.fail(s, f"unpacking {len(names)} names from a value of type {v.ty}")

            def body():
                tmp = self.fresh("t")
                e3 = dict(env2)
                lines = [f"let {tmp} : {lean_type(v.ty)} := {v.text}"]
                tv = Val(tmp, v.ty, 100)
                for k, n in enumerate(names):
                    ct = v.ty[1][k]
                    if ct == NONE:
                        self.fail(s, "unpacking a bare None")
                    lines.append(f"let {n} : {lean_type(ct)} := {proj(tv, k, len(names))}")
                    e3[n] = (ct, True)
                return "\n".join(lines) + "\n" + rest(e3)
            return self.wrap(binds, cx, body)
        self.fail(s, "assignment target outside the subset (only local names and tuples of names)")

    def stmt_try(self, s, env, rest, cx):
        if s.orelse or s.finalbody or len(s.handlers) != 1:
            self.fail(s, "`try` with else / finally / several handlers")
        h = s.handlers[0]
        if not (isinstance(h.type, ast.Name) and h.type.id == "UnboundLocalError" and h.name is None):
            self.fail(s, "only `except UnboundLocalError:` is in the subset")
        inner = Cx(handler=lambda e: self.block(h.body, e, rest, cx), join=cx.join)
        return self.block(s.body, env, rest, inner)

    def stmt_if(self, s, env, rest, cx):
        if has_exit(s.body) or has_exit(s.orelse):
            return self.cond(s.test, env, cx,
                             lambda e: self.block(s.body, e, rest, cx),
                             lambda e: self.block(s.orelse, e, rest, cx))
        # value form: let W := if c then … else …
        W = assigned_names(s.body + s.orelse)
        if not W:
            return rest(env)
        jcx = Cx(handler=cx.handler, join=True)
        ends = []

        def collect(e):
            ends.append(e)
            return "_"
        save = (self.render, self._tmp)
        self.render = False
        self.cond(s.test, env, jcx, lambda e: self.block(s.body, e, collect, jcx),
                  lambda e: self.block(s.orelse, e, collect, jcx))
        self.render, self._tmp = save
        result = {}
        for w in W:
            ty, bound = None, True
            for e in ends:
                if w in e:
                    ty = join(ty, e[w][0], f"{self.where(s)}: variable `{w}`")
                    bound = bound and e[w][1]
                else:
                    bound = False
            if not bound:
                for e in ends:
                    if w in e and not e[w][1] and e[w][0] != ty:
                        self.fail(s, f"possibly unbound `{w}` changes its type")
            result[w] = (ty, bound)

        def ltype(w):
            ty, bound = result[w]
            if bound:
                return lean_type(ty)
            return lean_type(Opt(ty)) if ty[0] != "Opt" else f"Option ({lean_type(ty)})"

        def yield_(e):
            vals = []
            for w in W:
                ty, bound = result[w]
                if bound:
                    vals.append(coerce(Val(w, e[w][0], 100), ty, self.where(s)).text)
                elif w not in e:
                    vals.append("none")
                elif not e[w][1]:
                    vals.append(w)
                else:
                    vals.append("some " + coerce(Val(w, e[w][0], 100), ty, self.where(s)).arg())
            return vals[0] if len(vals) == 1 else "(" + ", ".join(vals) + ")"
        value = self.cond(s.test, env, jcx, lambda e: self.block(s.body, e, yield_, jcx),
                          lambda e: self.block(s.orelse, e, yield_, jcx))
        e3 = dict(env)
        for w in W:
            e3[w] = result[w]
        tail = rest(e3)
        if len(W) == 1 and tail == W[0]:
            return value  # peephole: `let w := V; w`
        if len(W) == 1:
            head = f"let {W[0]} : {ltype(W[0])} :=\n" + ind(paren(value), 2)
        else:
            st = self.fresh("st")
            tys = [ltype(w) for w in W]
            head = f"let {st} : " + " × ".join(f"({t})" if "×" in t else t for t in tys) + " :=\n" \
                   + ind(paren(value), 2)
            sv = Val(st, None, 100)
            for k, w in enumerate(W):
                head += f"\nlet {w} : {tys[k]} := {proj(sv, k, len(W))}"
        return head + "\n" + tail

    # ---- conditions
    def cond(self, t, env, cx, T, F):
        """`if t: T else: F` with T, F : env -> str"""
        try:
            env2, binds = dict(env), []
            p = self.prop(t, env2, binds, cx)
            if not binds:
                return render_if(p, T(env2), F(env2))
            if not isinstance(t, (ast.BoolOp, ast.UnaryOp)):
                return self.wrap(binds, cx, lambda: render_if(p, T(env2), F(env2)))
        except _Special:
            pass
        if isinstance(t, ast.BoolOp):
            first, others = t.values[0], t.values[1:]
            tail = others[0] if len(others) == 1 else ast.copy_location(ast.BoolOp(op=t.op, values=others), t)
            if isinstance(t.op, ast.Or):
                return self.cond(first, env, cx, T, lambda e: self.cond(tail, e, cx, T, F))
            return self.cond(first, env, cx, lambda e: self.cond(tail, e, cx, T, F), F)
        if isinstance(t, ast.UnaryOp) and isinstance(t.op, ast.Not):
            return self.cond(t.operand, env, cx, F, T)
        if isinstance(t, ast.Compare) and len(t.ops) == 1:
            op, l, r = t.ops[0], t.left, t.comparators[0]
            if isinstance(op, (ast.Is, ast.IsNot)):
                if is_none(l):
                    l, r = r, l
                if not is_none(r) or not isinstance(l, ast.Name):
                    self.fail(t, "`is` is only supported as `<name> is [not] None`")
                if isinstance(op, ast.IsNot):
                    T, F = F, T
                return self.none_test([l], env, T, F, t)
            if isinstance(op, (ast.In, ast.NotIn)):
                if not is_none(l) or not isinstance(r, (ast.List, ast.Tuple)) \
                        or not all(isinstance(e, ast.Name) for e in r.elts):
                    self.fail(t, "`in` is only supported as `None [not] in [<names>]`")
                if isinstance(op, ast.NotIn):
                    T, F = F, T
                return self.none_test(list(r.elts), env, T, F, t)
        self.fail(t, "condition outside the subset")

    def none_test(self, names, env, T, F, node):
        """T if one of the names is None, else F with the names narrowed"""
        opts = []
        for n in names:
            if n.id not in env:
                self.fail(node, f"`{n.id}` is not bound here")
            ty, bound = env[n.id]
            if not bound:
                self.fail(node, f"None-test of the possibly unbound local `{n.id}`")
            if ty == NONE:
                return T(env)
            if ty[0] == "Opt" and n.id not in opts:
                opts.append(n.id)
        if not opts:
            return F(env)  # names of a non-Option type are never None
        e2 = dict(env)
        for n in opts:
            e2[n] = (env[n][0][1], True)
        if len(opts) == 1:
            return render_match(opts, [(["none"], T(env)), ([f"some {opts[0]}"], F(e2))])
        return render_match(opts, [([f"some {n}" for n in opts], F(e2)), (["_"] * len(opts), T(env))])

    CMP = {ast.Lt: "<", ast.LtE: "≤", ast.Gt: ">", ast.GtE: "≥", ast.Eq: "=", ast.NotEq: "≠"}

    def prop(self, t, env, binds, cx):
        if isinstance(t, ast.BoolOp):
            sym = " ∧ " if isinstance(t.op, ast.And) else " ∨ "
            parts = []
            for v in t.values:
                p = self.prop(v, env, binds, cx)
                parts.append(f"({p})" if isinstance(v, ast.BoolOp) else p)
            return sym.join(parts)
        if isinstance(t, ast.UnaryOp) and isinstance(t.op, ast.Not):
            return f"¬({self.prop(t.operand, env, binds, cx)})"
        if isinstance(t, ast.Compare):
            if any(isinstance(o, (ast.Is, ast.IsNot, ast.In, ast.NotIn)) for o in t.ops):
                raise _Special()
            operands = [t.left] + list(t.comparators)
            vals = []
            for k, o in enumerate(operands):
                nb = len(binds)
                vals.append(self.expr(o, env, binds, cx))
                if k >= 2 and len(binds) > nb:
                    self.fail(t, "a later operand of a chained comparison may raise / be unbound")
            out = []
            for k, op in enumerate(t.ops):
                if type(op) not in self.CMP:
                    self.fail(t, "comparison operator outside the subset")
                a, b = vals[k], vals[k + 1]
                ints = a.ty == INT and b.ty == INT
                tups = (isinstance(op, (ast.Eq, ast.NotEq)) and a.ty == b.ty and a.ty[0] == "Tup"
                        and all(c == INT for c in a.ty[1]))
                if not (ints or tups):
                    self.fail(t, f"comparison of values of type {a.ty} and {b.ty}")
                out.append(f"{a.arg() if a.prec < 65 else a.text} {self.CMP[type(op)]} "
                           f"{b.arg() if b.prec < 65 else b.text}")
            return " ∧ ".join(out)
        self.fail(t, "condition is not a comparison / and / or / not")

    # ---- expressions
    def expr(self, n, env, binds, cx):
        if isinstance(n, ast.Constant):
            if n.value is None:
                return Val("none", NONE, 100)
            if isinstance(n.value, int) and not isinstance(n.value, bool):
                return Val(str(n.value), INT, 100) if n.value >= 0 else Val(f"({n.value})", INT, 100)
            self.fail(n, f"constant {n.value!r} outside the subset")
        if isinstance(n, ast.Name):
            if n.id not in env:
                self.fail(n, f"name `{n.id}` is not a bound local / parameter")
            ty, bound = env[n.id]
            if not bound:
                binds.append(Bind("unbound", n.id,
                                  f"{self.where(n)}: read of the possibly unbound local `{n.id}` outside "
                                  "`try: … except UnboundLocalError`", dict(env)))
                env[n.id] = (ty, True)
            return Val(n.id, ty, 100)
        if isinstance(n, ast.UnaryOp) and isinstance(n.op, ast.USub):
            v = self.expr(n.operand, env, binds, cx)
            if v.ty != INT:
                self.fail(n, "unary minus of a non-integer")
            return Val(f"-{v.arg()}", INT, 0)
        if isinstance(n, ast.BinOp):
            ops = {ast.Add: ("+", 65), ast.Sub: ("-", 65), ast.Mult: ("*", 70)}
            if type(n.op) not in ops:
                self.fail(n, f"operator `{type(n.op).__name__}` outside the subset (+ - * on ints)")
            a = self.expr(n.left, env, binds, cx)
            b = self.expr(n.right, env, binds, cx)
            if a.ty != INT or b.ty != INT:
                self.fail(n, f"arithmetic on values of type {a.ty} and {b.ty}")
            sym, pr = ops[type(n.op)]
            return Val(f"{a.text if a.prec >= pr else a.arg()} {sym} {b.text if b.prec > pr else b.arg()}",
                       INT, pr)
        if isinstance(n, ast.Tuple):
            if len(n.elts) < 2:
                self.fail(n, "tuples of fewer than two components")
            parts = [self.expr(e, env, binds, cx) for e in n.elts]
            return Val("(" + ", ".join(p.text for p in parts) + ")", Tup([p.ty for p in parts]), 100, parts)
        if isinstance(n, ast.Subscript):
            return self.expr_subscript(n, env, binds, cx)
        if isinstance(n, ast.Attribute):
            if isinstance(n.value, ast.Name) and n.value.id == "self" and self.cls is not None:
                sv = self.expr(n.value, env, binds, cx)
                if n.attr == "region":
                    return sv
                callee = self.mod.method(self.cls, n.attr, self, n)
                if not callee.is_property:
                    self.fail(n, f"`self.{n.attr}` is a method, not a property")
                return self.call(callee, [sv], n, binds, env)
            self.fail(n, "attribute access outside the subset (only `self.<property>` / `self.region`)")
        if isinstance(n, ast.Call):
            return self.expr_call(n, env, binds, cx)
        self.fail(n, f"expression `{type(n).__name__}` outside the subset")

    def expr_subscript(self, n, env, binds, cx):
        sl = n.slice
        # flips of a 2-D array
        if isinstance(sl, ast.Tuple):
            v = self.expr(n.value, env, binds, cx)
            if v.ty != ROWS or len(sl.elts) != 2:
                self.fail(n, "multi-index subscript outside the subset (only `a[::-1, :]`-style flips)")
            kinds = []
            for e in sl.elts:
                if not isinstance(e, ast.Slice) or e.lower is not None or e.upper is not None:
                    self.fail(n, "only full slices `:` and reversals `::-1` are in the subset")
                if e.step is None:
                    kinds.append(False)
                elif isinstance(e.step, ast.UnaryOp) and isinstance(e.step.op, ast.USub) \
                        and isinstance(e.step.operand, ast.Constant) and e.step.operand.value == 1:
                    kinds.append(True)
                else:
                    self.fail(n, "only full slices `:` and reversals `::-1` are in the subset")
            out = v
            if kinds[0]:
                out = Val(f"List.reverse {out.arg()}", ROWS, 80)
            if kinds[1]:
                out = Val(f"List.map List.reverse {out.arg()}", ROWS, 80)
            return out
        k = None
        if isinstance(sl, ast.Constant) and isinstance(sl.value, int) and not isinstance(sl.value, bool):
            k = sl.value
        elif isinstance(sl, ast.UnaryOp) and isinstance(sl.op, ast.USub) and isinstance(sl.operand, ast.Constant) \
                and isinstance(sl.operand.value, int):
            k = -sl.operand.value
        if k is None:
            self.fail(n, "subscript outside the subset (constant integer index of a tuple)")
        # `pixels[0]` where pixels may be None: TypeError
        if isinstance(n.value, ast.Name) and n.value.id in env and env[n.value.id][1] \
                and env[n.value.id][0][0] == "Opt":
            name = n.value.id
            binds.append(Bind("typeerror", name, f"{self.where(n)}: subscript of the possibly-None `{name}`",
                              dict(env)))
            env[name] = (env[name][0][1], True)
        v = self.expr(n.value, env, binds, cx)
        if v.ty[0] != "Tup":
            self.fail(n, f"subscript of a value of type {v.ty}")
        size = len(v.ty[1])
        if k < 0:
            k += size
        if not 0 <= k < size:
            self.fail(n, "tuple index out of range")
        if v.parts is not None:
            return v.parts[k]
        return Val(proj(v, k, size), v.ty[1][k], 100)

    def expr_call(self, n, env, binds, cx):
        f = n.func
        # a.copy()
        if isinstance(f, ast.Attribute) and f.attr == "copy" and not n.args and not n.keywords:
            v = self.expr(f.value, env, binds, cx)
            if v.ty != ROWS:
                self.fail(n, "`.copy()` of something that is not an array")
            return v
        callee, selfval = None, None
        if isinstance(f, ast.Name):
            callee = self.mod.function_or_ctor(f.id, self, n)
        elif isinstance(f, ast.Attribute) and isinstance(f.value, ast.Name):
            if f.value.id == "self" and self.cls is not None:
                callee = self.mod.method(self.cls, f.attr, self, n)
                if callee.is_property:
                    self.fail(n, f"`self.{f.attr}` is a property and is called")
                selfval = self.expr(f.value, env, binds, cx)
            elif f.value.id in self.mod.aliases:
                callee = self.mod.function_or_ctor(f.attr, self, n)
        if callee is None:
            self.fail(n, "call outside the subset (translated functions, `self.<method>`, region constructors)")
        # bind arguments
        pnames = [p[0] for p in callee.params]
        given = {}
        if len(n.args) > len(pnames):
            self.fail(n, "too many positional arguments")
        for k, a in enumerate(n.args):
            if isinstance(a, ast.Starred):
                self.fail(n, "starred argument")
            given[pnames[k]] = a
        for kw in n.keywords:
            if kw.arg is None or kw.arg not in pnames or kw.arg in given:
                self.fail(n, f"keyword argument `{kw.arg}` does not match the callee")
            given[kw.arg] = kw.value
        # Python evaluates positional then keyword arguments in source order
        order = [pnames[k] for k in range(len(n.args))] + [kw.arg for kw in n.keywords]
        vals = {}
        for p in order:
            vals[p] = self.expr(given[p], env, binds, cx)
        args = [] if selfval is None else [selfval]
        for p, ty, d in callee.params:
            if p in vals:
                v = vals[p]
            elif d is not None:
                v = callee.expr(d, {}, [], Cx())
            else:
                self.fail(n, f"missing argument `{p}`")
            args.append(coerce(v, ty, self.where(n)))
        return self.call(callee, args, n, binds, env)

    def call(self, callee, args, n, binds, env):
        text = " ".join([callee.name] + [a.arg() for a in args])
        if callee.uses_alpha:
            self.uses_alpha = True
        if callee.raises:
            tmp = self.fresh("r")
            binds.append(Bind("call", tmp, text, dict(env)))
            return Val(tmp, callee.ret, 100)
        return Val(text, callee.ret, 80 if args else 100)


# ------------------------------------------------------------------------------------------------ module
EXPECT_GETITEM = "return self.region[item]"
EXPECT_BASE_INIT = "self.region = region"


class Module:
    def __init__(self, cfg, repo):
        self.cfg, self.repo = cfg, Path(repo)
        self.name = cfg["module"]
        self.namespace = f"Generated.{self.name}"
        self.classes = cfg.get("classes", {})
        self.aliases = set(cfg.get("module_aliases", []))
        self.trees = {}
        self.fns = {}  # python qualified name -> Fn
        self.order = []
        self.checked = {}
        self.specs = {}
        for s in cfg["functions"]:
            if s["name"] in self.specs:
                raise TranslationError(f"duplicate target {s['name']}")
            self.specs[s["name"]] = s

    def tree(self, file):
        if file not in self.trees:
            p = self.repo / file
            if not p.exists():
                raise TranslationError(f"{file}: no such file under {self.repo}")
            self.trees[file] = ast.parse(p.read_text())
        return self.trees[file]

    def find_class(self, file, cname):
        for n in self.tree(file).body:
            if isinstance(n, ast.ClassDef) and n.name == cname:
                return n
        raise TranslationError(f"{file}: class `{cname}` not found")

    def find_def(self, file, qual):
        parts = qual.split(".")
        if len(parts) == 1:
            cands = [n for n in self.tree(file).body if isinstance(n, ast.FunctionDef) and n.name == qual]
            cls = None
        elif len(parts) == 2:
            c = self.find_class(file, parts[0])
            cands = [n for n in c.body if isinstance(n, ast.FunctionDef) and n.name == parts[1]]
            cls = parts[0]
        else:
            raise TranslationError(f"{file}: bad target name {qual}")
        if len(cands) != 1:
            raise TranslationError(f"{file}: {qual}: {len(cands)} definitions found (need exactly one)")
        return cands[0], cls

    def lookup_in_mro(self, file, cname, meth):
        """the FunctionDef that `cname().meth` resolves to (single inheritance inside one file)"""
        c = self.find_class(file, cname)
        for n in c.body:
            if isinstance(n, ast.FunctionDef) and n.name == meth:
                return n, cname
        if len(c.bases) == 1 and isinstance(c.bases[0], ast.Name):
            return self.lookup_in_mro(file, c.bases[0].id, meth)
        raise TranslationError(f"{file}: `{cname}.{meth}` not found")

    def expect_body(self, file, cname, meth, expected, skip_self_bases=False):
        c = self.find_class(file, cname)
        if skip_self_bases:
            if len(c.bases) != 1 or not isinstance(c.bases[0], ast.Name):
                raise TranslationError(f"{file}: class `{cname}` must have exactly one base class")
            cname = c.bases[0].id
        node, owner = self.lookup_in_mro(file, cname, meth)
        got = canon(ast.Module(body=strip_doc(node.body), type_ignores=[]))
        want = canon(ast.parse(expected))
        if got != want:
            raise TranslationError(f"{file}:{owner}.{meth}:{node.lineno}: expected the body `{expected}` "
                                   "(the translation of region objects as their tuples relies on it)")
        if meth == "__getitem__" and [a.arg for a in node.args.args] != ["self", "item"]:
            raise TranslationError(f"{file}:{owner}.{meth}: unexpected parameters")
        if meth == "__init__" and [a.arg for a in node.args.args] != ["self", "region"]:
            raise TranslationError(f"{file}:{owner}.{meth}: unexpected parameters")
        return f"{owner}.{meth}", ast_sha(node)

    def class_type(self, cname, fn):
        if cname not in self.classes:
            raise TranslationError(f"{fn.file}:{fn.pyname}: class `{cname}` has no tuple type in the targets "
                                   "file (\"classes\")")
        key = ("getitem", cname)
        if key not in self.checked:
            self.checked[key] = self.expect_body(fn.file, cname, "__getitem__", EXPECT_GETITEM)
        return parse_type(self.classes[cname])

    def check_base_init(self, cname, fn):
        key = ("init", cname)
        if key not in self.checked:
            self.checked[key] = self.expect_body(fn.file, cname, "__init__", EXPECT_BASE_INIT,
                                                 skip_self_bases=True)

    def get(self, qual, caller, node):
        if qual not in self.specs:
            caller.fail(node, f"`{qual}` is called but is not a target of {self.name}.json")
        if qual not in self.fns:
            spec = self.specs[qual]
            d, cls = self.find_def(spec["file"], qual)
            fn = Fn(self, spec, d, cls)
            self.fns[qual] = fn
        fn = self.fns[qual]
        fn.compile()
        if fn not in self.order:
            self.order.append(fn)
        return fn

    def method(self, cls, name, caller, node):
        return self.get(f"{cls}.{name}", caller, node)

    def function_or_ctor(self, name, caller, node):
        if name in self.classes:
            return self.get(f"{name}.__init__", caller, node)
        return self.get(name, caller, node)

    def generate(self):
        class _Top:
            def fail(self, node, msg):
                raise TranslationError(msg)
        for s in self.cfg["functions"]:
            self.get(s["name"], _Top(), None)
        names = [f.name for f in self.order]
        if len(set(names)) != len(names):
            raise TranslationError("duplicate Lean names (use \"lean_name\")")
        index = []
        for f in self.order:
            index.append(f"  {f.file} : {f.pyname}" + (f" (as {f.name})" if f.name != f.pyname else "")
                         + f"   ast-sha256 {f.sha}")
        for q, sha in sorted(set(self.checked.values())):
            index.append(f"  checked, not translated: {q}   ast-sha256 {sha}")
        tie = self.cfg.get("tie_module", f"Proofs.Tie{self.name}")
        return (f"/-\nGenerated/{self.name}.lean — GENERATED by harness/translate_region.py from the current "
                f"Python source.  Do not edit.\nDefinitions only (DESIGN.md §12): each `def` renders one plain-"
                f"Python function / method of the\nregion arithmetic over `Int` (region objects are the tuples "
                f"they hold; `none` of an outer `Option` =\nPython raises); the tie theorems live in {tie}.\n\n"
                + "\n".join(index) + "\n-/\n\nset_option linter.unusedVariables false\n\n"
                f"namespace {self.namespace}\n\n" + "\n".join(f.text for f in self.order)
                + f"\nend {self.namespace}\n")


def generate(cfg, repo="/repo"):
    """entry point used by translate2.generate (targets files with `"translator": "translate_region"`)"""
    return Module(cfg, repo).generate()


def load_cfg(module):
    p = TARGET_DIR / f"{module}.json"
    if not p.exists():
        raise TranslationError(f"no targets file {p}")
    cfg = json.loads(p.read_text())
    if cfg.get("module") != module:
        raise TranslationError(f"{p}: \"module\" must be {module!r}")
    return cfg


def main(argv):
    repo, write, args = "/repo", False, []
    it = iter(argv)
    for a in it:
        if a == "--repo":
            repo = next(it)
        elif a == "--write":
            write = True
        else:
            args.append(a)
    if len(args) != 1:
        print(__doc__)
        return 2
    try:
        src = generate(load_cfg(args[0]), repo)
    except TranslationError as e:
        print(f"TranslationError: {e}", file=sys.stderr)
        return 1
    if write:
        f = LEAN_DIR / "Generated" / f"{args[0]}.lean"
        if not f.exists() or f.read_text() != src:
            f.write_text(src)
            print(f"wrote {f}")
        else:
            print(f"{f} is up to date")
    else:
        sys.stdout.write(src)
    return 0


if __name__ == "__main__":
    sys.exit(main(sys.argv[1:]))
